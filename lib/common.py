"""Shared plumbing for the per-property checks: context, verdicts, evidence, known findings."""
from __future__ import annotations

import json
import os
import re
import subprocess
import sys
import time
import traceback

VERIF = os.path.dirname(os.path.dirname(os.path.abspath(__file__)))
REPO = os.environ.get("VERIF_REPO", "/repo")
# (redirected only when a seeded change is tried out against a scratch worktree: tools_seedmatrix.sh)
EVIDENCE_DIR = os.environ.get("VERIF_EVIDENCE_DIR", os.path.join(VERIF, "evidence"))
REPLAY_DIR = os.environ.get("VERIF_REPLAY_DIR", os.path.join(VERIF, "replays"))
FINDINGS_FILE = os.path.join(VERIF, "known_findings.txt")

LEVEL = "model_checking"


def repo_state() -> dict:
    def g(*a):
        try:
            return subprocess.run(["git", "-C", REPO, *a], stdout=subprocess.PIPE, stderr=subprocess.DEVNULL,
                                  text=True).stdout.strip()
        except OSError:
            return ""
    return {"head": g("rev-parse", "HEAD"), "dirty_files": [l[3:] for l in g("status", "--porcelain").splitlines()][:20]}


def load_findings() -> dict:
    """known_findings.txt -> {"known": {(pid, sig): text}, "fixed": [(pid, commit, text)]}.  Never written at run time."""
    known, fixed = {}, []
    if os.path.exists(FINDINGS_FILE):
        for line in open(FINDINGS_FILE):
            line = line.strip()
            if not line or line.startswith("#"):
                continue
            m = re.match(r"known:\s+property=(C\d+)\s+sig=(\S+)\s+(.*)", line)
            if m:
                known[(m.group(1), m.group(2))] = m.group(3)
                continue
            m = re.match(r"fixed:\s+property=(C\d+)\s+(\S+)\s+(.*)", line)
            if m:
                fixed.append((m.group(1), m.group(2), m.group(3)))
    return {"known": known, "fixed": fixed}


class Ctx:
    """One run of one property's check."""

    def __init__(self, pid: str, tier: str, seed: int):
        self.pid, self.tier, self.seed = pid, tier, seed
        self.t0 = time.time()
        self.states = 0
        self.transitions = 0
        self.traces_validated = 0
        self.evaluations = 0
        self.distinct: set = set()
        self.samples: list = []
        self.assumptions: list[str] = []
        self.notes: dict = {}
        self.tlc_runs: list = []
        self.violations: list = []      # (sig, replay_path, text)
        self.known_seen: dict = {}      # sig -> count
        self.findings = load_findings()
        self.exhaustive = None
        self.rule = ""
        os.makedirs(EVIDENCE_DIR, exist_ok=True)

    @property
    def quick(self):
        return self.tier == "quick"

    # ---- accumulation -------------------------------------------------------------------------
    def add_tlc(self, res, label: str, exhaustive: bool | None = None):
        self.states += res.distinct
        self.transitions += res.generated
        self.tlc_runs.append({"label": label, "distinct": res.distinct, "generated": res.generated,
                              "depth": res.depth, "wall_s": round(res.wall_s, 2), "ok": res.ok,
                              "violated": res.violated,
                              "actions_hit": sorted(res.action_names_hit())[:80]})
        if exhaustive is not None:
            self.exhaustive = exhaustive if self.exhaustive is None else (self.exhaustive and exhaustive)

    def sample(self, s, cap: int = 6):
        if len(self.samples) < cap:
            self.samples.append(s)

    def case(self, key, n: int = 1):
        self.evaluations += n
        self.distinct.add(key if isinstance(key, (str, int, tuple)) else json.dumps(key, sort_keys=True, default=str))

    # ---- verdicts -----------------------------------------------------------------------------
    def violation(self, sig: str, text: str, replay: dict | None = None):
        """Report a property violation with signature `sig`.  Known findings are matched by (pid, sig)."""
        if (self.pid, sig) in self.findings["known"]:
            self.known_seen[sig] = self.known_seen.get(sig, 0) + 1
            if self.known_seen[sig] == 1 and replay is not None:
                self._write_replay("known-" + sig, replay, text)
            return
        n = sum(1 for v in self.violations if v[0] == sig)
        if n >= 3:
            self.violations.append((sig, self.violations[-1][1], text))
            return
        path = self._write_replay(f"{sig}-{n}", replay or {}, text)
        self.violations.append((sig, path, text))

    def _write_replay(self, name: str, replay: dict, text: str) -> str:
        d = os.path.join(REPLAY_DIR, self.pid)
        os.makedirs(d, exist_ok=True)
        path = os.path.join(d, re.sub(r"[^A-Za-z0-9_.-]", "_", name) + ".json")
        with open(path, "w") as f:
            json.dump({"property": self.pid, "signature": name, "text": text, "seed": self.seed,
                       "tier": self.tier, "replay": replay}, f, indent=1, default=str)
        return path

    # ---- finish -------------------------------------------------------------------------------
    def finish(self) -> int:
        wall = time.time() - self.t0
        for (pid, sig), text in sorted(self.findings["known"].items()):
            if pid != self.pid:
                continue
            seen = self.known_seen.get(sig, 0)
            print(f"KNOWN-FINDING: property={pid} sig={sig} observed={seen} {text}")
        cov = {
            "states": int(self.states),
            "transitions": int(self.transitions),
            "traces_validated_against_impl": int(self.traces_validated),
            "evaluations": int(self.evaluations),
            "distinct_nontrivial": len(self.distinct),
            "rule": self.rule,
            "samples": self.samples or ["(none)"],
            "tlc_runs": self.tlc_runs,
            "known_findings_observed": self.known_seen,
            "repo": repo_state(),
        }
        if self.exhaustive is not None:
            cov["exhaustive"] = bool(self.exhaustive)
        cov.update(self.notes)
        ev = {
            "property_id": self.pid, "tier": self.tier, "seed": int(self.seed), "level": LEVEL,
            "coverage": cov, "assumptions": self.assumptions, "wall_s": round(wall, 2),
            "violations": len(self.violations),
        }
        with open(os.path.join(EVIDENCE_DIR, self.pid + ".json"), "w") as f:
            json.dump(ev, f, indent=1, default=str)
        for sig, path, text in self.violations[:20]:
            print(f"VIOLATION property={self.pid} replay={path}")
            print(f"  signature={sig}: {text}")
        print(f"[{self.pid}] tier={self.tier} seed={self.seed} states={self.states} transitions={self.transitions} "
              f"traces={self.traces_validated} evals={self.evaluations} violations={len(self.violations)} "
              f"known={sum(self.known_seen.values())} wall={wall:.1f}s")
        return 1 if self.violations else 0


def main_for(pid: str, run_fn):
    """Entry point used by vcheck: exit 0 / 1 / 2."""
    import argparse
    ap = argparse.ArgumentParser()
    ap.add_argument("--tier", default=os.environ.get("VERIF_TIER", "quick"))
    ap.add_argument("--seed", type=int, default=int(os.environ.get("VERIF_SEED", "0") or 0))
    ap.add_argument("--replay", default=None)
    a = ap.parse_args(sys.argv[2:])
    tier = a.tier if a.tier in ("quick", "thorough") else "quick"
    ctx = Ctx(pid, tier, a.seed)
    from lib.tlcrun import MachineryError
    try:
        run_fn(ctx)
        rc = ctx.finish()
    except MachineryError as e:
        print(f"MACHINERY-ERROR property={pid}: {e}", file=sys.stderr)
        rc = 2
    except Exception as e:  # noqa: BLE001
        if type(e).__name__ == "StopCheck" and ctx.violations:
            rc = ctx.finish()
            sys.stdout.flush()
            os._exit(rc)          # (a runaway thread of the code under test is still alive)
        traceback.print_exc()
        print(f"MACHINERY-ERROR property={pid}: unexpected exception", file=sys.stderr)
        rc = 2
    sys.exit(rc)


def _unused():
    try:
        pass
    except Exception:
        traceback.print_exc()
        print(f"MACHINERY-ERROR property={pid}: unexpected exception", file=sys.stderr)
        rc = 2
    sys.exit(rc)
