"""Batch trace validation: many recorded executions -> one TLC run of an XTrace.tla module."""
from __future__ import annotations

import json
import os
import re

from lib.tlcrun import MachineryError, require_ok, run_tlc, work_dir, SPEC_DIR


def parse_rejects(out_path):
    txt = open(out_path, errors="replace").read()
    rejected = {}
    i = txt.find('"REJECT"')
    if i >= 0:
        j = txt.find("Error:", i)
        for m in re.finditer(r"<<(\d+), (\d+)>>", txt[i:j if j > 0 else len(txt)]):
            rejected[int(m.group(1))] = int(m.group(2))
    return rejected


def validate(ctx, module: str, cfg: str, traces: list, scens: list, name: str, *, cfg_text: str | None = None,
             sig_prefix="trace", classify=None, timeout_s=1800, label=None, evs_key="evs"):
    """Validate `traces` (list of dicts with key `evs`) against spec/<module>.tla.

    classify(trace, scen, reached) -> signature or None lets a check map a rejection to a known-finding signature.
    Returns the set of rejected indices (0-based)."""
    if not traces:
        raise MachineryError(f"{name}: no traces recorded")
    wd = work_dir(name)
    path = os.path.join(wd, "batch.json")
    with open(path, "w") as f:
        json.dump(traces, f)
    cfg_path = cfg
    if cfg_text is not None:
        cfg_path = os.path.join(wd, "gen.cfg")
        with open(cfg_path, "w") as f:
            f.write(cfg_text)
    res = run_tlc(module, cfg_path, name, workers=1, timeout_s=timeout_s, coverage=False,
                  env={"TRACE_FILE": path}, dfs=True)
    ctx.add_tlc(res, label or f"trace validation of {len(traces)} real executions against {module}")
    if res.ok:
        ctx.traces_validated += len(traces)
        return set()
    if res.error_kind in ("invariant", "property"):
        ctx.traces_validated += len(traces)
        ctx.violation(f"{sig_prefix}-{res.violated}",
                      f"a recorded execution of the real code violates {res.violated} of {module}",
                      {"kind": "tlc-trace", "module": module, "trace": [(a, s[:1500]) for a, s in res.trace[-6:]]})
        return set()
    rejected = parse_rejects(res.out_path)
    if rejected and res.error_kind == "postcondition":
        ctx.traces_validated += len(traces) - len(rejected)
        for tid, reached in sorted(rejected.items()):
            tr = traces[tid - 1][evs_key]
            nxt = tr[reached - 1] if 0 <= reached - 1 < len(tr) else None
            sig = None
            if classify:
                sig = classify(traces[tid - 1], scens[tid - 1], reached)
            ctx.violation(sig or f"{sig_prefix}-rejected",
                          f"recorded execution is not a behaviour of {module}: matched {reached - 1} of {len(tr)} events; "
                          f"next event {json.dumps(nxt)[:300]}", scens[tid - 1])
        return {t - 1 for t in rejected}
    require_ok(res, f"trace validation {name}")
    raise MachineryError(f"trace validation {name} failed without verdict; see {res.out_path}")
