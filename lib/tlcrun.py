"""Run TLC / SANY and parse the output.  Standard library only.

Every TLC invocation of the framework goes through `run_tlc`, which
  * runs `tlc` under `timeout`, with its own -metadir under /verif/.work,
  * parses states/distinct/depth, the violated property, the counterexample,
    and the per-action coverage counts (for the vacuity guard),
  * never decides a verdict itself: callers look at `.violated`, `.error_kind`.
"""
from __future__ import annotations

import os
import re
import shutil
import subprocess
import time
from dataclasses import dataclass, field

VERIF = os.path.dirname(os.path.dirname(os.path.abspath(__file__)))
SPEC_DIR = os.path.join(VERIF, "spec")
WORK = os.environ.get("VERIF_WORK", os.path.join(VERIF, ".work"))


class MachineryError(Exception):
    """Something in the verification machinery itself failed (exit code 2)."""


@dataclass
class TlcResult:
    ok: bool                      # TLC finished without reporting any error
    rc: int
    generated: int = 0
    distinct: int = 0
    depth: int = 0
    violated: str | None = None   # name of violated invariant / property, "deadlock", "postcondition"
    error_kind: str | None = None # "invariant" | "property" | "deadlock" | "postcondition" | "eval" | "timeout" | "other"
    trace: list = field(default_factory=list)   # [(action_label, state_text)]
    coverage: dict = field(default_factory=dict)  # action name -> (distinct, total)
    out_path: str = ""
    wall_s: float = 0.0
    printed: list = field(default_factory=list)  # lines printed by PrintT
    cmd: str = ""

    def action_names_hit(self):
        return {a for a, (d, t) in self.coverage.items() if t > 0}


_RE_STATES = re.compile(r"(\d+) states generated, (\d+) distinct states found")
_RE_DEPTH = re.compile(r"The depth of the complete state graph search is (\d+)")
_RE_INV = re.compile(r"Error: Invariant (\S+) is violated")
_RE_PROP = re.compile(r"Error: (?:Action|Temporal) propert(?:y|ies) (\S*) ?(?:is|were) violated")
_RE_COV = re.compile(r"^<(\w+) line (\d+), col (\d+) to line \d+, col \d+ of module (\w+)>: (\d+):(\d+)")
_RE_STATE = re.compile(r"^State (\d+): <(.*)>$")


def work_dir(name: str) -> str:
    d = os.path.join(WORK, name)
    os.makedirs(d, exist_ok=True)
    return d


def run_tlc(module: str, cfg: str, name: str, *, workers: int | str = "auto", timeout_s: int = 600,
            coverage: bool = True, extra: list[str] | None = None, env: dict | None = None,
            spec_dir: str | None = None, deadlock: bool | None = None, simulate: str | None = None,
            depth: int | None = None, dfs: bool = False, java_opts: str = "") -> TlcResult:
    """Run TLC on spec/<module>.tla with config <cfg> (path relative to spec dir or absolute)."""
    spec_dir = spec_dir or SPEC_DIR
    wd = work_dir(name)
    meta = os.path.join(wd, "meta")
    shutil.rmtree(meta, ignore_errors=True)
    out_path = os.path.join(wd, "tlc.out")
    cfg_path = cfg if os.path.isabs(cfg) else os.path.join(spec_dir, cfg)
    cmd = ["timeout", str(timeout_s), "tlc", "-workers", str(workers), "-metadir", meta,
           "-noGenerateSpecTE", "-config", cfg_path]
    if coverage:
        cmd += ["-coverage", "1"]
    if deadlock is False:
        cmd += ["-deadlock"]
    if simulate:
        cmd += ["-simulate", simulate]
    if depth:
        cmd += ["-depth", str(depth)]
    if extra:
        cmd += extra
    if os.path.isabs(module):
        cmd += [module]
        java_opts = (java_opts + " -DTLA-Library=" + SPEC_DIR).strip()
    else:
        cmd += [os.path.join(spec_dir, module + ".tla")]
    e = dict(os.environ)
    if "-Xmx" not in java_opts:
        java_opts = (java_opts + " -Xmx4g").strip()     # the models are small; do not let each JVM reserve a quarter of the RAM
    jo = java_opts
    if dfs:
        jo += " -Dtlc2.tool.queue.IStateQueue=StateDeque"
    if jo:
        e["JAVA_TOOL_OPTIONS"] = (e.get("JAVA_TOOL_OPTIONS", "") + " " + jo).strip()
    if env:
        e.update(env)
    t0 = time.time()
    with open(out_path, "w") as f:
        p = subprocess.run(cmd, cwd=(os.path.dirname(module) if os.path.isabs(module) else spec_dir),
                           stdout=f, stderr=subprocess.STDOUT, env=e)
    res = parse_tlc_output(out_path)
    res.rc = p.returncode
    res.wall_s = time.time() - t0
    res.cmd = " ".join(cmd)
    if p.returncode == 124:
        res.ok = False
        res.error_kind = res.error_kind or "timeout"
    shutil.rmtree(meta, ignore_errors=True)
    return res


def parse_tlc_output(path: str) -> TlcResult:
    res = TlcResult(ok=True, rc=0, out_path=path)
    in_trace = False
    cur_label = None
    cur_lines: list[str] = []
    saw_finished = False
    with open(path, errors="replace") as f:
        for raw in f:
            line = raw.rstrip("\n")
            m = _RE_STATES.search(line)
            if m:
                res.generated, res.distinct = int(m.group(1)), int(m.group(2))
            m = _RE_DEPTH.search(line)
            if m:
                res.depth = int(m.group(1))
            if line.startswith("Finished in") or line.startswith("Finished computing"):
                saw_finished = saw_finished or line.startswith("Finished in")
            if line.startswith("Error:"):
                res.ok = False
                mi = _RE_INV.search(line)
                mp = _RE_PROP.search(line)
                if mi:
                    res.violated, res.error_kind = mi.group(1), "invariant"
                elif mp:
                    res.violated, res.error_kind = (mp.group(1) or "temporal"), "property"
                elif line.startswith("Error: Action property") and "is violated" in line:
                    # a step of the behaviour is not a step of the PROPERTY formula (e.g. a refinement PROPERTY Abs!Spec)
                    res.violated, res.error_kind = "action-property " + line[len("Error: Action property "):].split(" is violated")[0], "property"
                elif "Deadlock reached" in line:
                    res.violated, res.error_kind = "deadlock", "deadlock"
                elif "Postcondition" in line or "postcondition" in line:
                    # an invariant / property violated earlier in the same run is the verdict (TLC stops exploring there, so the
                    # postcondition of a trace batch fails as a consequence)
                    if res.error_kind not in ("invariant", "property"):
                        res.violated, res.error_kind = "postcondition", "postcondition"
                elif "The behavior up to this point" in line or "The following behavior" in line:
                    in_trace = True
                elif res.error_kind is None:
                    res.error_kind = "other" if "evaluat" not in line else "eval"
                    res.violated = res.violated or line[7:120]
                continue
            ms = _RE_STATE.match(line)
            if ms:
                if cur_label is not None:
                    res.trace.append((cur_label, "\n".join(cur_lines)))
                cur_label, cur_lines = ms.group(2), []
                in_trace = True
                continue
            if in_trace and cur_label is not None:
                if line.startswith("The coverage statistics") or _RE_STATES.search(line) or line.startswith("Back to state") \
                        or line.startswith("Error:") or line.startswith("Finished"):
                    res.trace.append((cur_label, "\n".join(cur_lines)))
                    cur_label, cur_lines, in_trace = None, [], False
                elif line.strip():
                    cur_lines.append(line)
            mc = _RE_COV.match(line)
            if mc:
                nm = mc.group(1)
                d, t = int(mc.group(5)), int(mc.group(6))
                od, ot = res.coverage.get(nm, (0, 0))
                res.coverage[nm] = (od + d, ot + t)
            if line.startswith('"') or line.startswith("<<") or line.startswith("[") or line.startswith("{"):
                if not in_trace:
                    res.printed.append(line)
    if cur_label is not None:
        res.trace.append((cur_label, "\n".join(cur_lines)))
    if not saw_finished and res.ok:
        res.ok = False
        res.error_kind = res.error_kind or "other"
        res.violated = res.violated or "TLC did not finish"
    return res


def sany(module_path: str) -> tuple[bool, str]:
    p = subprocess.run(["tla-sany", module_path], cwd=os.path.dirname(module_path),
                       stdout=subprocess.PIPE, stderr=subprocess.STDOUT, text=True)
    out = p.stdout
    bad = ("*** Errors" in out) or ("Parsing or semantic analysis failed" in out) or ("Fatal errors" in out) or p.returncode != 0
    return (not bad), out


def require_ok(res: TlcResult, what: str) -> None:
    """Machinery guard: anything that is neither a clean run nor a property verdict is exit 2."""
    if res.ok:
        return
    if res.error_kind in ("invariant", "property", "deadlock", "postcondition"):
        return
    tail = ""
    try:
        with open(res.out_path, errors="replace") as f:
            tail = "".join(f.readlines()[-25:])
    except OSError:
        pass
    raise MachineryError(f"TLC failed ({res.error_kind}: {res.violated}) while {what}; see {res.out_path}\n{tail}")


def vacuity_guard(res: TlcResult, required_actions: list[str], what: str) -> None:
    missing = [a for a in required_actions if res.coverage.get(a, (0, 0))[1] == 0]
    if missing:
        raise MachineryError(f"vacuity: actions never taken in {what}: {missing} (see {res.out_path})")
