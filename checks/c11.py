"""C11 - the update stream is always a valid operation history."""
from checks import oracles
from checks.durable_check import batch_limit_sweep, replay_execution, run_durable


def run(ctx):
    run_durable(ctx,
                model=["s01_step_wait_retry", "s02_amo_retry_caughtfail", "s03_child_wfc", "s04_cb_invoke", "s07_nested_children",
                       "s09_large_final"],
                programs=list(__import__("checks.durable_common", fromlist=["CURATED"]).CURATED),
                oracle_fns=[oracles.c11],
                n_scen=(5, 14),
                scen_kw={"crash": 0.7, "paging": 0.5, "small_batch": 0.6, "faults": 0.4},
                sweep=["s05_wfcb_childfail_wfcfail"],
                post=lambda c, ex: batch_limit_sweep(c, ["s07_nested_children", "s03_child_wfc"] if c.quick else
                                                     ["s07_nested_children", "s03_child_wfc", "s05_wfcb_childfail_wfcfail",
                                                      "s17_child_wfc_inside", "s08_large_child"],
                                                     [oracles.c11], step=4 if c.quick else 1, ops=(250,) if c.quick else (250, 2, 3)),
                extra_rule="Oracle: ModelBackend (twin of the Legal predicate) validates the concatenated stream over all invocations, "
                           "including histories cut short by crashes at every point; batch byte limits swept over every overflow position.")


    # early-completed map / parallel calls whose stragglers keep working (first and later invocations, nested two levels deep) while the
    # handler goes on to record an execution-level result: nothing may follow that record
    from checks.durable_common import run_campaign
    from checks.executor_common import CURATED_CONC
    import copy
    items = []
    for nm in ("m17_reinvoke_early_completion", "m20_reinvoke_nested_straggler", "m02_first_successful"):
        p = copy.deepcopy(CURATED_CONC[nm])
        p["nodes"] = p["nodes"][:1]              # the handler returns right after the call ...
        p["final_large"] = True                  # ... with an oversized result: EXECUTION SUCCEED is checkpointed
        for k in range(3 if ctx.quick else 10):
            items.append((p, {"seed": 1100 + k, "api_latency": (0.05, 0.3, 0.0)[k % 3], "max_inv": 12,
                              "strategy": "pct" if k % 2 else "random"}))
    # a checkpoint call that the service APPLIED but answered with an error (5xx / throttling / a lost answer), at every call index:
    # whatever the client layer does about it, nothing is sent twice
    from checks.durable_check import fault_enumeration
    fault_enumeration(ctx, ["s01_step_wait_retry", "s02_amo_retry_caughtfail", "s07_nested_children"], [oracles.c11],
                      faults=["service500", "throttle429"], seed_salt=1111)
    # oversized early-completed calls replayed in later invocations (rebuilt from the children's records): an unfinished branch
    # below the completed call must not send anything any more
    for nm in ("m21_oversized_early_straggler", "m22_oversized_early_parked", "m23_oversized_early_failing_straggler"):
        for k in range(3 if ctx.quick else 10):
            items.append((CURATED_CONC[nm], {"seed": 1150 + k, "api_latency": (0.05, 0.3, 0.0)[k % 3], "max_inv": 12,
                                             "strategy": "pct" if k % 2 else "random"}))
    for e in run_campaign(ctx, items):
        oracles.c11(ctx, e)
    # operations started by several threads on one context must get distinct ids (else: two STARTs for one operation)
    from checks.c08 import shared_context_part
    shared_context_part(ctx)


replay = replay_execution
