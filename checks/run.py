"""vcheck entry point: dispatch to checks/<cxx>.py"""
import importlib
import json
import os
import sys

sys.path.insert(0, os.path.dirname(os.path.dirname(os.path.abspath(__file__))))


def main():
    if len(sys.argv) < 2:
        print("usage: vcheck <Cxx> [--tier quick|thorough] [--seed N] | vcheck replay <path>", file=sys.stderr)
        sys.exit(2)
    what = sys.argv[1]
    if what == "replay":
        path = sys.argv[2]
        d = json.load(open(path))
        pid = d["property"]
        mod = importlib.import_module("checks." + pid.lower())
        sys.exit(mod.replay(d))
    pid = what.upper()
    from lib.common import main_for
    try:
        mod = importlib.import_module("checks." + pid.lower())
    except ModuleNotFoundError:
        print(f"MACHINERY-ERROR property={pid}: no check module", file=sys.stderr)
        sys.exit(2)
    main_for(pid, mod.run)


if __name__ == "__main__":
    main()
