"""C15 - default serialization round-trips every accepted value exactly.

Technique: explicit TLA+ specification checked with TLC + table generation binding (G).

 (1) TLC, exhaustive: spec/Codec.tla transcribes the DISPATCH STRUCTURE of ExtendedTypeSerDes / TypeCodec /
     ContainerCodec / SerDes.is_primitive / BatchResult.to_dict,from_dict over an abstract value grammar (leaves are
     kinds).  One TLC state per value of Val(D); invariants RoundTrip (with the known-defect escape KnownNonStrKey),
     NoSilentAlteration, LookAlikeSafe, RejectExact, NoDecodeError, PlainIffPrimitive, EveryNestedWrapped, KnownIsReal,
     KnownOnlyKeys (a value with coerced keys differs from its round trip by the coercion ONLY: the escape hides nothing else).
     Configs: Codec_d1_full (depth 1, every leaf kind x every key kind), Codec_d2 (depth 2), Codec_d2_rej (rejection
     paths), Codec_d3_small (depth 3, width 1); thorough adds Codec_d2_wide and Codec_d3.
     Variant: spec/variant.json "CodecFixKeys" -> constant FixKeys of every cfg (written to the run's work directory).
     TRUE = code as repaired in /repo caa84cb (a dict with any non-string key is rejected; KnownNonStrKey is FALSE for every
     value, so every invariant holds WITHOUT escape); FALSE = pinned original (keys coerced, escape active).
     Codec_probe.cfg always runs the pinned original WITHOUT the escape: the key-coercion scenario must stay reachable
     (regression probe of the model); thorough also re-checks Codec_d1_full under the other variant.
     Codec_err.cfg adds batch items whose ErrorObject has every field None (known finding batchitem-empty-error-dropped,
     reported under that signature from both the TLC side and the code side).
 (2) Binding G: every state is dumped by TLC as one JSON line [shape, path in {plain, envelope, reject}, rt, known,
     look, dec (the value the model says comes back), wire (the token tree of the text)].  Every abstract leaf is
     concretised from the boundary pools below and the REAL code is run: ExtendedTypeSerDes().serialize/deserialize
     and the module-level serialize(None, v, "op", "arn") / deserialize(None, s, "op", "arn").
     Checked per case: model path == code path (raise / no envelope at root / envelope at root); token tree of the real
     text == model wire; abstract(real decoded value) == model dec; typed exact equality of the decoded value
     (types at every level, Decimal.as_tuple(), -0.0, NaN-by-kind, utcoffset, fold) or a rejection.
     Signature non-string-dict-key: under the repaired variant it is reported only when the real code does NOT reject a
     dict with an int/bool/None/float key (a regression of the repair); under the pinned original for every coerced value.
 (3) Seeded random values of the same grammar, deeper (depth <= 3 quick / 5 thorough), leaves from the pools or random
     inside the kind; same oracle (typed-equal or rejected; rejected iff a tuple/unwritable key or unsupported leaf).

Pools (fixed; the model is exhaustive over STRUCTURE, the pools only SAMPLE leaf bit patterns):
  int      0, -1, 2**53+1, 10**30, 10**400, 1, -2**63            (10**5000 is an extra case: json refuses > 4300 digits)
  bool     True, False           none  None
  float    -0.0, 5e-324, 1e308, inf, -inf, nan, 0.1, 1.0         (NaN compared by "both are NaN")
  str      "", "v", lone surrogate "\\ud800", "\\x00", non-BMP, "plain", quote/backslash/newline,
           a high and a low surrogate as TWO code points "\\ud83d\\ude00"
  tagstr   user strings whose text is a type tag: "t", "l", "m", "br", "i", "n"
  bytes    b"", b"\\x00\\xff", b"t"
  uuid     int=0, 12345678-1234-5678-1234-567812345678, int=2**128-1
  decimal  10.500, 1E+3, -0, NaN, 40 significant digits, Infinity, sNaN12, 0E-10
  datetime naive, aware UTC, aware +02:00 with microseconds, naive microseconds, naive fold=1, datetime.min,
           aware datetime.max, aware +05:30:15
  date     date.min, date.max, 2024-02-29
  dict keys  str "1" "a" "t" "v"; int 7,-1,10**30,2**53+1,0 (1 next to "1": collision); bool; None;
           float 1.5, nan, inf, -0.0, 5e-324; tuple (1,2), (), ("a",); unwritable: bytes, Decimal, date, UUID, frozenset
  batch    BatchItem SUCCEEDED(result from the grammar) / FAILED(ErrorObject from a pool of four; all-None in
           Codec_err) / STARTED; every CompletionReason
  unsupported  set, complex, object(), frozenset
"""
from __future__ import annotations

import hashlib
import itertools
import json
import logging
import math
import os
import random
import re
import struct
import sys
import time
import uuid
from datetime import date, datetime, timedelta, timezone
from decimal import Decimal

from lib.common import REPO
from lib.tlcrun import SPEC_DIR, MachineryError, require_ok, run_tlc, work_dir

# which variant of the code the model describes: True = ContainerCodec.encode as repaired in /repo caa84cb (every
# non-string dict key is rejected), False = pinned original (int/bool/None/float keys silently coerced)
FIX_KEYS = bool(json.load(open(os.path.join(SPEC_DIR, "variant.json"))).get("CodecFixKeys", False))

sys.path.insert(0, os.path.join(REPO, "src"))

from aws_durable_execution_sdk_python import serdes as sd  # noqa: E402
from aws_durable_execution_sdk_python.concurrency.models import (  # noqa: E402
    BatchItem, BatchItemStatus, BatchResult, CompletionReason)
from aws_durable_execution_sdk_python.exceptions import ExecutionError, SerDesError  # noqa: E402
from aws_durable_execution_sdk_python.lambda_service import ErrorObject  # noqa: E402

inf, nan = math.inf, math.nan

# ------------------------------------------------------------------------------------------------ pools
POOLS = {
    "none": [None],
    "bool": [True, False],
    "int": [0, -1, 2 ** 53 + 1, 10 ** 30, 10 ** 400, 1, -2 ** 63],
    "float": [-0.0, 5e-324, 1e308, inf, -inf, nan, 0.1, 1.0],
    "str": ["", "v", "\ud800", "\x00", "\U0001f600", "plain", "q\"\\\n", "\ud83d\ude00"],
    "tagstr": ["t", "l", "m", "br", "i", "n"],
    "bytes": [b"", b"\x00\xff", b"t"],
    "uuid": [uuid.UUID(int=0), uuid.UUID("12345678-1234-5678-1234-567812345678"), uuid.UUID(int=2 ** 128 - 1)],
    "decimal": [Decimal("10.500"), Decimal("1E+3"), Decimal("-0"), Decimal("NaN"),
                Decimal("1234567890123456789012345678901234567890"), Decimal("Infinity"), Decimal("sNaN12"),
                Decimal("0E-10")],
    "datetime": [datetime(2024, 1, 2, 3, 4, 5), datetime(2024, 1, 2, 3, 4, 5, tzinfo=timezone.utc),
                 datetime(2024, 6, 30, 23, 59, 59, 123456, tzinfo=timezone(timedelta(hours=2))),
                 datetime(1999, 12, 31, 0, 0, 0, 1), datetime(2024, 11, 3, 1, 30, fold=1), datetime.min,
                 datetime.max.replace(tzinfo=timezone.utc),
                 datetime(2024, 1, 1, tzinfo=timezone(timedelta(hours=5, minutes=30, seconds=15)))],
    "date": [date.min, date.max, date(2024, 2, 29)],
    "unsupported": [{1, 2}, 1 + 2j, object(), frozenset()],
}
KEY_POOLS = {
    "#int": [7, -1, 10 ** 30, 2 ** 53 + 1, 0],
    "#bool": [True, False],
    "#none": [None],
    "#float": [1.5, nan, inf, -0.0, 5e-324],
    "#tuple": [(1, 2), (), ("a",)],
    "#bytes": [b"k", Decimal("1"), date(2020, 1, 1), uuid.UUID(int=1), frozenset()],
}
ERR_POOL = [ErrorObject("boom", "ValueError", None, None), ErrorObject("m", "T", "data", ["l1", "l2"]),
            ErrorObject("", None, None, None), ErrorObject(None, "T", None, None)]
EMPTY_ERR = ErrorObject(None, None, None, None)
STR_KEYS = ("1", "a", "t", "v")
TAG_TEXTS = {t.value for t in sd.TypeTag}
assert not (set(POOLS["str"]) & TAG_TEXTS) and set(POOLS["tagstr"]) <= TAG_TEXTS


def json_key_text(k):
    """The text json.dumps writes for a dict key."""
    return next(iter(json.loads(json.dumps({k: 0}))))


INT_TEXTS = {json_key_text(k) for k in KEY_POOLS["#int"]} | {"1"}
FLOAT_TEXTS = {json_key_text(k) for k in KEY_POOLS["#float"]}
BOOL_TEXTS = {"true", "false"}
REASONS = {r.value for r in CompletionReason}

SIG_KEYS, SIG_FOLD, SIG_EMPTYERR = "non-string-dict-key", "datetime-fold-lost", "batchitem-empty-error-dropped"
SIG_SURR = "surrogate-pair-merged"
_SURR_PAIR = re.compile("[\ud800-\udbff][\udc00-\udfff]")


def merge_surrogates(s):
    """What json.loads(json.dumps(s)) does to a high surrogate followed by a low one: one non-BMP code point."""
    if s is None:
        return None
    return _SURR_PAIR.sub(lambda m: chr(0x10000 + ((ord(m.group()[0]) - 0xD800) << 10) + (ord(m.group()[1]) - 0xDC00)), s)


# ------------------------------------------------------------------------------------------------ typed equality
def is_coercible_key(k):
    return k is None or type(k) in (bool, int, float)


def typed_repr(v) -> str:
    """Canonical text of a value including the Python type at every level (the C15 equality)."""
    if v is None:
        return "None"
    t = type(v)
    if t is bool:
        return f"bool:{v}"
    if t is int:
        return f"int:{v}" if v.bit_length() < 8000 else f"int:{v:#x}"
    if t is float:
        return f"float:{v!r}"                                   # repr distinguishes -0.0; every NaN is 'nan'
    if t is str:
        return f"str:{v!r}"
    if t is bytes:
        return f"bytes:{v!r}"
    if t is uuid.UUID:
        return f"uuid:{v}"
    if t is Decimal:
        return f"dec:{v.as_tuple()}"
    if t is datetime:
        return f"dt:{v.isoformat()}|off={v.utcoffset()!r}|fold={v.fold}"
    if t is date:
        return f"date:{v.isoformat()}"
    if t is list:
        return "list[" + ",".join(typed_repr(x) for x in v) + "]"
    if t is tuple:
        return "tuple(" + ",".join(typed_repr(x) for x in v) + ")"
    if t is dict:                                                # equal dicts: order-insensitive
        return "dict{" + ",".join(sorted(f"{typed_repr(k)}=>{typed_repr(x)}" for k, x in v.items())) + "}"
    if t is BatchResult:
        items = []
        for it in v.all:
            e = it.error
            er = "None" if e is None else (f"{type(e).__name__}({typed_repr(e.message)},{typed_repr(e.type)},"
                                           f"{typed_repr(e.data)},{typed_repr(e.stack_trace)})")
            st = it.status.value if isinstance(it.status, BatchItemStatus) else f"?{it.status!r}"
            items.append(f"({type(it).__name__},{typed_repr(it.index)},{st},{typed_repr(it.result)},{er})")
        cr = v.completion_reason.value if isinstance(v.completion_reason, CompletionReason) else f"?{v.completion_reason!r}"
        return f"BatchResult[{cr}:" + ",".join(items) + "]"
    return f"{t.__module__}.{t.__name__}:{v!r}"


def to_expr(v) -> str:
    """A Python expression that rebuilds the value (for replay files)."""
    if v is None or type(v) in (bool, str, bytes):
        return repr(v)
    t = type(v)
    if t is int:
        return repr(v) if v.bit_length() < 8000 else hex(v)
    if t is float:
        return repr(v) if math.isfinite(v) else {"nan": "nan", "inf": "inf", "-inf": "-inf"}[repr(v)]
    if t is uuid.UUID:
        return f"UUID({str(v)!r})"
    if t is Decimal:
        return f"Decimal({str(v)!r})"
    if t is datetime:
        tz = "" if v.tzinfo is None else f", tzinfo=timezone(timedelta(seconds={v.utcoffset().total_seconds()!r}))"
        return (f"datetime({v.year}, {v.month}, {v.day}, {v.hour}, {v.minute}, {v.second}, {v.microsecond}"
                f"{tz}, fold={v.fold})")
    if t is date:
        return f"date({v.year}, {v.month}, {v.day})"
    if t is list:
        return "[" + ", ".join(to_expr(x) for x in v) + "]"
    if t is tuple:
        return "(" + "".join(to_expr(x) + ", " for x in v) + ")"
    if t is dict:
        return "{" + ", ".join(f"{to_expr(k)}: {to_expr(x)}" for k, x in v.items()) + "}"
    if t is BatchResult:
        its = []
        for it in v.all:
            e = it.error
            er = "None" if e is None else f"ErrorObject({e.message!r}, {e.type!r}, {e.data!r}, {e.stack_trace!r})"
            its.append(f"BatchItem({it.index}, BatchItemStatus.{it.status.name}, {to_expr(it.result)}, {er})")
        return f"BatchResult([{', '.join(its)}], CompletionReason.{v.completion_reason.name})"
    if t is set:
        return "set(" + repr(sorted(v)) + ")"
    if t is frozenset:
        return "frozenset(" + repr(sorted(v)) + ")"
    if t is complex:
        return repr(v)
    return "object()"


EVAL_NS = {"UUID": uuid.UUID, "Decimal": Decimal, "datetime": datetime, "date": date, "timezone": timezone,
           "timedelta": timedelta, "nan": nan, "inf": inf, "BatchResult": BatchResult, "BatchItem": BatchItem,
           "BatchItemStatus": BatchItemStatus, "CompletionReason": CompletionReason, "ErrorObject": ErrorObject}


# ------------------------------------------------------------------------------------------------ value walkers
def children(v):
    t = type(v)
    if t in (list, tuple):
        return list(v)
    if t is dict:
        return list(v.values())
    if t is BatchResult:
        return [it.result for it in v.all]
    return []


def any_node(v, pred):
    return pred(v) or any(any_node(c, pred) for c in children(v))


def has_coerced_key(v):
    return any_node(v, lambda x: type(x) is dict and any(is_coercible_key(k) for k in x))


def expected_reject(v, fix=None):
    """Values the serializer is expected to refuse: unsupported leaf, tuple key, key json cannot write; with the
    repaired code (variant CodecFixKeys) every non-string key."""
    fix = FIX_KEYS if fix is None else fix

    def bad(x):
        t = type(x)
        if t is dict:
            return any(not (type(k) is str or (is_coercible_key(k) and not fix)) for k in x)
        return not (x is None or t in (bool, int, float, str, bytes, uuid.UUID, Decimal, datetime, date, list, tuple,
                                       BatchResult))
    return any_node(v, bad)


def contains_lookalike(v):
    return any_node(v, lambda x: type(x) is dict and "t" in x and "v" in x)


def rebuild(v, keys=False, fold=False, emptyerr=False, surr=False):
    """The value with the named alterations applied (to explain a difference by its cause)."""
    t = type(v)
    a = (keys, fold, emptyerr, surr)
    if t is datetime:
        return v.replace(fold=0) if fold else v
    if t is str:
        return merge_surrogates(v) if surr else v
    if t is list:
        return [rebuild(x, *a) for x in v]
    if t is tuple:
        return tuple(rebuild(x, *a) for x in v)
    if t is dict:
        out = {}
        for k, x in v.items():
            nk = json_key_text(k) if (keys and is_coercible_key(k)) else k
            if surr and type(nk) is str:
                nk = merge_surrogates(nk)
            out[nk] = rebuild(x, *a)                               # first position, last value: as json.loads
        return out
    if t is BatchResult:
        items = []
        for it in v.all:
            e = it.error
            if emptyerr and e is not None and not e.to_dict():
                e = None
            if surr and e is not None:
                e = ErrorObject(merge_surrogates(e.message), merge_surrogates(e.type), merge_surrogates(e.data),
                                None if e.stack_trace is None else [merge_surrogates(x) for x in e.stack_trace])
            items.append(BatchItem(it.index, it.status, rebuild(it.result, *a), e))
        return BatchResult(items, v.completion_reason)
    return v


def explain(orig, dec_repr):
    """Smallest set of known causes that turns orig into the decoded value; None if unexplained."""
    opts = ("keys", "fold", "emptyerr", "surr")
    sig = {"keys": SIG_KEYS, "fold": SIG_FOLD, "emptyerr": SIG_EMPTYERR, "surr": SIG_SURR}
    for n in (1, 2, 3, 4):
        for sub in itertools.combinations(opts, n):
            try:
                if typed_repr(rebuild(orig, **{o: True for o in sub})) == dec_repr:
                    return [sig[o] for o in sub]
            except Exception:  # noqa: BLE001
                continue
    return None


# ------------------------------------------------------------------------------------------------ concretise / abstract
class Concretiser:
    """Rotates through the pools: every pool value ends up in many structural positions."""

    def __init__(self, offset=0):
        self.cur = {}
        self.offset = offset

    def pick(self, kind, pool=None):
        pool = pool if pool is not None else POOLS[kind]
        i = self.cur.get(kind, self.offset)
        self.cur[kind] = i + 1
        return pool[i % len(pool)]

    def key(self, mk, d, all_keys):
        if mk in STR_KEYS:
            return mk
        if mk == "#int" and "1" in all_keys:
            return 1                                               # collides with the string key "1"
        for _ in range(12):
            k = self.pick(mk, KEY_POOLS[mk])
            try:
                if k not in d:
                    return k
            except TypeError:
                return k
        raise MachineryError(f"no free key of kind {mk}")

    def value(self, sh):
        k = sh["k"]
        if k == "str":
            return self.pick("tagstr") if sh["s"] == "l" else self.pick("str")
        if k in ("list", "tuple"):
            xs = [self.value(c) for c in sh["c"]]
            return xs if k == "list" else tuple(xs)
        if k == "dict":
            d = {}
            names = [e["key"] for e in sh["e"]]
            for e in sh["e"]:
                d[self.key(e["key"], d, names)] = self.value(e["val"])
            if len(d) != len(names):
                raise MachineryError(f"key collision while concretising {sh}")
            return d
        if k == "batch":
            items = []
            for i, it in enumerate(sh["c"]):
                err = None if it["err"] == "none" else EMPTY_ERR if it["err"] == "empty" else self.pick("err", ERR_POOL)
                items.append(BatchItem(i, BatchItemStatus(it["st"]), self.value(it["r"]), err))
            cr = CompletionReason(sh["cr"])
            if cr is CompletionReason.ALL_COMPLETED:               # the model fixes one reason; rotate the real ones
                cr = self.pick("cr", list(CompletionReason))
            return BatchResult(items, cr)
        return self.pick(k)


def abs_key(k):
    if type(k) is str:
        if k in STR_KEYS:
            return k
        if k in INT_TEXTS:
            return "1"
        if k in BOOL_TEXTS:
            return "true"
        if k == "null":
            return "null"
        if k in FLOAT_TEXTS:
            return "1.5"
        return "?" + k
    if k is None:
        return "#none"
    return {bool: "#bool", int: "#int", float: "#float", tuple: "#tuple"}.get(type(k), "#bytes")


def abstract(v):
    """Python value -> the model's shape (the JSON TLC prints for a Codec.tla value)."""
    if v is None:
        return {"k": "none"}
    t = type(v)
    if t is str:
        return {"k": "str", "s": "l" if v in TAG_TEXTS else "u"}
    simple = {bool: "bool", int: "int", float: "float", bytes: "bytes", uuid.UUID: "uuid", Decimal: "decimal",
              datetime: "datetime", date: "date"}
    if t in simple:
        return {"k": simple[t]}
    if t in (list, tuple):
        return {"k": "list" if t is list else "tuple", "c": [abstract(x) for x in v]}
    if t is dict:
        return {"k": "dict", "e": [{"key": abs_key(k), "val": abstract(x)} for k, x in v.items()]}
    if t is BatchResult:
        items = []
        for it in v.all:
            e = it.error
            # (judged on the attributes, not through the SDK's own to_dict(): the projection must not depend on the code under test)
            err = "none" if e is None else \
                ("empty" if all(getattr(e, a, None) is None for a in ("message", "type", "data", "stack_trace")) else "full") \
                if isinstance(e, ErrorObject) else "bad"
            items.append({"st": it.status.value, "r": abstract(it.result), "err": err})
        return {"k": "batch", "c": items, "cr": "ALL_COMPLETED"}     # the reason is compared by typed_repr
    return {"k": "unsupported"}


class Obj(list):
    """A JSON object as its list of (key, value) pairs (keeps duplicate keys)."""


def parse_text(s):
    return json.loads(s, object_pairs_hook=Obj)


def key_matches(mk, rk):
    if mk == "1":
        return rk in INT_TEXTS
    if mk == "true":
        return rk in BOOL_TEXTS
    if mk == "1.5":
        return rk in FLOAT_TEXTS
    return mk == rk


def wire_diff(real, m, path="$", tag_pos=False):
    """None if the token tree of the real text matches the model's wire value, else a description.
    A string is a TYPE TAG iff it is the "t" member of an envelope (tag_pos): compared exactly.  Every other string
    is user text: "u" = any text that is not a tag text, "l" = a tag text, "<..>" = a leaf codec's text (content is
    judged by the round trip), completion reasons rotate, anything else (statuses) exactly."""
    j = m["j"]
    if j == "null":
        return None if real is None else f"{path}: expected null, got {real!r}"
    if j in ("bool", "int", "float"):
        want = {"bool": bool, "int": int, "float": float}[j]
        return None if type(real) is want else f"{path}: expected {j}, got {type(real).__name__}"
    if j == "str":
        if type(real) is not str:
            return f"{path}: expected string, got {type(real).__name__}"
        ms = m["s"]
        if tag_pos:
            ok = real == ms
        elif ms == "u":
            ok = real not in TAG_TEXTS
        elif ms == "l":
            ok = real in TAG_TEXTS
        elif ms.startswith("<"):
            ok = True
        elif ms in REASONS:                                        # the concretiser rotates the completion reason
            ok = real in REASONS
        else:
            ok = real == ms
        return None if ok else f"{path}: expected {'tag' if tag_pos else 'string'} {ms!r}, got {real!r}"
    if j == "arr":
        if type(real) is not list or len(real) != len(m["c"]):
            return f"{path}: expected array of {len(m['c'])}, got {str(real)[:80]!r}"
        for i, (r, c) in enumerate(zip(real, m["c"])):
            d = wire_diff(r, c, f"{path}[{i}]")
            if d:
                return d
        return None
    if j == "obj":
        if type(real) is not Obj or len(real) != len(m["e"]):
            return f"{path}: expected object of {len(m['e'])} members, got {str(real)[:80]!r}"
        is_env = [e["key"] for e in m["e"]] == ["t", "v"] and m["e"][0]["val"]["j"] == "str"
        for (rk, rv), me in zip(real, m["e"]):
            if not key_matches(me["key"], rk):
                return f"{path}: expected key {me['key']!r}, got {rk!r}"
            if me["key"] == "error" and path.endswith(".v") and not is_env:
                # ErrorObject fields vary with the pool: compare tag and emptiness only
                mt = me["val"]["e"][0]["val"]["s"]
                rt = dict(rv).get("t") if type(rv) is Obj else None
                if mt != rt:
                    return f"{path}.error: expected tag {mt!r}, got {rt!r}"
                if mt == "m" and (len(dict(rv)["v"]) == 0) != (len(me["val"]["e"][1]["val"]["e"]) == 0):
                    return f"{path}.error: emptiness differs"
                continue
            d = wire_diff(rv, me["val"], f"{path}.{rk}", tag_pos=(is_env and me["key"] == "t"))
            if d:
                return d
        return None
    return f"{path}: model wire kind {j!r}"


# ------------------------------------------------------------------------------------------------ the oracle
SER = sd.ExtendedTypeSerDes()


class Stats:
    def __init__(self):
        self.seen = set()
        self.outcomes = {}
        self.sig_counts = {}
        self.reject_types = {}
        self.pool_hits = {}
        self.vectors = 0
        self.by_path = {}
        self.look = 0
        self.known = 0

    def bump(self, d, k, n=1):
        d[k] = d.get(k, 0) + n


def report(ctx, st, sig, text, val, s, origin, extra=None):
    st.bump(st.sig_counts, sig)
    if st.sig_counts[sig] > 5:
        return
    rep = {"kind": "codec", "origin": origin, "value_repr": typed_repr(val)[:3000], "value_expr": to_expr(val)[:20000],
           "serialized": None if s is None else s[:20000]}
    if extra:
        rep.update(extra)
    ctx.violation(sig, text, rep)


def real_roundtrip(val):
    """Run both APIs of the real code.  Returns dict(s, exc, d, dexc, problems[])."""
    out = {"s": None, "exc": None, "d": None, "dexc": None, "problems": []}
    try:
        out["s"] = SER.serialize(val)
    except Exception as e:  # noqa: BLE001
        out["exc"] = e
    try:
        s2, exc2 = sd.serialize(None, val, "op", "arn"), None
    except Exception as e:  # noqa: BLE001
        s2, exc2 = None, e
    if (out["exc"] is None) != (exc2 is None) or out["s"] != s2:
        out["problems"].append(("api-divergence", f"ExtendedTypeSerDes.serialize -> {out['s']!r}/{out['exc']!r} but "
                                                  f"serialize(None, ...) -> {s2!r}/{exc2!r}"))
    if exc2 is not None and not isinstance(exc2, ExecutionError):
        out["problems"].append(("error-not-wrapped", f"serialize(None, ...) raised {type(exc2).__name__}, not ExecutionError"))
    if out["s"] is None:
        return out
    try:
        out["d"] = SER.deserialize(out["s"])
    except Exception as e:  # noqa: BLE001
        out["dexc"] = e
    try:
        d2, dexc2 = sd.deserialize(None, out["s"], "op", "arn"), None
    except Exception as e:  # noqa: BLE001
        d2, dexc2 = None, e
    if (out["dexc"] is None) != (dexc2 is None) or (dexc2 is None and typed_repr(d2) != typed_repr(out["d"])):
        out["problems"].append(("api-divergence", f"ExtendedTypeSerDes.deserialize -> {out['d']!r}/{out['dexc']!r} but "
                                                  f"deserialize(None, ...) -> {d2!r}/{dexc2!r}"))
    if dexc2 is not None and not isinstance(dexc2, ExecutionError):
        out["problems"].append(("error-not-wrapped", f"deserialize(None, ...) raised {type(dexc2).__name__}, not ExecutionError"))
    return out


def run_case(ctx, st, val, origin, vec=None, wire=None, may_reject=False):
    """One concrete value through the real code; vec = the model's prediction for its shape (or None)."""
    tr = typed_repr(val)
    key = hashlib.md5(tr.encode("utf-8", "surrogatepass")).hexdigest()
    if key in st.seen:
        return
    st.seen.add(key)
    ctx.case(key)
    r = real_roundtrip(val)
    s = r["s"]
    for sig, text in r["problems"]:
        report(ctx, st, sig, text, val, s, origin)
    coerced = has_coerced_key(val)
    exp_rej = expected_reject(val)
    if vec is not None:                                            # cross-check the two independent classifiers
        if (vec["path"] == "reject") != exp_rej or vec["known"] != (coerced and not FIX_KEYS):
            raise MachineryError(f"oracle/model classification differs for {tr[:300]}: model path={vec['path']} "
                                 f"known={vec['known']}, python expected_reject={exp_rej} coerced={coerced}")
    # ---- rejected
    if s is None:
        e = r["exc"]
        st.bump(st.outcomes, "rejected")
        st.bump(st.reject_types, type(e).__name__)
        if not exp_rej and not may_reject:
            report(ctx, st, "model-mismatch" if vec is not None else "unexpected-rejection",
                   f"value of the supported grammar is refused by serialize ({type(e).__name__}: {str(e)[:120]}); "
                   f"model path={vec['path'] if vec else 'n/a'}; value {tr[:300]}", val, s, origin)
        return
    if exp_rej:
        if coerced and not expected_reject(val, fix=False):
            # regression of the repair caa84cb: the only reason to refuse is an int/bool/None/float key
            report(ctx, st, SIG_KEYS, f"a dict with a non-string key is NOT rejected by serialize: {tr[:300]} -> text {s[:200]}",
                   val, s, origin)
        else:
            report(ctx, st, "model-mismatch" if vec is not None else "unsupported-accepted",
                   f"value that must be refused (unsupported leaf / tuple or unwritable key) was serialized to {s[:200]}; "
                   f"value {tr[:300]}", val, s, origin)
        vec = wire = None                                          # the model has no prediction beyond "reject"
    # ---- text
    root = json.loads(s)
    has_env = isinstance(root, dict) and "t" in root and "v" in root
    if vec is not None and vec["path"] != "reject" and (vec["path"] == "envelope") != has_env:
        report(ctx, st, "model-mismatch", f"model path {vec['path']} but the text {'has' if has_env else 'has no'} envelope "
                                          f"at its root: {s[:200]}", val, s, origin)
    if has_env == sd.SerDes.is_primitive(val):
        report(ctx, st, "fastpath-boundary", f"is_primitive={not has_env} but text root envelope={has_env}: {s[:200]}", val, s, origin)
    if wire is not None and wire.get("j") != "REJECT":
        d = wire_diff(parse_text(s), wire)
        if d:
            report(ctx, st, "model-mismatch", f"token tree of the real text differs from the model's: {d}; text {s[:300]}",
                   val, s, origin, {"model_wire": wire})
    # ---- read back
    if r["dexc"] is not None:
        st.bump(st.outcomes, "undecodable")
        report(ctx, st, "own-output-undecodable", f"deserialize fails on the serializer's own output "
               f"({type(r['dexc']).__name__}: {str(r['dexc'])[:120]}): {s[:200]}; value {tr[:300]}", val, s, origin)
        return
    dec = r["d"]
    dr = typed_repr(dec)
    equal = dr == tr
    if vec is not None:
        want = vec["shape"] if vec["dec"].get("same") else vec["dec"]
        got = abstract(dec)
        if got != want:
            report(ctx, st, "model-mismatch", f"decoded value has shape {json.dumps(got)[:300]} but the model says "
                                              f"{json.dumps(want)[:300]}", val, s, origin, {"decoded_repr": dr[:3000]})
        if equal and not vec["rt"]:
            report(ctx, st, "model-mismatch", f"model predicts an altered value but the real code round-trips {tr[:300]}",
                   val, s, origin)
    if equal:
        st.bump(st.outcomes, "equal")
        return
    # ---- silently altered: name the cause
    causes = explain(val, dr)
    st.bump(st.outcomes, "altered")
    if causes is None:
        sig = "lookalike-altered" if contains_lookalike(val) else "silent-alteration"
        report(ctx, st, sig, f"accepted value comes back different: {tr[:400]}  ->  {dr[:400]}  (text {s[:200]})",
               val, s, origin, {"decoded_repr": dr[:3000]})
        return
    for sig in causes:
        why = {SIG_KEYS: "int/bool/None/float dict keys are written as JSON text and come back as str (colliding keys are lost)",
               SIG_FOLD: "datetime.fold is not part of isoformat() and comes back 0",
               SIG_EMPTYERR: "a BatchItem error whose ErrorObject has every field None serializes as {} and comes back as error=None",
               SIG_SURR: "a str holding a high surrogate directly followed by a low surrogate (two code points) is escaped as "
                         "\\uD83D\\uDE00 by json.dumps and read back by json.loads as ONE non-BMP code point"}[sig]
        report(ctx, st, sig, f"{why}: {tr[:300]}  ->  {dr[:300]}", val, s, origin, {"decoded_repr": dr[:3000]})


# ------------------------------------------------------------------------------------------------ TLC part
QUICK_CFGS = [("Codec_d1_full.cfg", 3, 120), ("Codec_d2.cfg", 1, 240), ("Codec_d2_rej.cfg", 1, 120),
              ("Codec_d3_small.cfg", 2, 120)]
THOROUGH_CFGS = [("Codec_d1_full.cfg", 8, 300), ("Codec_d2.cfg", 2, 600), ("Codec_d2_rej.cfg", 2, 300),
                 ("Codec_d3_small.cfg", 8, 300), ("Codec_d2_wide.cfg", 1, 1800), ("Codec_d3.cfg", 1, 3600)]


def cfg_constants(cfg):
    txt = open(os.path.join(SPEC_DIR, cfg)).read()

    def num(name):
        return int(re.search(rf"^\s*{name}\s*=\s*(\d+)", txt, re.M).group(1))

    def card(name):
        return len(re.findall(r'"[^"]*"', re.search(rf"^\s*{name}\s*=\s*\{{([^}}]*)\}}", txt, re.M).group(1)))
    return {"D": num("D"), "L": card("Leaves"), "K": card("Keys"), "W": num("MaxW"), "MK": num("MaxK"),
            "B": num("MaxB"), "E": card("ErrKinds")}


def expected_states(c):
    """|Val(D)| by the closed formula (guards the enumeration in Codec.tla!InitV)."""
    n = c["L"]
    for _ in range(c["D"]):
        seqs = sum(n ** m for m in range(c["W"] + 1))
        dicts = sum(math.comb(c["K"], m) * n ** m for m in range(c["MK"] + 1))
        batches = sum((n + c["E"] + 1) ** m for m in range(c["B"] + 1))
        n = c["L"] + 2 * seqs + dicts + batches
    return n


def violated_invariants(out_path):
    """[(invariant, counterexample text)] from a TLC output (initial-state violations print no 'State 1')."""
    out, cur = [], None
    with open(out_path, errors="replace") as f:
        for line in f:
            m = re.match(r"Error: Invariant (\S+) is violated", line)
            if m:
                cur = [m.group(1), []]
                out.append(cur)
                continue
            if cur is not None:
                if not line.strip() or line.startswith(('"', "Error:", "Finished", "Computed", "Progress")):
                    cur = None
                elif len(cur[1]) < 30:
                    cur[1].append(line.rstrip("\n"))
    return [(n, "\n".join(ls)) for n, ls in out]


def iter_vectors(out_path):
    with open(out_path, errors="replace") as f:
        for line in f:
            if line.startswith('"{'):
                try:
                    yield json.loads(json.loads(line))
                except ValueError:
                    continue


def variant_cfg(cfg, name, fix_keys):
    """The cfg with FixKeys set to the wanted variant, written to the run's work directory."""
    txt = open(os.path.join(SPEC_DIR, cfg)).read()
    txt, n = re.subn(r"^(\s*FixKeys\s*=\s*)(TRUE|FALSE)", lambda m: m.group(1) + ("TRUE" if fix_keys else "FALSE"), txt, flags=re.M)
    if n != 1:
        raise MachineryError(f"{cfg}: no FixKeys assignment")
    path = os.path.join(work_dir(name), cfg)
    with open(path, "w") as f:
        f.write(txt)
    return path


def run_model(ctx, cfg, timeout_s, extra=None, expect_violation=None, fix_keys=None, tag=""):
    """expect_violation: {invariant: signature under which its violation is reported} (default 'model-<invariant>')."""
    fix_keys = FIX_KEYS if fix_keys is None else fix_keys
    name = "c15-" + cfg[:-4] + tag
    res = run_tlc("Codec", variant_cfg(cfg, name, fix_keys), name, timeout_s=timeout_s, coverage=False, deadlock=False, extra=extra)
    label = f"Codec.tla {cfg} FixKeys={fix_keys}: one state per value of Val(D), all invariants"
    require_ok(res, label)
    if res.error_kind == "deadlock":
        raise MachineryError(f"{cfg}: deadlock reported although checking is off")
    consts = cfg_constants(cfg)
    complete = res.ok or bool(extra and "-continue" in extra)
    if complete and res.distinct != expected_states(consts):
        raise MachineryError(f"{cfg}: TLC enumerated {res.distinct} values, closed formula says {expected_states(consts)}")
    ctx.add_tlc(res, label, exhaustive=complete)
    viols = violated_invariants(res.out_path) if not res.ok else []
    seen = set()
    for inv, cex in viols:
        if inv in seen:
            continue
        seen.add(inv)
        n = sum(1 for i, _ in viols if i == inv)
        sig = (expect_violation or {}).get(inv, "model-" + inv)
        ctx.violation(sig, f"TLC ({cfg}, FixKeys={fix_keys}): invariant {inv} violated for {n} value(s) of the domain, first: "
                           f"{' '.join(cex.split())[:400]}",
                      {"kind": "tlc", "cfg": cfg, "FixKeys": fix_keys, "invariant": inv, "counterexample": cex})
    return res, complete


def bind(ctx, st, cfg, out_path, variants, offset0=0):
    """Binding G for one TLC dump."""
    czs = [Concretiser(offset0 + 3 * i) for i in range(variants)]
    n = 0
    for rec in iter_vectors(out_path):
        vec, wire = (rec["vec"], rec["wire"]) if "vec" in rec else (rec, None)
        n += 1
        st.vectors += 1
        st.bump(st.by_path, vec["path"])
        st.look += 1 if vec["look"] else 0
        st.known += 1 if vec["known"] else 0
        for vi, cz in enumerate(czs):
            val = cz.value(vec["shape"])
            if vi == 0 and abstract(val) != vec["shape"]:
                raise MachineryError(f"abstract(concretise(shape)) != shape for {json.dumps(vec['shape'])[:300]}")
            run_case(ctx, st, val, f"{cfg}#{n}.{vi}", vec, wire)
            if n % 997 == 1 and vi == 0:
                ctx.sample({"cfg": cfg, "shape": vec["shape"], "model": {k: vec[k] for k in ("path", "rt", "known", "look")},
                            "concrete": typed_repr(val)[:200]})
    return n


def real_code_coerces():
    try:
        return typed_repr(SER.deserialize(SER.serialize({1: "a"}))) != typed_repr({1: "a"})
    except Exception:  # noqa: BLE001
        return False


def model_part(ctx, st):
    cfgs = QUICK_CFGS if ctx.quick else THOROUGH_CFGS
    timings = {}
    for cfg, variants, to in cfgs:
        t0 = time.time()
        res, complete = run_model(ctx, cfg, to)
        t1 = time.time()
        n = bind(ctx, st, cfg, res.out_path, variants)
        if complete and n != res.distinct:
            raise MachineryError(f"{cfg}: parsed {n} vectors from the dump but TLC found {res.distinct} states ({res.out_path})")
        timings[cfg] = {"tlc_s": round(t1 - t0, 1), "bind_s": round(time.time() - t1, 1), "vectors": n}
    # batch items with an all-None ErrorObject (own config: a violation here must not stop the main runs)
    t0 = time.time()
    res, _ = run_model(ctx, "Codec_err.cfg", 120, extra=["-continue"],
                       expect_violation={"InvEmptyErrorRoundTrip": SIG_EMPTYERR})     # same signature as the code side
    n = bind(ctx, st, "Codec_err.cfg", res.out_path, 4 if ctx.quick else 12)
    if n != res.distinct:
        raise MachineryError(f"Codec_err.cfg: parsed {n} vectors, TLC found {res.distinct} states")
    timings["Codec_err.cfg"] = {"tlc_s": round(res.wall_s, 1), "bind_s": round(time.time() - t0 - res.wall_s, 1), "vectors": n}
    # model regression probe: the PINNED ORIGINAL (FixKeys = FALSE) without the escape must reach the key coercion
    pname = "c15-Codec_probe"
    res = run_tlc("Codec", variant_cfg("Codec_probe.cfg", pname, False), pname, timeout_s=120, coverage=False, deadlock=False)
    require_ok(res, "probe for the key-coercion scenario of the pinned original")
    ctx.add_tlc(res, "Codec.tla Codec_probe.cfg FixKeys=False: RoundTrip WITHOUT the known-defect escape (expected: violated)")
    reachable = (not res.ok) and res.violated == "InvRoundTripNoEscape"
    coerces = real_code_coerces()
    ctx.notes["probe"] = {"variant_CodecFixKeys": FIX_KEYS, "pinned_original_model_reaches_key_coercion": reachable,
                          "real_code_coerces_keys": coerces,
                          "counterexample": (violated_invariants(res.out_path) or [("", "")])[0][1][:300]}
    if not reachable:
        raise MachineryError("probe: Codec.tla with FixKeys=FALSE no longer reaches the non-string-key coercion scenario "
                             f"(the pinned-original transcription is broken; {res.out_path})")
    if FIX_KEYS and coerces:
        # variant says repaired, the real code still (or again) coerces: a regression of the code, reported by the
        # binding under non-string-dict-key for every such value; state it once here as well
        ctx.violation(SIG_KEYS, "variant.json says CodecFixKeys but the real serializer turns {1: 'a'} into {'1': 'a'}",
                      {"kind": "codec", "value_repr": "dict{int:1=>str:'a'}", "value_expr": "{1: 'a'}", "serialized": None})
    if not FIX_KEYS and not coerces:
        ctx.violation("model-mismatch", "variant.json pins the original (CodecFixKeys false) but the real code no longer "
                                        "coerces {1: 'a'}: the variant is stale", {"kind": "tlc", "cfg": "Codec_probe.cfg"})
    if not ctx.quick:
        # the whole pinned-original model still satisfies its invariants with the escape (no binding: the code moved on)
        run_model(ctx, "Codec_d1_full.cfg", 300, fix_keys=not FIX_KEYS, tag="-othervariant")
    # vacuity
    if not (st.by_path.get("plain") and st.by_path.get("envelope") and st.by_path.get("reject") and st.look
            and (st.known or FIX_KEYS)):
        raise MachineryError(f"vacuous enumeration: paths {st.by_path}, look-alikes {st.look}, known {st.known}")
    ctx.notes["tlc_and_binding_timings"] = timings


# ------------------------------------------------------------------------------------------------ random part
def rand_leaf(rng, kind):
    if kind == "int":
        return rng.choice([1, -1]) * rng.getrandbits(rng.choice([1, 8, 31, 53, 64, 200, 2000]))
    if kind == "float":
        return struct.unpack("<d", struct.pack("<Q", rng.getrandbits(64)))[0]
    if kind == "str":
        n = rng.randrange(0, 8)
        s = "".join(chr(rng.choice([rng.randrange(0, 0x80), rng.randrange(0x80, 0x800), rng.randrange(0xD800, 0xE000),
                                    rng.randrange(0x10000, 0x110000)])) for _ in range(n))
        return s if s not in TAG_TEXTS else s + "_"
    if kind == "bytes":
        return bytes(rng.getrandbits(8) for _ in range(rng.randrange(0, 12)))
    if kind == "uuid":
        return uuid.UUID(int=rng.getrandbits(128))
    if kind == "decimal":
        digits = tuple(rng.randrange(10) for _ in range(rng.randrange(1, 45)))
        return Decimal((rng.randrange(2), digits, rng.randrange(-400, 400)))
    if kind == "datetime":
        tz = None
        if rng.random() < 0.6:
            tz = timezone(timedelta(seconds=rng.randrange(-86399, 86400), microseconds=rng.choice([0, 0, rng.randrange(1000000)])))
        return datetime(rng.randrange(1, 10000), rng.randrange(1, 13), rng.randrange(1, 29), rng.randrange(24),
                        rng.randrange(60), rng.randrange(60), rng.choice([0, rng.randrange(1000000)]), tzinfo=tz)
    if kind == "date":
        return date(rng.randrange(1, 10000), rng.randrange(1, 13), rng.randrange(1, 29))
    return None


LEAF_KINDS = ["none", "bool", "int", "float", "str", "tagstr", "bytes", "uuid", "decimal", "datetime", "date"]


def gen_value(rng, depth, cz, mode):
    """mode: 'clean' (supported grammar), 'keys' (may hold coercible keys), 'bad' (may hold rejected things)."""
    if depth == 0 or rng.random() < 0.22:
        if mode == "bad" and rng.random() < 0.1:
            return cz.pick("unsupported")
        kind = rng.choice(LEAF_KINDS)
        if rng.random() < 0.5 and kind not in ("none", "bool", "tagstr"):
            return rand_leaf(rng, kind)
        return cz.pick(kind)
    c = rng.choice(["list", "list", "tuple", "dict", "dict", "dict", "batch"])
    n = rng.choice([0, 1, 1, 2, 2, 3, 4])
    if c in ("list", "tuple"):
        # lists of primitives keep the plain path alive at depth
        if c == "list" and rng.random() < 0.3:
            xs = [gen_prim(rng, depth - 1, cz) for _ in range(n)]
        else:
            xs = [gen_value(rng, depth - 1, cz, mode) for _ in range(n)]
        return xs if c == "list" else tuple(xs)
    if c == "dict":
        d = {}
        for _ in range(n):
            p = rng.random()
            if mode == "bad" and p < 0.15:
                k = cz.pick("#tuple", KEY_POOLS["#tuple"]) if p < 0.1 else cz.pick("#bytes", KEY_POOLS["#bytes"])
            elif mode in ("keys", "bad") and p < 0.4:
                kk = rng.choice(["#int", "#bool", "#none", "#float"])
                k = cz.pick(kk, KEY_POOLS[kk])
            else:
                k = rng.choice(["t", "v", "t", "v", "a", "1", "", "\ud800", "key", "index", "all"])
            d[k] = gen_value(rng, depth - 1, cz, mode)
        return d
    items = []
    for i in range(n):
        stt = rng.choice(list(BatchItemStatus))
        if stt is BatchItemStatus.SUCCEEDED:
            items.append(BatchItem(i, stt, gen_value(rng, depth - 1, cz, mode), None))
        elif stt is BatchItemStatus.FAILED:
            items.append(BatchItem(i, stt, None, cz.pick("err", ERR_POOL)))
        else:
            items.append(BatchItem(i, stt, None, None))
    return BatchResult(items, rng.choice(list(CompletionReason)))


def gen_prim(rng, depth, cz):
    if depth == 0 or rng.random() < 0.6:
        kind = rng.choice(["none", "bool", "int", "float", "str", "tagstr"])
        return rand_leaf(rng, kind) if (rng.random() < 0.4 and kind in ("int", "float", "str")) else cz.pick(kind)
    return [gen_prim(rng, depth - 1, cz) for _ in range(rng.choice([0, 1, 2, 3]))]


def random_part(ctx, st):
    rng = random.Random(ctx.seed)
    cz = Concretiser(ctx.seed % 7)
    n = 800 if ctx.quick else 12000
    maxd = 3 if ctx.quick else 5
    modes = {"clean": 0, "keys": 0, "bad": 0}
    for i in range(n):
        mode = rng.choice(["clean", "clean", "clean", "clean", "keys", "bad"])
        modes[mode] += 1
        val = gen_value(rng, rng.randrange(1, maxd + 1), cz, mode)
        run_case(ctx, st, val, f"random#{i}/{mode}")
        if i in (3, 11):
            ctx.sample({"random": typed_repr(val)[:300]})
    ctx.notes["random_values"] = {"n": n, "max_depth": maxd, "modes": modes}


def extras_part(ctx, st):
    """Hand-listed boundary values outside the pools' rotation (leaf-level rejections are acceptable here)."""
    for i, val in enumerate([10 ** 5000, -10 ** 4300, [10 ** 5000], {"a": (10 ** 5000,)}]):
        run_case(ctx, st, val, f"extra#{i}", may_reject=True)
    for i, val in enumerate([{"t": "l", "v": [1, 2]}, {"t": "m", "v": {"t": "i", "v": 1}}, [{"t": "n", "v": None}],
                             ({"t": "dt", "v": "2024-01-01T00:00:00Z"},), {"v": 1, "t": "s"}, {"t": "zz", "v": 1},
                             {"t": {"t": "s", "v": "x"}, "v": {"t": "i", "v": 1}},
                             BatchResult([BatchItem(0, BatchItemStatus.SUCCEEDED, {"t": "br", "v": {"all": []}}, None)],
                                         CompletionReason.ALL_COMPLETED),
                             {"all": [], "completionReason": "ALL_COMPLETED"}, [[], [[]], [[[None]]]], ((), [()], {"": {}}),
                             [True, 1, 1.0, "1"], (True, 1, 1.0, "1"), {"a": [True, 1, 1.0]}, [date(2024, 1, 1), datetime(2024, 1, 1)]]):
        run_case(ctx, st, val, f"lookalike#{i}")
    # batch results whose items are not listed in index order (user-built: failed first, a filtered subset newest-first, duplicates of
    # an index, gaps): the order of `all` is part of the value
    mk = lambda idxs: BatchResult([BatchItem(i, BatchItemStatus.SUCCEEDED, result={"i": i, "p": (i, str(i))}) for i in idxs],   # noqa: E731
                                  CompletionReason.ALL_COMPLETED)
    for i, val in enumerate([mk([2, 0, 1]), mk([7, 3]), [mk([1, 0])], {"k": (mk([5, 4, 9]), 1)}, mk([0, 0, 1]), mk([3, 1, 2, 0])]):
        run_case(ctx, st, val, f"batch-order#{i}")
    # out of the property's grammar (recorded, not judged): bytes-like values come back as bytes
    obs = {}
    for nm, val in (("bytearray", bytearray(b"x")), ("memoryview", memoryview(b"x"))):
        try:
            obs[nm] = typed_repr(SER.deserialize(SER.serialize(val)))
        except Exception as e:  # noqa: BLE001
            obs[nm] = f"raises {type(e).__name__}"
    ctx.notes["outside_grammar_observed"] = obs


# ------------------------------------------------------------------------------------------------ entry points
def interleaving_part(ctx, st):
    """The serializer is a process-wide singleton shared by all branch threads of a map / parallel: two calls that overlap in time
    must each give the result the model gives for that call alone.  The code has no synchronisation primitive at which a
    scheduler could preempt it, so the preemption is done at LINE granularity: call A is traced (sys.settrace) and stopped after its
    k-th line inside serdes.py, call B (same object, an equal object, or another value) runs to completion in a second thread, A
    resumes - for every k.  Deterministic: the schedule is (value pair, direction, k)."""
    import threading
    serdes_file = sd.__file__
    tz = timezone(timedelta(hours=2))
    shared = {"a": [1, (2, "t"), {"k": Decimal("1.50")}], "b": (datetime(2024, 5, 6, 7, 8, 9, tzinfo=tz), b"\x00\xff", uuid.UUID(int=7))}
    other = [(1, 2), {"x": [date(2020, 2, 29), None, True]}, "plain"]
    batch = BatchResult.from_items([BatchItem(0, BatchItemStatus.SUCCEEDED, result={"v": (1, 2)}),
                                    BatchItem(1, BatchItemStatus.FAILED, error=ErrorObject("m", "T", None, None))])
    pairs = [("same object", shared, shared), ("equal objects", shared, eval(to_expr(shared), dict(EVAL_NS))), ("different values", shared, other),
             ("same batch result", batch, batch)]
    serdes_obj = sd.ExtendedTypeSerDes()

    def ser(v):
        return serdes_obj.serialize(v, sd.SerDesContext("op", "arn"))

    def deser(t):
        return serdes_obj.deserialize(t, sd.SerDesContext("op", "arn"))
    n = 0
    for label, va, vb in pairs:
        ref_a, ref_b = ser(va), ser(vb)
        for direction, fa, fb, xa, xb, ra, rb in (("serialize/serialize", ser, ser, va, vb, ref_a, ref_b),
                                                  ("deserialize/deserialize", deser, deser, ref_a, ref_b, typed_repr(va), typed_repr(vb)),
                                                  ("serialize/deserialize", ser, deser, va, ref_b, ref_a, typed_repr(vb))):
            k = 0
            while True:
                k += 1
                if k > (60 if ctx.quick else 400):
                    break
                state = {"lines": 0, "stopped": False, "res_b": None, "exc_b": None}
                go_b, b_done = threading.Event(), threading.Event()

                def tracer(frame, event, arg, k=k, state=state, go_b=go_b, b_done=b_done):
                    if frame.f_code.co_filename != serdes_file:
                        return None
                    if event == "line":
                        state["lines"] += 1
                        if state["lines"] == k and not state["stopped"]:
                            state["stopped"] = True
                            go_b.set()
                            b_done.wait(10)
                    return tracer

                def run_b(state=state, go_b=go_b, b_done=b_done, fb=fb, xb=xb):
                    go_b.wait(10)
                    try:
                        state["res_b"] = fb(xb)
                    except Exception as e:  # noqa: BLE001
                        state["exc_b"] = e
                    b_done.set()
                tb = threading.Thread(target=run_b)
                tb.start()
                res_a = exc_a = None
                sys.settrace(tracer)
                try:
                    res_a = fa(xa)
                except Exception as e:  # noqa: BLE001
                    exc_a = e
                finally:
                    sys.settrace(None)
                go_b.set()
                tb.join(10)
                n += 1
                ctx.case(("interleave", label, direction, k))
                norm = lambda r: typed_repr(r) if not isinstance(r, str) or direction.startswith("deser") else r   # noqa: E731
                got_a = exc_a if exc_a is not None else (norm(res_a) if fa is deser else res_a)
                got_b = state["exc_b"] if state["exc_b"] is not None else (typed_repr(state["res_b"]) if fb is deser else state["res_b"])
                if got_a != ra or got_b != rb:
                    which = "first" if got_a != ra else "second"
                    bad = got_a if got_a != ra else got_b
                    report(ctx, st, "concurrent-call-differs",
                           f"{direction} of {label}: the {which} of two overlapping calls (second call run while the first is stopped after "
                           f"line {k} of serdes.py) gave {str(bad)[:120]!r} instead of what the call gives alone", va, ref_a,
                           f"interleave:{label}:{direction}:{k}")
                    break
                if not state["stopped"]:
                    break          # call A has fewer than k lines: every preemption point was tried
    ctx.notes["interleavings"] = n


def run(ctx):
    logging.getLogger(sd.__name__).disabled = True                # serialize()/deserialize() log every failure with a traceback
    ctx.rule = ("model: every value of Val(D) of Codec.tla (abstract grammar: 11 leaf kinds + tag-text strings; list, tuple, "
                "dict with string / coerced / tuple / unwritable keys, batch result; <= 2 children) is one TLC state; the "
                "structural dispatch (fast path vs envelope, wrapping, look-alikes, key handling, rejection) is decided "
                "EXHAUSTIVELY for the stated bounds.  code: one case = one distinct concrete Python value (distinct by its "
                "typed repr): every enumerated shape x a rotation through fixed boundary pools (each shape 1-8 times), plus "
                "seeded random deeper values; leaf bit patterns are only SAMPLED (pools + random draws inside the kind)")
    ctx.assumptions += [
        "leaves are kinds in Codec.tla: what json/repr/isoformat/base64 do to the bits of a leaf is outside the model and "
        "is covered only by the pools and random draws (sampled, not exhaustive)",
        "containers have at most 2 children in the model (list/tuple/dict/batch), depth <= 2 in the quick tier and <= 3 in "
        "the thorough tier; deeper and wider values only through the random generator (depth <= 5, width <= 4)",
        "typed equality: same Python type at every level, Decimal by as_tuple(), floats by repr (so -0.0 != 0.0, NaN == NaN), "
        "datetime by isoformat + utcoffset + fold (tzinfo objects are compared by offset, not identity), dicts unordered",
        "a rejection is any exception from ExtendedTypeSerDes.serialize (SerDesError, or TypeError/ValueError out of json) "
        "and must be an ExecutionError from the module-level serialize(); exception classes are recorded in the evidence",
        "subclasses (IntEnum, str subclasses, OrderedDict, bytearray/memoryview) are outside the property's type grammar",
    ]
    st = Stats()
    model_part(ctx, st)
    extras_part(ctx, st)
    random_part(ctx, st)
    interleaving_part(ctx, st)
    ctx.notes["vectors_bound"] = st.vectors
    ctx.notes["vectors_by_model_path"] = st.by_path
    ctx.notes["lookalike_vectors"] = st.look
    ctx.notes["known_nonstr_key_vectors"] = st.known
    ctx.notes["case_outcomes"] = st.outcomes
    ctx.notes["violation_counts_by_signature"] = st.sig_counts
    ctx.notes["class_level_rejection_exception_types"] = st.reject_types


def replay(d):
    rep = d.get("replay", {})
    print(json.dumps({k: v for k, v in d.items() if k != "replay"}, indent=1)[:3000])
    if rep.get("kind") != "codec" or not rep.get("value_expr"):
        print(json.dumps(rep, indent=1)[:6000])
        return 0
    logging.getLogger(sd.__name__).disabled = True
    print("origin     ", rep.get("origin"))
    print("value_expr ", rep["value_expr"][:2000])
    try:
        val = eval(rep["value_expr"], dict(EVAL_NS))              # noqa: S307 - expression written by this check
    except Exception as e:  # noqa: BLE001
        print("cannot rebuild the value:", type(e).__name__, e)
        return 0
    print("value      ", typed_repr(val)[:2000])
    r = real_roundtrip(val)
    if r["s"] is None:
        print("serialize   raises", type(r["exc"]).__name__, r["exc"])
        return 0
    print("serialized ", r["s"][:2000])
    if r["dexc"] is not None:
        print("deserialize raises", type(r["dexc"]).__name__, r["dexc"])
        return 0
    dr = typed_repr(r["d"])
    print("decoded    ", dr[:2000])
    print("typed-equal", dr == typed_repr(val), "| causes:", None if dr == typed_repr(val) else explain(val, dr))
    for p in r["problems"]:
        print("problem    ", p)
    return 0
