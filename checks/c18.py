"""C18 - every invocation ends with exactly one well-formed, correctly classified outcome."""
from checks import oracles
from checks.durable_check import fault_enumeration, replay_execution, run_durable


def run(ctx):
    from checks.durable_common import CURATED
    progs = list(CURATED) + ["s23_slow_caught", "s22_slow_steps"] + [
        {"nodes": [{"k": "step"}], "final_raise": True},
        # user exceptions of any shape must become a well-formed FAILED: arguments that are not strings / not JSON-encodable
        {"nodes": [{"k": "step"}], "final_raise": "int"},
        {"nodes": [{"k": "step"}, {"k": "wait"}], "final_raise": "set"},
        # ... and handlers that RETURN something json cannot encode
        {"nodes": [{"k": "step"}], "final_value": "set"},
        {"nodes": [{"k": "step"}, {"k": "wait"}], "final_value": "datetime"},
        {"nodes": [{"k": "step", "val": 4}], "final_value": "decimal"},
        {"nodes": [{"k": "wait"}, {"k": "step"}], "final_value": "tuplekey"},
        {"nodes": [{"k": "step"}], "final_value": "object"},
        # results whose size in characters, in UTF-8 bytes and in escaped ASCII differ
        {"nodes": [{"k": "step"}], "final_large": "unicode"},
        {"nodes": [{"k": "wait"}, {"k": "step"}], "final_large": "unicode"},
        {"nodes": [{"k": "step", "fail": -1, "max": 1, "errmsg": 404, "errtype": "ValueError"}]},
        {"nodes": [{"k": "child", "body": [{"k": "step", "fail": -1, "max": 1, "errmsg": "<set>"}]}]},
        {"nodes": [{"k": "step", "fail": -1, "max": 1, "errmsg": "<exc>", "errtype": "OtherError"}, {"k": "step"}]},
        {"nodes": [{"k": "step", "caught": True, "fail": -1, "max": 1}, {"k": "step", "caught": True}, {"k": "step", "caught": True}]},
        {"nodes": [{"k": "child", "caught": True, "body": [{"k": "step"}, {"k": "step"}]}, {"k": "wfc", "polls": 1, "caught": True}]},
    ]
    run_durable(ctx, model=["s01_step_wait_retry", "s09_large_final", "s10_uncaught_failure", "s02_amo_retry_caughtfail"],
                programs=progs, oracle_fns=[oracles.c18, oracles.c06],
                scen_kw={"crash": 0.2, "faults": 0.7, "pct": 0.4},
                n_scen=(6, 16),
                post=lambda c, ex: fault_enumeration(c, ["s23_slow_caught", "s24_blanket_except", "s22_slow_steps", "s02_amo_retry_caughtfail", "s09_large_final",
                                                        "s13_child_raises_caught"], [oracles.c18, oracles.c06],
                                                     latencies=(0.0, 0.05, 0.3)),
                extra_rule="Oracle: dict with Status and exactly the fields the status allows, JSON Result; a raise only for retriable "
                           "checkpoint errors / invocation errors / malformed payload; the checkpoint thread is not alive at return; "
                           "handlers that catch Exception around durable calls included (a swallowed checkpoint failure must not become SUCCEEDED).")
    # map / parallel calls in which a branch parks (callback, wait) before / after its siblings finish or fail: the invocation must
    # still end with exactly one outcome (PENDING here) - never hang
    import random
    from checks.durable_common import run_campaign
    from checks.executor_common import CURATED_CONC, conc_scenario
    rng = random.Random(ctx.seed + 18)
    items = [(CURATED_CONC[n], conc_scenario(rng, CURATED_CONC[n])) for n in
             ("m12_park_then_decide", "m13_park_then_finish", "m14_park_then_fail", "m15_timed_and_indef", "m05_callbacks", "m04_waits_retries")
             for _ in range(3 if ctx.quick else 12)]
    for e in run_campaign(ctx, items):
        oracles.c18(ctx, e)
    from checks import policy_tables
    policy_tables.wrapper_tables(ctx)


replay = replay_execution
