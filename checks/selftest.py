"""Setup self-test: shim audit, a smoke execution of the real SDK under detsched, manifest/evidence schema sanity."""
import json
import os
import sys

sys.path.insert(0, os.path.dirname(os.path.dirname(os.path.abspath(__file__))))


def main():
    from harness import install
    install.install()
    from harness.driver import Execution
    e = Execution({"nodes": [{"k": "step"}, {"k": "wait", "s": 1}, {"k": "step", "sem": "AMO"}]}, {"seed": 1}).run()
    assert e.final == "SUCCEEDED", e.describe()
    assert not e.backend.illegal, e.backend.illegal
    m = json.load(open(os.path.join(os.path.dirname(__file__), "..", "MANIFEST.json")))
    assert m["version"] == 1 and m["checks"], "manifest"
    print("selftest ok: shims installed, audit clean, smoke execution SUCCEEDED in", len(e.invocations), "invocations")


if __name__ == "__main__":
    main()
