"""C04 - at-most-once steps start their function at most once per attempt."""
from checks import oracles
from checks.durable_check import replay_execution, run_durable


def run(ctx):
    run_durable(ctx,
                model=["s02_amo_retry_caughtfail", "s06_amo_three_attempts", "s14_amo_exhaust", "s16_wait_wait", "s21_step_then_amo"],
                programs=["s02_amo_retry_caughtfail", "s06_amo_three_attempts", "s14_amo_exhaust", "s16_wait_wait", "s08_large_child",
                          "s21_step_then_amo",
                          # at-most-once steps inside map / parallel branches that are retried / re-traversed IN-PROCESS
                          {"nodes": [{"k": "par", "caught": True, "branches": [[{"k": "step", "sem": "AMO", "fail": 1, "max": 2, "delay": 1}, {"k": "step"}],
                                                                              [{"k": "step", "dur": 3.0}]]}, {"k": "step"}]},
                          {"nodes": [{"k": "map", "branches": [[{"k": "step", "sem": "AMO"}, {"k": "wait", "s": 1}, {"k": "step", "sem": "AMO"}],
                                                               [{"k": "step", "dur": 2.5}]]}, {"k": "wait"}, {"k": "step"}]}],
                oracle_fns=[oracles.c04, oracles.c12],
                gen_kw={"kinds": ["step", "step", "wait", "child"]},
                scen_kw={"crash": 0.8, "paging": 0.3},
                sweep=["s06_amo_three_attempts", "s21_step_then_amo", "s16_wait_wait"],
                extra_rule="Fault enumeration: every invocation of the AMO programs is killed at (a sample of) every scheduling step. "
                           "Oracle: per (step, attempt) at most one function entry; at entry the backend record is STARTED.")


replay = replay_execution
