"""Map/parallel: program generators, campaigns of the real executor under detsched, direct oracles (C08, C09, C10),
TLC sweeps of Executor.tla."""
from __future__ import annotations

import itertools
import json
import os
import random
import re

from checks.durable_common import run_campaign, scen_of
from checks.oracles import node_index, events, TERMINAL
from harness.interp import op_id, path_id
from lib.tlcrun import MachineryError, SPEC_DIR, require_ok, run_tlc, work_dir

VARIANT = json.load(open(os.path.join(SPEC_DIR, "variant.json")))
NONEC, NONEP = 99, 999


# ---- TLC sweeps of Executor.tla ---------------------------------------------------------------------------
def tla_seq(x):
    if isinstance(x, (list, tuple)):
        return "<<" + ", ".join(tla_seq(y) for y in x) + ">>"
    return f'"{x}"'


def exec_mc(name, scripts, maxc, mins, tolc, tolp, invs, props=(), spec="Spec", fixes=None, tfail=False, reset_first=True, lag=False,
            atomic_cb=None, pre=(), ancestor_walk=None, resubmit_under_lock=None, step_guard=None):
    fixes = fixes or (VARIANT.get("FixOrphanParent", False), VARIANT.get("FixBteBranch", False), VARIANT.get("FixEmpty", False))
    wd = work_dir(name)
    mod = f"MC_{name}"
    with open(os.path.join(wd, mod + ".tla"), "w") as f:
        f.write(f"---- MODULE {mod} ----\nEXTENDS Executor\n"
                f"CfDef == [script |-> {tla_seq(scripts)}, maxc |-> {maxc}, mins |-> {mins}, tolc |-> {tolc}, tolp |-> {tolp}, tfail |-> {'TRUE' if tfail else 'FALSE'}, lag |-> {'TRUE' if lag else 'FALSE'}, pre |-> <<{', '.join(str(x) for x in pre)}>>]\n"
                f"MCInit == cf = CfDef /\\ Init\n"
                f"MCSpec == MCInit /\\ [][NextC]_<<vars, cf>>\n"
                f"MCFairSpec == MCSpec /\\ WF_vars(MainStep)"
                + "".join(f" /\\ WF_vars(WorkerStep({k})) /\\ WF_vars(TimerStep({k}))" for k in range(1, len(scripts) + 1)) + "\n"
                f"====\n")
    cfg = [f"SPECIFICATION MC{spec}", "CONSTANTS",
           f"  FixOrphanParent = {'TRUE' if fixes[0] else 'FALSE'}", f"  FixBteBranch = {'TRUE' if fixes[1] else 'FALSE'}",
           f"  FixEmpty = {'TRUE' if fixes[2] else 'FALSE'}", f"  ResetFirst = {'TRUE' if reset_first else 'FALSE'}",
           f"  AtomicCallback = {'TRUE' if (VARIANT.get('AtomicCallback', False) if atomic_cb is None else atomic_cb) else 'FALSE'}",
           f"  FixAncestorWalk = {'TRUE' if (VARIANT.get('FixAncestorWalk', False) if ancestor_walk is None else ancestor_walk) else 'FALSE'}",
           f"  ResubmitUnderLock = {'TRUE' if (VARIANT.get('ResubmitUnderLock', True) if resubmit_under_lock is None else resubmit_under_lock) else 'FALSE'}",
           f"  FixStepGuard = {'TRUE' if (VARIANT.get('FixStepGuard', False) if step_guard is None else step_guard) else 'FALSE'}"]
    cfg += [f"INVARIANT {i}" for i in invs] + [f"PROPERTY {p}" for p in props] + ["CHECK_DEADLOCK FALSE"]
    with open(os.path.join(wd, mod + ".cfg"), "w") as f:
        f.write("\n".join(cfg) + "\n")
    return os.path.join(wd, mod + ".tla"), os.path.join(wd, mod + ".cfg")


STRICT = {"C09": ["ConcurrencyBound", "ReturnsOnlyWhenDecided", "NoSuspendWhenDecided", "ItemsFaithful", "ReasonConsistent"],
          "C10": ["NoDescendantAfterParentDone", "NoKnownOpAfterParentDone"],
          "C07": ["SuspendSound", "SuspendNotWhileResuming", "NoHang"],
          "C06": ["NoHang"]}


def executor_sweep(ctx, invs, *, tag, scripts_sets=None, configs=None, liveness=False, budget=None, tfail=False, pre=(), lag=False):
    """TLC over a family of (scripts, max_concurrency, completion config)."""
    scripts_sets = scripts_sets or [
        [["step", "ok"], ["step", "step", "ok"], ["fail"]],
        [["ok"], ["fail"], ["step", "step", "ok"]],
        [["step", "ok"], ["step", "ok"]],
        [["tsusp", "step", "ok"], ["susp"], ["step", "ok"]],
        [["step", "fail"], ["tsusp", "ok"]],
    ]
    configs = configs or [(0, 0, NONEC, NONEP), (2, 1, NONEC, NONEP), (1, 0, 0, 0), (0, 2, NONEC, NONEP), (0, 0, 1, NONEP), (0, 0, NONEC, 50),
                          (2, 0, NONEC, NONEP), (0, 1, 0, NONEP)]
    n = 0
    for si, scripts in enumerate(scripts_sets):
        for ci, (maxc, mins, tolc, tolp) in enumerate(configs):
            if budget is not None and n >= budget:
                return
            if mins > len(scripts):
                continue
            name = f"{tag}_{si}_{ci}"
            mod, cfg = exec_mc(name, scripts, maxc, mins, tolc, tolp, invs,
                               props=(["EventuallyReturns"] if liveness else []), spec="FairSpec" if liveness else "Spec", tfail=tfail, pre=pre, lag=lag)
            res = run_tlc(mod, cfg, name, timeout_s=900)
            require_ok(res, f"Executor.tla {name}")
            ctx.add_tlc(res, f"Executor.tla exhaustive: scripts={scripts} maxc={maxc or None} min={mins or None} "
                             f"tolc={None if tolc == NONEC else tolc} tolp={None if tolp == NONEP else tolp}" + (" refresh-may-fail" if tfail else "") + (" late-backend-timers" if lag else "") + (f" pre-existing-branch-contexts={list(pre)}" if pre else ""), exhaustive=True)
            if not res.ok:
                ctx.violation(f"model-{res.violated}", f"TLC: {res.violated} violated (scripts={scripts}, cfg={(maxc, mins, tolc, tolp)})",
                              {"kind": "tlc", "trace": [(a.split(' line')[0], s[:900]) for a, s in res.trace[-8:]]})
            n += 1


# ---- concurrent programs ------------------------------------------------------------------------------------
def gen_branch(rng, depth=0):
    kinds = ["step", "step", "step", "wait", "wfc", "cb"] + (["map"] if depth == 0 else [])
    body = []
    for _ in range(rng.choice([0, 1, 1, 2])):
        k = rng.choice(kinds)
        if k == "step":
            n = {"k": "step"}
            if rng.random() < 0.3:
                n["fail"] = rng.choice([1, -1])
                n["max"] = rng.choice([1, 2])
            if rng.random() < 0.3:
                n["dur"] = rng.choice([0.05, 0.3, 1.0])
            body.append(n)
        elif k == "wait":
            body.append({"k": "wait", "s": rng.choice([1, 2])})
        elif k == "wfc":
            body.append({"k": "wfc", "polls": rng.choice([1, 2])})
        elif k == "cb":
            body.append({"k": "cb", "between": []})
        elif k == "map":
            body.append(gen_mapnode(rng, depth + 1, nb=rng.choice([1, 2])))
    return body


def gen_mapnode(rng, depth=0, nb=None):
    nb = nb if nb is not None else rng.choice([0, 1, 2, 3, 3, 4])
    node = {"k": rng.choice(["map", "par"]), "branches": [gen_branch(rng, depth) for _ in range(nb)]}
    r = rng.random()
    if r < 0.25:
        node["cfg"] = {"min": rng.choice([1, 2])}
    elif r < 0.4:
        node["cfg"] = {"tolc": rng.choice([0, 1])}
    elif r < 0.5:
        node["cfg"] = {"tolp": rng.choice([0, 50])}
    elif r < 0.6:
        node["cfg"] = {"min": 1, "tolc": 1}
    elif r < 0.7:
        node["cfg"] = {}
    if rng.random() < 0.35:
        node["maxc"] = rng.choice([1, 2])
    if nb and rng.random() < 0.25:
        node["braise"] = [rng.randrange(nb)]
    node["caught"] = True
    return node


def gen_conc_program(rng):
    nodes = []
    if rng.random() < 0.4:
        nodes.append({"k": "step"})
    nodes.append(gen_mapnode(rng))
    if rng.random() < 0.6:
        nodes.append({"k": rng.choice(["step", "wait"])})
    return {"nodes": nodes}


CURATED_CONC = {
    "m01_all_ok": {"nodes": [{"k": "map", "branches": [[{"k": "step"}], [{"k": "step"}, {"k": "step"}], [{"k": "step"}]]}, {"k": "step"}]},
    "m02_first_successful": {"nodes": [{"k": "par", "cfg": {"min": 1}, "branches": [[{"k": "step", "dur": 0.3}, {"k": "step"}], [{"k": "step"}],
                                                                                    [{"k": "wait", "s": 1}, {"k": "step"}]]}, {"k": "step"}]},
    "m03_failure": {"nodes": [{"k": "map", "caught": True, "braise": [1], "branches": [[{"k": "step", "dur": 0.3}, {"k": "step"}], [], [{"k": "step"}]]}]},
    "m04_waits_retries": {"nodes": [{"k": "par", "branches": [[{"k": "wait", "s": 1}, {"k": "step"}], [{"k": "step", "fail": 1, "max": 2}], [{"k": "step"}]]},
                                    {"k": "step"}]},
    "m05_callbacks": {"nodes": [{"k": "map", "branches": [[{"k": "cb", "between": []}], [{"k": "step"}, {"k": "wfc", "polls": 2}]]}]},
    "m06_maxc1": {"nodes": [{"k": "map", "maxc": 1, "branches": [[{"k": "step"}], [{"k": "step"}], [{"k": "step"}]]}]},
    "m07_min_with_failure": {"nodes": [{"k": "par", "caught": True, "cfg": {"min": 2}, "braise": [0],
                                        "branches": [[], [{"k": "step", "dur": 0.3}, {"k": "step"}], [{"k": "step", "dur": 0.3}]]}]},
    "m08_nested": {"nodes": [{"k": "map", "cfg": {"min": 1}, "branches": [[{"k": "map", "branches": [[{"k": "step", "dur": 0.3}, {"k": "step"}], [{"k": "step"}]]}],
                                                                          [{"k": "step"}]]}, {"k": "wait"}]},
    "m09_empty": {"nodes": [{"k": "map", "caught": True, "branches": []}, {"k": "step"}]},
    "m10_empty_maxc": {"nodes": [{"k": "par", "caught": True, "maxc": 2, "branches": []}, {"k": "step"}]},
    "m12_park_then_decide": {"nodes": [{"k": "par", "cfg": {"min": 1}, "branches": [[{"k": "cb", "between": []}], [{"k": "step", "dur": 0.3}]]}, {"k": "step"}]},
    "m13_park_then_finish": {"nodes": [{"k": "par", "branches": [[{"k": "cb", "between": []}], [{"k": "step", "dur": 0.3}]]}, {"k": "step"}]},
    "m14_park_then_fail": {"nodes": [{"k": "map", "caught": True, "braise": [1], "branches": [[{"k": "wait", "s": 3600}], [{"k": "step", "dur": 0.3}]]}]},
    "m15_timed_and_indef": {"nodes": [{"k": "par", "branches": [[{"k": "wait", "s": 1}, {"k": "step"}], [{"k": "cb", "between": []}],
                                                              [{"k": "step", "fail": 1, "max": 2, "dur": 0.3}]]}]},
    # the call's own context FAILs (its BatchResult cannot be serialized) after an early completion: the straggler is orphaned
    "m16_ctx_fails_with_straggler": {"nodes": [{"k": "par", "caught": True, "bad_serdes": True, "cfg": {"min": 1},
                                                "branches": [[{"k": "step"}], [{"k": "step", "dur": 0.6}, {"k": "step"}, {"k": "step"}]]},
                                               {"k": "step", "dur": 1.5}, {"k": "step"}]},
    # re-invocation: both branch contexts already exist when the call is decided early in the second invocation
    "m17_reinvoke_early_completion": {"nodes": [{"k": "par", "cfg": {"min": 1},
                                                 "branches": [[{"k": "wait", "s": 1}, {"k": "step"}],
                                                              [{"k": "wait", "s": 1}, {"k": "step", "dur": 0.5}, {"k": "step"}, {"k": "step"}]]},
                                                {"k": "step", "dur": 1.5}, {"k": "step"}]},
    # an invoke inside a branch parks with a resume time of "now" (default timeout 0): the call must still be able to suspend
    "m18_invoke_in_branch": {"nodes": [{"k": "par", "branches": [[{"k": "invoke", "caught": True}, {"k": "step"}], [{"k": "step"}]]}, {"k": "step"}]},
    "m19_invoke_and_wait": {"nodes": [{"k": "map", "branches": [[{"k": "invoke", "caught": True}], [{"k": "wait", "s": 1}, {"k": "step"}],
                                                                 [{"k": "step", "dur": 0.4}]]}, {"k": "wait"}]},
    # re-invocation with the surviving branch working two levels below the call (inside a child context of the branch)
    "m20_reinvoke_nested_straggler": {"nodes": [{"k": "par", "cfg": {"min": 1},
                                                 "branches": [[{"k": "wait", "s": 1}, {"k": "step"}],
                                                              [{"k": "wait", "s": 1},
                                                               {"k": "child", "body": [{"k": "step", "dur": 0.5}, {"k": "step"}, {"k": "step"}]}]]},
                                                {"k": "step", "dur": 1.5}, {"k": "step"}]},
    # an oversized call (recorded as a summary, rebuilt from its children on replay) that completed early while a branch was still
    # working; the call is replayed in a later invocation: the unfinished branch stays unfinished
    "m21_oversized_early_straggler": {"nodes": [{"k": "par", "explicit_cfg": True, "large_items": [0], "cfg": {"min": 1},
                                                 "branches": [[{"k": "step"}], [{"k": "step", "dur": 0.6}, {"k": "step"}, {"k": "step"}]]},
                                                {"k": "step", "dur": 1.5}, {"k": "wait"}, {"k": "step"}]},
    "m22_oversized_early_parked": {"nodes": [{"k": "map", "explicit_cfg": True, "large_items": [1], "cfg": {"min": 1},
                                              "branches": [[{"k": "wait", "s": 30}, {"k": "step"}], [{"k": "step"}]]},
                                             {"k": "wait"}, {"k": "step"}, {"k": "wait", "s": 40}, {"k": "step"}]},
    "m23_oversized_early_failing_straggler": {"nodes": [{"k": "par", "explicit_cfg": True, "large_items": [0], "cfg": {"min": 1}, "caught": True,
                                                         "branches": [[{"k": "step"}], [{"k": "step", "dur": 0.6}, {"k": "step", "fail": -1, "max": 1}]]},
                                                        {"k": "step", "dur": 1.5}, {"k": "wait"}, {"k": "step"}]},
    "m11_tolerance": {"nodes": [{"k": "map", "caught": True, "cfg": {"tolc": 1}, "braise": [0, 2], "branches": [[], [{"k": "step", "dur": 0.3}], [], [{"k": "step"}]]}]},
}


def conc_scenario(rng, prog, gates=True):
    sc = {"seed": rng.randrange(1 << 30), "max_inv": 16}
    if rng.random() < 0.4:
        sc["strategy"] = "pct"
    if rng.random() < 0.3:
        sc["crash_prob"] = 0.4
        sc["crash_max_step"] = rng.choice([200, 600])
    sc["api_latency"] = rng.choice([0.0, 0.0, 0.05, 0.3])
    if rng.random() < 0.3:
        sc["paging"] = "random"
    r2 = random.Random(sc["seed"] ^ 0x5A17)     # derived generator: the draws of the scenarios that follow are unchanged
    if r2.random() < 0.3:
        sc["timer_lag"] = r2.choice([0.2, 0.4, 3.0, 45.0])      # the backend fires its timers late
    if r2.random() < 0.35:
        # batch limits around the size of one or two updates: updates are parked in the overflow queue and sent in later calls
        sc["batcher"] = {"bytes": r2.choice([120, 200, 260, 320, 400, 520]), "ops": r2.choice([1, 2, 3, 250, 250])}
        if sc["api_latency"] == 0.0:
            # time must pass somewhere: with batches that are full at once (no collection window) AND calls that take no time, a branch
            # that polls the backend (an invoke parked on "now", a timer the backend fires late) turns in a loop of zero virtual
            # duration, the clock never reaches the timers of its siblings and the step budget reports a hang no real clock allows
            sc["api_latency"] = 0.05
    return sc


# ---- oracles ------------------------------------------------------------------------------------------------
def cfg_of(node):
    c = node.get("cfg")
    if c is None:
        if node["k"] == "par":
            return {"min": None, "tolc": 0, "tolp": 0}        # ParallelConfig default: all_successful
        return {"min": None, "tolc": None, "tolp": None}     # MapConfig default: CompletionConfig()
    return {"min": c.get("min"), "tolc": c.get("tolc"), "tolp": c.get("tolp")}


def should_complete(cfg, n, s, f):
    mins = cfg["min"] or n
    if s + f == n or s >= mins:
        return True
    if cfg["tolc"] is None and cfg["tolp"] is None:
        return f > 0
    if cfg["tolc"] is not None and f > cfg["tolc"]:
        return True
    if cfg["tolp"] is not None and n > 0 and f * 100 > cfg["tolp"] * n:
        return True
    return False


BR = re.compile(r"BatchResult\[(\w+):(.*)\]$", re.S)


def parse_batch(rep):
    m = BR.match(rep)
    if not m:
        return None
    reason, body = m.group(1), m.group(2)
    items = []
    # items look like (idx,STATUS,<repr>,<err>) ; split on top-level "),("
    depth = 0
    cur = ""
    for ch in body:
        if ch in "([{":
            depth += 1
        if ch in ")]}":
            depth -= 1
        cur += ch
        if depth == 0 and cur:
            if cur.startswith(","):
                cur = cur[1:]
            if cur:
                items.append(cur)
            cur = ""
    out = []
    for it in items:
        mm = re.match(r"\((\d+),(\w+),(.*),(None|\(.*\))\)$", it, re.S)
        if mm:
            out.append({"index": int(mm.group(1)), "status": mm.group(2), "result": mm.group(3), "error": mm.group(4)})
    return reason, out


def is_straggler_divergence(first_rep, later_rep):
    """the replayed BatchResult differs from the first one only in items that were STARTED at first and finished later"""
    a, b = parse_batch(first_rep), parse_batch(later_rep)
    if not a or not b or len(a[1]) != len(b[1]):
        return False
    diff = [(x, y) for x, y in zip(a[1], b[1]) if (x["status"], x["result"]) != (y["status"], y["result"])]
    return bool(diff) and all(x["status"] == "STARTED" and y["status"] in ("SUCCEEDED", "FAILED") for x, y in diff)


def classify_batch_divergence(first_rep, later_rep):
    """known causes of a rebuilt (ReplayChildren) BatchResult differing from the first one, or None"""
    a, b = parse_batch(first_rep), parse_batch(later_rep)
    if not a or not b or len(a[1]) != len(b[1]):
        return None
    diff = [(x, y) for x, y in zip(a[1], b[1]) if (x["status"], x["result"], x["error"]) != (y["status"], y["result"], y["error"])]
    if not diff:
        return None
    if all(x["status"] == "STARTED" and y["status"] in ("SUCCEEDED", "FAILED") for x, y in diff):
        return "replay-children-straggler"
    if a[0] == b[0] and all(x["status"] == y["status"] == "FAILED" and x["result"] == y["result"] for x, y in diff):
        # (the statuses are unchanged, so the completion reason must be unchanged too: a different reason is another defect)
        # same failure, but the error object differs (first run: exception raised by the child handler, i.e. CallableRuntimeError;
        # rebuilt: the error recorded for the child context, i.e. the original exception type)
        return "replay-children-error-type"
    return None


def c09(ctx, e):
    nodes = node_index(e.prog)
    for path, node in nodes.items():
        if node.get("k") not in ("map", "par"):
            continue
        dl = e.rec.delivered.get(path, [])
        if not dl:
            continue
        n = len(node["branches"])
        cfg = cfg_of(node)
        first = dl[0]
        if first[1] == "error":
            if n == 0:
                ctx.violation("empty-input", f"{node['k']} over zero items raised {first[2][:80]}", scen_of(e))
            elif not node.get("bad_serdes"):
                # the call itself raised: whatever the branches did, a decided call returns a BatchResult
                ctx.violation("call-raised", f"{node['k']} at {path} raised {first[2][:120]} instead of returning a BatchResult", scen_of(e))
                return
            continue
        pb = parse_batch(first[2])
        if pb is None:
            ctx.violation("not-a-batch-result", f"{path} delivered {first[2][:80]}", scen_of(e))
            return
        reason, items = pb
        if [it["index"] for it in items] != list(range(n)):
            ctx.violation("items-not-one-per-input", f"{path}: item indices {[it['index'] for it in items]} for {n} inputs", scen_of(e))
            return
        inv0 = first[0]
        for it in items:
            bpath = f"{path}/b{it['index']}"
            outs = [o for o in e.rec.branch_out.get(bpath, []) if o[0] <= inv0]
            if it["status"] == "SUCCEEDED":
                oks = [o for o in outs if o[1] == "ok"]
                if not oks or oks[-1][2] != it["result"]:
                    # the branch may have completed in an earlier invocation and been replayed from its checkpoint
                    ctx.violation("item-result-unfaithful", f"{bpath} reported SUCCEEDED with {it['result'][:60]} but the branch returned "
                                                            f"{[o[2][:60] for o in oks][-1:]}", scen_of(e))
                    return
            if it["status"] == "FAILED":
                errs = [o for o in outs if o[1] == "err"]
                if not errs:
                    ctx.violation("item-error-unfaithful", f"{bpath} reported FAILED but the branch never raised", scen_of(e))
                    return
        s = sum(1 for it in items if it["status"] == "SUCCEEDED")
        f = sum(1 for it in items if it["status"] == "FAILED")
        st = sum(1 for it in items if it["status"] == "STARTED")
        if n > 0 and not should_complete(cfg, n, s, f):
            ctx.violation("returned-before-decided", f"{path} returned with {s} succeeded / {f} failed / {st} started of {n} under {cfg}",
                          scen_of(e))
            return
        if reason == "ALL_COMPLETED" and st > 0:
            sig = "all-completed-with-started" if (cfg["min"] and cfg["tolc"] is None and cfg["tolp"] is None and f > 0) else "reason-inconsistent"
            ctx.violation(sig, f"{path}: reason ALL_COMPLETED with {st} STARTED items ({s} ok, {f} failed, cfg {cfg})", scen_of(e))
            if sig == "reason-inconsistent":
                return
        if reason == "MIN_SUCCESSFUL_REACHED" and not (cfg["min"] and s >= cfg["min"]):
            ctx.violation("reason-inconsistent", f"{path}: MIN_SUCCESSFUL_REACHED with {s} successes, min {cfg['min']}", scen_of(e))
            return
        if reason == "FAILURE_TOLERANCE_EXCEEDED" and f == 0:
            ctx.violation("reason-inconsistent", f"{path}: FAILURE_TOLERANCE_EXCEEDED without a failure", scen_of(e))
            return
        # replayed result equals the first one
        later = {(k, r) for (_, k, r) in dl[1:]}
        if later and later != {(first[1], first[2])}:
            sig = classify_batch_divergence(first[2], sorted(later)[0][1]) or "replayed-batch-differs"
            ctx.violation(sig, f"{path}: first {first[2][:90]} ... replay {sorted(later)[0][1][:90]}", scen_of(e))
            if sig == "replayed-batch-differs":
                return
        # concurrency bound
        maxc = node.get("maxc")
        if maxc:
            for r in e.invocations:
                act, worst = set(), 0
                for ev in r.events:
                    if ev["ev"] == "BranchEnter" and ev["path"].rsplit("/b", 1)[0] == path:
                        act.add(ev["path"])
                        worst = max(worst, len(act))
                    if ev["ev"] == "BranchExit" and ev["path"].rsplit("/b", 1)[0] == path:
                        act.discard(ev["path"])
                if worst > maxc:
                    ctx.violation("concurrency-limit-exceeded", f"{path}: {worst} branches at once, limit {maxc}", scen_of(e))
                    return


def batch_items_own_outcome(ctx, e):
    """EVERY delivery of a map / parallel result (first run and every replay, summarised or not): an item reported SUCCEEDED carries
    a value that branch itself returned, an item reported FAILED or STARTED carries no result, a STARTED item no error"""
    nodes = node_index(e.prog)
    for path, node in nodes.items():
        if node.get("k") not in ("map", "par"):
            continue
        for (inv, kind, rep) in e.rec.delivered.get(path, []):
            if kind != "value":
                continue
            pb = parse_batch(rep)
            if pb is None:
                continue
            for it in pb[1]:
                bpath = f"{path}/b{it['index']}"
                oks = {o[2] for o in e.rec.branch_out.get(bpath, []) if o[1] == "ok"}
                if it["status"] == "SUCCEEDED" and it["result"] not in oks:
                    ctx.violation("item-not-own-outcome", f"invocation {inv}: {bpath} reported SUCCEEDED with {it['result'][:60]}, which that "
                                  f"branch never returned", scen_of(e))
                    return
                if it["status"] in ("FAILED", "STARTED") and it["result"] != "None":
                    ctx.violation("item-not-own-outcome", f"invocation {inv}: {bpath} reported {it['status']} but carries the result "
                                  f"{it['result'][:60]}", scen_of(e))
                    return
                if it["status"] in ("SUCCEEDED", "STARTED") and it["error"] != "None":
                    ctx.violation("item-not-own-outcome", f"invocation {inv}: {bpath} reported {it['status']} but carries the error "
                                  f"{it['error'][:60]}", scen_of(e))
                    return


def c09_returns_promptly(ctx, e, bound=2.0):
    """the call returns when its policy is decided: the (virtual) time between the completion event being set and execute() returning
    is bounded independently of how long a checkpoint call takes (the code waits at most 1 s for the timer thread)"""
    for r in e.invocations:
        t_set = {}
        for x in r.events:
            if x["ev"] == "ExStart":
                t_set.pop(x.get("e"), None)       # a nested call is executed again when its branch is resubmitted: a new decision
            elif x["ev"] == "EvSet" and x.get("e") not in t_set:
                t_set[x.get("e")] = x["t"]
            elif x["ev"] == "ExReturn" and x.get("e") in t_set:
                dt = x["t"] - t_set[x["e"]]
                if dt > bound and x["how"] in ("returned", "suspended"):
                    ctx.violation("return-delayed-after-decision",
                                  f"invocation {r.inv}: the map/parallel call {x['how']} {dt:.1f} virtual seconds after its completion event "
                                  f"was set (bound {bound} s; API latency {e.sc.get('api_latency')})", scen_of(e))
                    return


def c09_resumed_on_time(ctx, e, bound=1.0):
    """a branch parked on a timer is handed back to a worker when its timer is due (the timer thread looks at its heap every 100 ms),
    however many other timers are pending and whichever was registered first.  Programs with one executor only."""
    for r in e.invocations:
        if sum(1 for x in r.events if x["ev"] == "ExStart") != 1:
            continue
        parked = {}
        for x in r.events:
            if x["ev"] == "BodyEnd" and x.get("out") == "tsusp" and x.get("until") is not None:
                parked[x["i"]] = max(x["until"], x["t"])
            elif x["ev"] == "Resubmit" and x["i"] in parked:
                due = parked.pop(x["i"])
                if x["t"] - due > bound:
                    ctx.violation("resumed-late", f"invocation {r.inv}: branch {x['i']} was due at t={due:.2f} and handed back to a worker "
                                                  f"at t={x['t']:.2f} ({x['t'] - due:.1f} virtual seconds late, bound {bound})", scen_of(e))
                    return
            elif x["ev"] == "ExReturn":
                parked.clear()


def c09_decided_but_suspended(ctx, e):
    """the call must return when its policy is decided: an invocation must not end PENDING while the recorded branch outcomes
    already decide the completion policy of a map/parallel that has not delivered yet"""
    nodes = node_index(e.prog)
    for path, node in nodes.items():
        if node.get("k") not in ("map", "par") or "/" in path:
            continue
        n = len(node["branches"])
        if n == 0:
            continue
        cfg = cfg_of(node)
        first_delivery_inv = e.rec.delivered.get(path, [(10 ** 9,)])[0][0]
        for r in e.invocations:
            if r.outcome != "PENDING" or r.inv >= first_delivery_inv:
                continue
            s = f = 0
            started_map = any(u["id"] == path_id(path) for u in e.backend.stream if u["inv"] <= r.inv)
            if not started_map:
                continue
            for bi in range(n):
                bid = path_id(f"{path}/b{bi}")
                acts = [u["action"] for u in e.backend.stream if u["id"] == bid and u["inv"] <= r.inv]
                s += "SUCCEED" in acts
                f += "FAIL" in acts
            if should_complete(cfg, n, s, f):
                ctx.violation("suspended-although-decided",
                              f"invocation {r.inv} returned PENDING although {path} was decided ({s} succeeded, {f} failed of {n}, {cfg})",
                              scen_of(e))
                return


def ancestors(path):
    comps = path.split("/")
    return ["/".join(comps[:k]) for k in range(1, len(comps))]


def c10(ctx, e):
    """no update (and no function entry) under a context after that context's completion record"""
    st = e.backend.stream
    id2path = {}
    nodes = node_index(e.prog)
    allpaths = set(nodes)
    for p in list(allpaths):
        for a in ancestors(p):
            allpaths.add(a)
    for p in allpaths:
        try:
            id2path[path_id(p)] = p
        except ValueError:
            pass
    done_at = {}   # context id -> stream index of its SUCCEED/FAIL
    first_seen = {}
    parent_of = {}
    late = []      # (stream index, update, completed ancestor)
    for k, u in enumerate(st):
        first_seen.setdefault(u["id"], k)
        if u["parent"]:
            parent_of[u["id"]] = u["parent"]
        anc = parent_of.get(u["id"])
        while anc:
            if anc in done_at and done_at[anc] < k:
                late.append((k, u, anc))
                break
            anc = parent_of.get(anc)
        if u["type"] == "CONTEXT" and u["action"] in ("SUCCEED", "FAIL") and u["id"] not in done_at:
            done_at[u["id"]] = k
    if not late:
        return
    # The orphan check and the enqueue of create_checkpoint are not atomic (known, unrepaired): ONE update per surviving branch can
    # slip behind the parent's completion record.  More than one late update from the same branch means the branch was not stopped.
    per_branch = {}
    for k, u, anc in late:
        # the branch = the child of the completed ancestor on the path to this update
        cur = u["id"]
        while parent_of.get(cur) and parent_of[cur] != anc:
            cur = parent_of[cur]
        per_branch.setdefault((anc, cur), []).append((k, u))
    for (anc, br), lst in per_branch.items():
        k, u = lst[0]
        sig = "orphan-known-op-update" if len(lst) == 1 else "orphan-first-time-op"
        ctx.violation(sig, f"{len(lst)} update(s) under {id2path.get(anc, anc[:8])} accepted after its completion record (position "
                           f"{done_at[anc]}): first {u['action']} for {u['name']} ({u['type']}) at position {k}, invocation {u['inv']}",
                      scen_of(e))
        if sig != "orphan-known-op-update":
            return


def c10_no_function_under_completed_context(ctx, e):
    """no user function (step body, condition check) is entered under a context after that context's completion record was handed
    over - judged on the order of the real events of one invocation (queue puts and function entries)"""
    for r in e.invocations:
        done_pos = {}        # context id -> position of the (accepted) put of its SUCCEED / FAIL
        puts = {}            # operation id -> positions of its accepted puts / passed orphan checks
        checked = {}         # operation id -> positions at which an orphan check for it passed (update accepted or explicit check)
        explicit = {}        # operation id -> positions of its explicit checks (ensure_not_orphaned)
        last_body_start = {}  # thread -> position of the BodyStart that began the traversal the thread is in
        for k, x in enumerate(r.events):
            if x["ev"] == "BodyStart":
                last_body_start[x.get("th")] = k
            if x["ev"] == "OrphanCheck":
                checked.setdefault(x["id"], []).append(k)
                explicit.setdefault(x["id"], []).append(k)
            if x["ev"] == "Ckpt" and not x.get("rejected"):
                checked.setdefault(x["id"], []).append(k)
                puts.setdefault(x["id"], []).append(k)
                if x.get("typ") == "CONTEXT" and x.get("action") in ("SUCCEED", "FAIL"):
                    done_pos.setdefault(x["id"], k)
            elif x["ev"] == "FnEnter" and x.get("kind") in ("step", "poll"):
                path = x["path"]
                for a in ancestors(path):
                    try:
                        aid = path_id(a)
                    except ValueError:
                        continue
                    if aid in done_pos and done_pos[aid] < k:
                        try:
                            oid = path_id(path)
                        except ValueError:
                            oid = None
                        # the operation passed an orphan check in this invocation BEFORE the context completed: the branch was not
                        # orphaned yet when its durable operation began (the function of an operation in progress may still run)
                        # (only checks made in the CURRENT traversal of the branch count: after the BodyStart of this thread)
                        since = last_body_start.get(x.get("th"), -1)
                        # a step asks explicitly right before its function (ensure_not_orphaned): only that check counts for it - a
                        # START accepted earlier does not, the branch may have been orphaned while it waited for the START's answer
                        ev_ok = explicit.get(oid, []) if x.get("kind") == "step" else checked.get(oid, [])
                        if any(since < p < done_pos[aid] for p in ev_ok) and not any(p > done_pos[aid] for p in puts.get(oid, [])):
                            break
                        # the known check-then-put race: the operation's own START slipped behind the completion record
                        raced = any(p > done_pos[aid] for p in puts.get(oid, []))
                        ctx.violation("orphan-known-op-update" if raced else "function-under-completed-context",
                                      f"invocation {r.inv}: the user function of {path} (attempt {x.get('attempt')}) was entered after the "
                                      f"completion record of its enclosing context {a} had been handed over", scen_of(e))
                        if not raced:
                            return
                        break


def c08(ctx, e):
    """ids are a function of the structural position; parent links name the enclosing context"""
    seen = {}
    for u in e.backend.stream:
        if u["type"] == "EXECUTION":
            continue
        nm = u["name"] or ""
        exp_id = exp_parent = None
        if re.fullmatch(r"\d+(/(b?\d+))*", nm):
            exp_id = path_id(nm)
            par = nm.rsplit("/", 1)[0] if "/" in nm else None
            exp_parent = path_id(par) if par else None
        elif re.fullmatch(r"(map-item|parallel-branch)-\d+", nm):
            idx = int(nm.rsplit("-", 1)[1])
            exp_parent = u["parent"]
            exp_id = op_id(u["parent"], idx)
        elif nm.endswith(" create callback id") or nm.endswith(" submitter"):
            base = nm.rsplit(" ", 3)[0] if nm.endswith(" create callback id") else nm.rsplit(" ", 1)[0]
            if re.fullmatch(r"\d+(/(b?\d+))*", base):
                exp_parent = path_id(base)
                exp_id = op_id(exp_parent, 1 if nm.endswith(" create callback id") else 2)
        if exp_id is None:
            continue
        if u["id"] != exp_id:
            ctx.violation("id-not-structural", f"operation named {nm} recorded under id {u['id'][:10]}.., expected {exp_id[:10]}.. "
                                               f"(invocation {u['inv']})", scen_of(e))
            return
        if (u["parent"] or None) != exp_parent:
            ctx.violation("parent-link-wrong", f"operation {nm}: parent {str(u['parent'])[:10]}.., expected {str(exp_parent)[:10]}..", scen_of(e))
            return
        key = (nm, u["parent"])
        if seen.setdefault(key, u["id"]) != u["id"]:
            ctx.violation("id-unstable", f"position {nm} recorded under two ids", scen_of(e))
            return
    # the same judged from the program instead of the recorded names: every position the program can reach has a known id; every
    # update recorded under that id must carry the enclosing context's id as parent (and the position's name)
    from checks.oracles import node_index
    by_id = {}
    for pth in node_index(e.prog):
        try:
            by_id[path_id(pth)] = pth
        except Exception:  # noqa: BLE001
            continue
    for u in e.backend.stream:
        pth = by_id.get(u["id"])
        if pth is None or u["type"] == "EXECUTION":
            continue
        par = pth.rsplit("/", 1)[0] if "/" in pth else None
        exp_parent = path_id(par) if par else None
        if (u["parent"] or None) != exp_parent:
            ctx.violation("parent-link-wrong", f"{u['action']} of the operation at position {pth} ({u['type']}): parent "
                                               f"{str(u['parent'])[:14]}.., expected {str(exp_parent)[:10]}..", scen_of(e))
            return
        if (u["name"] or "") != pth and not (u["name"] or "").endswith((" submitter", " create callback id")):
            ctx.violation("name-not-carried", f"{u['action']} of the operation at position {pth} ({u['type']}) carries the name "
                                              f"{str(u['name'])[:20]!r}", scen_of(e))
            return
    ids = {}
    for u in e.backend.stream:
        if u["type"] == "EXECUTION":
            continue
        k = (u["name"], u["parent"], u["type"])
        if ids.setdefault(u["id"], k) != k:
            ctx.violation("id-collision", f"id {u['id'][:10]}.. used for {ids[u['id']]} and {k}", scen_of(e))
            return
