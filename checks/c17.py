"""C17 - the context logger is silent while replaying completed work, audible afterwards."""
from checks import oracles
from checks.durable_check import replay_execution, run_durable

L = lambda p: {"k": "log", "pt": p}   # noqa: E731

LV = lambda p, lvl: {"k": "log", "pt": p, "lvl": lvl}   # noqa: E731

PROGS = [
    # every level of the logger (debug / warning / error / exception as well as info) is replay-aware
    {"nodes": [LV("a", "exception"), {"k": "step"}, LV("b", "error"), LV("b2", "warning"), {"k": "wait"}, LV("c", "debug"), {"k": "step"},
               LV("d", "exception"), {"k": "wait"}, LV("e", "exception")]},
    {"nodes": [L("a"), {"k": "step"}, L("b"), {"k": "wait"}, L("c"), {"k": "step"}, L("d"), {"k": "wait"}, L("e")]},
    {"nodes": [L("a"), {"k": "child", "body": [L("x"), {"k": "step"}, L("y")]}, L("b"), {"k": "wait"}, L("c"), {"k": "step"}, L("d")]},
    {"nodes": [L("a"), {"k": "step", "fail": -1, "max": 1, "caught": True}, L("b"), {"k": "wait"}, L("c")]},
    {"nodes": [L("a"), {"k": "cb", "between": [L("m"), {"k": "step"}]}, L("b"), {"k": "step", "loginside": True}, L("c")]},
    {"nodes": [L("a"), {"k": "wfc", "polls": 2}, L("b"), {"k": "invoke"}, L("c")]},
    {"nodes": [L("a"), {"k": "wfcb"}, L("b"), {"k": "wait"}, L("c")]},
    {"nodes": [L("a"), {"k": "step", "loginside": True, "fail": 1, "max": 2}, L("b"), {"k": "step", "sem": "AMO"}, L("c")]},
    # a completed operation followed by a step / condition that is READY (its retry timer has fired) when the invocation resumes
    {"nodes": [L("a"), {"k": "step"}, L("b"), {"k": "step", "loginside": True, "fail": 1, "max": 2}, L("c"), {"k": "wait"}, L("d")]},
    {"nodes": [{"k": "step"}, L("a"), {"k": "wfc", "polls": 2}, L("b"), {"k": "step"}, L("c")]},
    # a callback that is still outstanding when the invocation resumes (a visited operation that is NOT complete), followed in
    # program order by completed operations
    {"nodes": [L("a"), {"k": "cb", "between": [L("m"), {"k": "step"}, L("n"), {"k": "wait"}, L("o"), {"k": "step"}, L("p")]}, L("b")]},
    {"nodes": [L("a"), {"k": "invoke", "caught": True}, L("b"), {"k": "cb", "between": [L("m"), {"k": "wait"}, L("n")]}, L("c")]},
    # a child context whose oversized result was replaced by a summary: its body is re-traversed on replay (log calls inside it
    # belong to code an earlier invocation already ran), followed by operations that are still incomplete
    {"nodes": [L("a"), {"k": "child", "large": True, "body": [L("x"), {"k": "step"}, L("y"), {"k": "step"}, L("z")]}, L("b"),
               {"k": "step", "fail": 1, "max": 2}, L("c"), {"k": "wait"}, L("d")]},
    {"nodes": [{"k": "child", "large": True, "body": [{"k": "step"}, L("x"), {"k": "child", "body": [L("u"), {"k": "step"}, L("v")]}, L("y")]},
               L("a"), {"k": "cb", "between": [L("m")]}, L("b")]},
]


def run(ctx):
    run_durable(ctx, model=[], programs=PROGS, oracle_fns=[oracles.c17],
                n_random_progs=(0, 0), n_scen=(10, 40),
                scen_kw={"crash": 0.5, "paging": 0.8, "faults": 0.0},
                model_kw={"invariants": ["C17_LoggerExact"], "properties": [], "with_paging": True},
                extra_rule="Log calls are placed between operations (and inside steps); every prefix a suspension or crash leaves behind and every "
                           "split of the history between payload and pages is sampled. Oracle: per invocation, a log call is emitted iff no "
                           "operation that was complete when the invocation began lies ahead of it; emitted records carry the execution ARN.")
    from checks.durable_common import model_check
    for p in PROGS[:3] if ctx.quick else PROGS[:5]:
        model_check(ctx, [p], invariants=["C17_LoggerExact"], properties=[], with_paging=True, tag="log", max_api_fails=0)


    oversized_call_part(ctx)


def oversized_call_part(ctx):
    """A map / parallel whose result was replaced by a summary (each branch small, no durable operation inside) is rebuilt from its
    branches on replay; once that call - the last completed operation - has been passed, log calls are emitted again."""
    from checks.durable_common import run_campaign, scen_of
    st = {"k": "step", "loginside": True}
    progs = [{"nodes": [L("a"), {"k": "map", "explicit_cfg": True, "medium_items": [0, 1, 2], "branches": [[], [], []]}, L("b"), {"k": "wait"},
                        L("c"), st, L("d")]},
             {"nodes": [{"k": "par", "explicit_cfg": True, "medium_items": [0, 1, 2], "branches": [[], [], []]}, {"k": "wait"}, L("c"),
                        {"k": "wait"}, L("d"), st]}]
    items = [(p, {"seed": 400 + k, "max_inv": 8, **({"paging": "random"} if k % 2 else {})}) for p in progs for k in range(3 if ctx.quick else 12)]
    from harness.interp import path_id
    for e in run_campaign(ctx, items):
        # position of every top-level log call = number of operations before it; operations are "1", "2", ...
        pos, nops = {}, 0
        for n in e.prog["nodes"]:
            if n["k"] == "log":
                pos[n["pt"]] = nops
            else:
                nops += 1
        ids = {path_id(str(k)): k for k in range(1, nops + 1)}
        for r in e.invocations:
            if r.inv == 1 or r.outcome == "CRASHED" or (r.split is not None and r.split[0] <= 1):
                continue
            done = {ids[o] for o, stt in getattr(r, "ops_at_start", {}).items() if o in ids and stt in ("SUCCEEDED", "FAILED")}
            evs = r.events
            for k, ev in enumerate(evs):
                if ev["ev"] != "LogCall":
                    continue
                pt = ev["pt"].split("@")[-1]
                if pt not in pos or any(d > pos[pt] for d in done):
                    continue            # (inside a step, or a completed operation still lies ahead: not judged here)
                nxt = next((x for x in evs[k + 1:] if x.get("th") == ev.get("th")), None)
                if not (nxt is not None and nxt["ev"] == "LogEmit" and nxt["pt"] == ev["pt"]):
                    ctx.violation("log-missing", f"invocation {r.inv}: log call {ev['pt']} not emitted although the last completed operation "
                                                 f"(after an oversized map / parallel rebuilt from its branches) has been passed", scen_of(e))
                    break


replay = replay_execution
