"""C12 - step retries: attempts counted exactly, bounded, and durably scheduled."""
from checks import oracles
from checks.durable_check import replay_execution, run_durable


def run(ctx):
    progs = ["s01_step_wait_retry", "s02_amo_retry_caughtfail", "s06_amo_three_attempts", "s10_uncaught_failure", "s14_amo_exhaust",
             "s18_wfcb_retry_submit",
             {"nodes": [{"k": "step", "fail": 2, "max": 3, "strategy": "pkg", "delay": 2}, {"k": "step", "fail": -1, "max": 2, "strategy": "pkg", "caught": True}]},
             {"nodes": [{"k": "step", "fail": 1, "max": 1, "caught": True}, {"k": "step", "fail": 3, "max": 3, "caught": True}]},
             # a retrying step inside a map / parallel branch while a sibling is still running: the retry happens IN-PROCESS (the
             # timer thread resubmits the branch), not through a new invocation
             {"nodes": [{"k": "par", "caught": True, "branches": [[{"k": "step", "fail": -1, "max": 3, "delay": 1}],
                                                                  [{"k": "step", "dur": 4.5}]]}, {"k": "step"}]},
             {"nodes": [{"k": "map", "branches": [[{"k": "step"}, {"k": "step", "fail": 2, "max": 3, "delay": 1}],
                                                  [{"k": "step", "dur": 3.2}, {"k": "step"}]]}, {"k": "wait"}]},
             # user strategies that ask for a zero / sub-second delay: the recorded delay must still be >= 1 s
             {"nodes": [{"k": "step", "fail": 1, "max": 2, "delay": 0}, {"k": "step", "sem": "AMO", "fail": 2, "max": 3, "delay": 0.4}]}]
    run_durable(ctx, model=["s01_step_wait_retry", "s06_amo_three_attempts", "s10_uncaught_failure", "s14_amo_exhaust"],
                programs=progs, oracle_fns=[oracles.c12],
                gen_kw={"kinds": ["step", "step", "step", "wait", "child"]},
                scen_kw={"crash": 0.5, "paging": 0.3},
                sweep=["s06_amo_three_attempts"],
                extra_rule="Oracle: the attempt numbers the strategy sees, RETRY count and delays in the backend stream, re-attempt only from "
                           "READY/STARTED, exact run count when no attempt was interrupted.")
    from checks import policy_tables
    policy_tables.retry_tables(ctx)


replay = replay_execution
