"""C13 - wait_for_condition threads its state through polls and stops when told to."""
from checks import oracles
from checks.durable_check import replay_execution, run_durable

FALSY = [
    {"nodes": [{"k": "wfc", "polls": 4, "init": 3, "states": [2, 1, 0, -1]}, {"k": "step"}]},
    {"nodes": [{"k": "wfc", "polls": 3, "init": ["a", "b"], "states": [["a"], [], ["z"]]}]},
    {"nodes": [{"k": "wfc", "polls": 3, "init": "x", "states": ["", "y", ""]}, {"k": "wait"}]},
    {"nodes": [{"k": "wfc", "polls": 3, "init": {"k": 1}, "states": [{}, None, {"k": 2}]}]},
    {"nodes": [{"k": "wfc", "polls": 3, "init": True, "states": [False, 0.0, True]}]},
    {"nodes": [{"k": "child", "body": [{"k": "wfc", "polls": 3, "init": 1, "states": [0, 0, 5]}]}, {"k": "step"}]},
]


def run(ctx):
    run_durable(ctx, model=["s03_child_wfc", "s12_wfc_three_polls", "s17_child_wfc_inside", "s05_wfcb_childfail_wfcfail"],
                programs=["s03_child_wfc", "s12_wfc_three_polls", "s17_child_wfc_inside", "s05_wfcb_childfail_wfcfail"] + FALSY,
                oracle_fns=[oracles.c13],
                gen_kw={"kinds": ["wfc", "wfc", "step", "wait", "child"]},
                scen_kw={"crash": 0.6, "paging": 0.3},
                sweep=["s12_wfc_three_polls"],
                extra_rule="Oracle: poll n+1 receives exactly what poll n returned (typed repr), incl. falsy states (0, [], '', {}, None, False); "
                           "numbering +1 per accepted RETRY, repeated after a crash; stops at the strategy's stop; delays >= 1; no poll after terminal.")
    from checks import policy_tables
    policy_tables.wait_tables(ctx)


replay = replay_execution
