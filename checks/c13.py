"""C13 - wait_for_condition threads its state through polls and stops when told to."""
from checks import oracles
from checks.durable_check import replay_execution, run_durable

FALSY = [
    {"nodes": [{"k": "wfc", "polls": 4, "init": 3, "states": [2, 1, 0, -1]}, {"k": "step"}]},
    {"nodes": [{"k": "wfc", "polls": 3, "init": ["a", "b"], "states": [["a"], [], ["z"]]}]},
    {"nodes": [{"k": "wfc", "polls": 3, "init": "x", "states": ["", "y", ""]}, {"k": "wait"}]},
    {"nodes": [{"k": "wfc", "polls": 3, "init": {"k": 1}, "states": [{}, None, {"k": 2}]}]},
    {"nodes": [{"k": "wfc", "polls": 3, "init": True, "states": [False, 0.0, True]}]},
    {"nodes": [{"k": "child", "body": [{"k": "wfc", "polls": 3, "init": 1, "states": [0, 0, 5]}]}, {"k": "step"}]},
]
# states from the default serializer's richer domain: an aware datetime with a non-zero offset, a dict with a tuple / bytes / UUID /
# date inside, a Decimal, a tuple: "exactly the state the previous poll returned" includes offset, types and nesting
RICH = [
    {"nodes": [{"k": "wfc", "polls": 4, "init": {"pool": 5}, "states": [{"pool": 5}, {"pool": 6}, {"pool": 4}, {"pool": 2}]}, {"k": "step"}]},
    {"nodes": [{"k": "child", "body": [{"k": "wfc", "polls": 3, "states": [{"pool": 6}, {"pool": 5}, {"pool": 5}]}]}, {"k": "wait"}]},
]
# check functions that update the state object they were given IN PLACE (and return it); the same programs run many times in one
# process (a warm sandbox): what a poll receives is what the previous poll of THIS execution returned
INPLACE = [
    {"nodes": [{"k": "wfc", "polls": 4, "mutate_state": True}, {"k": "step"}]},
    {"nodes": [{"k": "wfc", "polls": 3, "mutate_state": True, "init": {"n": 0, "h": []}}, {"k": "wait"}, {"k": "wfc", "polls": 3, "mutate_state": True}]},
]
# check functions that take time: the (asynchronous) START is sent, or still in flight, while the poll runs
# wait strategies that build the decision themselves (not through the factory) and ask for a zero / sub-second delay
RAW = [
    {"nodes": [{"k": "wfc", "polls": 3, "delay": 0, "raw_decision": True}, {"k": "step"}]},
    {"nodes": [{"k": "wfc", "polls": 2, "delay": 0.4, "raw_decision": True}]},
    {"nodes": [{"k": "wfc", "polls": 2, "delay": 0}, {"k": "step"}]},
]
SLOW = [
    {"nodes": [{"k": "wfc", "polls": 2, "dur": 0.3}, {"k": "step"}]},
    {"nodes": [{"k": "step"}, {"k": "wfc", "polls": 3, "dur": 1.2}]},
    {"nodes": [{"k": "child", "body": [{"k": "wfc", "polls": 2, "dur": 0.15}]}, {"k": "wait"}]},
]


def run(ctx):
    run_durable(ctx, model=["s03_child_wfc", "s12_wfc_three_polls", "s17_child_wfc_inside", "s05_wfcb_childfail_wfcfail"],
                programs=["s03_child_wfc", "s12_wfc_three_polls", "s17_child_wfc_inside", "s05_wfcb_childfail_wfcfail"] + FALSY + SLOW + RAW + RICH + INPLACE,
                oracle_fns=[oracles.c13, oracles.c03],
                gen_kw={"kinds": ["wfc", "wfc", "step", "wait", "child"]},
                scen_kw={"crash": 0.6, "paging": 0.3},
                sweep=["s12_wfc_three_polls"],
                extra_rule="Oracle: poll n+1 receives exactly what poll n returned (typed repr), incl. falsy states (0, [], '', {}, None, False); "
                           "numbering +1 per accepted RETRY, repeated after a crash; stops at the strategy's stop; delays >= 1; no poll after terminal.")
    # latency sweep: the poll ends while the START call is queued / in flight / answered
    from checks.durable_common import run_campaign
    items = [(p, {"seed": 31 + k, "api_latency": lat, "max_inv": 14, "strategy": "pct" if k % 2 else "random"})
             for p in SLOW for lat in (0.0, 0.05, 0.15, 0.3, 0.6) for k in range(2 if ctx.quick else 8)]
    for e in run_campaign(ctx, items):
        for fn in (oracles.c13, oracles.c03, oracles.c07):
            fn(ctx, e)
    # checkpoint calls that take minutes (client retries, a call queued behind another): a continue decision / the final state is
    # only acted upon once its record has been ACCEPTED, however long that takes
    from checks.durable_common import CURATED
    slow_items = []
    for prog in (CURATED["s12_wfc_three_polls"], {"nodes": [{"k": "wfc", "polls": 2}, {"k": "step"}]},
                 {"nodes": [{"k": "child", "body": [{"k": "wfc", "polls": 2, "fail_at": 2, "caught": True}]}]}):
        for lat in ((75.0,) if ctx.quick else (20.0, 75.0, 400.0)):
            for k in range(2 if ctx.quick else 4):
                slow_items.append((prog, {"seed": 71 + k, "api_latency": lat, "hang_after": 6 * lat + 100, "max_inv": 14,
                                          "strategy": "pct" if k % 2 else "random"}))
    for e in run_campaign(ctx, slow_items):
        for fn in (oracles.c13, oracles.c03, oracles.c07):
            fn(ctx, e)
    # a completed condition whose stored final state can no longer be restored: whatever the SDK does about the payload, the condition
    # is not polled again and no new record is sent for it
    wfc_then = {"nodes": [{"k": "wfc", "polls": 2, "caught": True}, {"k": "wait"}, {"k": "step"}, {"k": "wait"}]}
    bad = run_campaign(ctx, [(wfc_then, {"seed": 61 + k, "corrupt": {"1": txt}, "max_inv": 10})
                             for k, txt in enumerate(["{not json", "", "\"unterminated", "[1, 2"])])
    for e in bad:
        oracles.c13(ctx, e)
        oracles.c11(ctx, e)
    from checks import policy_tables
    policy_tables.wait_tables(ctx)


replay = replay_execution
