"""C08 - operation identity is deterministic, schedule-independent and collision-free."""
from checks import oracles
from checks.conc_check import run_conc
from checks.durable_check import replay_execution
from checks.executor_common import c08


def seq_part(ctx):
    """sequential nesting (child contexts, callbacks, wait_for_callback) as well"""
    import random
    from checks.durable_common import CURATED, gen_program, gen_scenario, run_campaign
    rng = random.Random(ctx.seed + 8)
    items = []
    for p in list(CURATED.values()) + [gen_program(rng) for _ in range(8 if ctx.quick else 80)]:
        for _ in range(2 if ctx.quick else 6):
            items.append((p, gen_scenario(rng, p, crash=0.4, paging=0.4)))
    for e in run_campaign(ctx, items):
        c08(ctx, e)


def run(ctx):
    run_conc(ctx, invs=["ConcurrencyBound"], oracle_fns=[c08], sweep_kw={"scripts_sets": [[["step", "ok"], ["step", "ok"]]]},
             post=lambda c, ex: seq_part(c),
             extra_rule="Oracle: operation names encode the structural path; the harness recomputes blake2b('<parent id>-<n>') independently "
                        "and checks Id, ParentId of every update in every invocation under schedules that permute branch start and "
                        "completion order, in-process resubmission and re-invocation; ids unique per position, stable across invocations. "
                        "(Collision-freeness of blake2b itself is assumed.)")
    from checks import c19 as lockcheck
    ctx.notes["counter_gap_free"] = "per-context counters are OrderedCounter: see C19 (OrderedLock.tla CounterGapFree)"


replay = replay_execution
