"""C08 - operation identity is deterministic, schedule-independent and collision-free."""
from checks import oracles
from checks.conc_check import run_conc
from checks.durable_check import replay_execution
from checks.executor_common import c08


def seq_part(ctx):
    """sequential nesting (child contexts, callbacks, wait_for_callback) as well"""
    import random
    from checks.durable_common import CURATED, gen_program, gen_scenario, run_campaign
    rng = random.Random(ctx.seed + 8)
    items = []
    for p in list(CURATED.values()) + [gen_program(rng) for _ in range(8 if ctx.quick else 80)]:
        for _ in range(2 if ctx.quick else 6):
            items.append((p, gen_scenario(rng, p, crash=0.4, paging=0.4)))
    for e in run_campaign(ctx, items):
        c08(ctx, e)


def shared_context_part(ctx):
    """operation ids allocated by several threads on ONE DurableContext (user threads or branches closing over an outer context;
    `_create_step_id()` is documented as thread-safe): under every preemption-bounded schedule the ids handed out are exactly
    blake2b('<parent>-1') .. blake2b('<parent>-n'), each once"""
    import json
    from harness import detsched as ds
    from harness import install
    from harness.explore import explore
    from harness.interp import op_id
    mods = install.install()
    ctxmod = mods["context"]

    def run_once(strategy, n_threads, per_thread, parent):
        dctx = ctxmod.DurableContext.__new__(ctxmod.DurableContext)
        dctx._parent_id = parent
        dctx._step_counter = mods["threading"].OrderedCounter()
        got = []

        def worker():
            for _ in range(per_thread):
                got.append(dctx._create_step_id())

        def main():
            ts = [ds.Thread(target=worker, name=f"u{k + 1}") for k in range(n_threads)]
            for t in ts:
                t.start()
            for t in ts:
                t.join()
        sched = ds.Scheduler(strategy, max_steps=20000, hang_after=5.0)
        sched.run(main, name="main")
        return {"got": got, "verdict": sched.verdict, "choices": sched.choices, "steps": sched.steps}

    n = 0
    for (nt, per, parent) in [(2, 1, None), (2, 2, "p" * 64), (3, 1, "q" * 64)]:
        want = sorted(op_id(parent, k) for k in range(1, nt * per + 1))
        for r, _st in explore(lambda s, a=(nt, per, parent): run_once(s, *a), max_preempt=2, max_runs=(150 if ctx.quick else 4000)):
            n += 1
            ctx.case(("shared-ctx", nt, per, tuple(r["choices"] or ())[:300]))
            scen = {"kind": "shared-context", "threads": nt, "per_thread": per, "choices": r["choices"]}
            if r["verdict"] in ("hang", "deadlock", "steps"):
                ctx.violation("id-allocation-wedged", f"threads allocating ids on a shared context never return ({r['verdict']})", scen)
                return
            if sorted(r["got"]) != want:
                dup = len(r["got"]) - len(set(r["got"]))
                ctx.violation("id-collision", f"{nt} threads x {per} allocations on one context: {dup} duplicate id(s), "
                              f"{len(set(r['got']) - set(want))} unexpected id(s)", scen)
                return
    ctx.notes["shared_context_schedules"] = n


def counter_line_preemption_part(ctx):
    """id allocation on real threads, preempted at LINE granularity: thread A is stopped (sys.settrace) after its k-th line inside the
    SDK's threading module while it allocates an id on a shared context; thread B - which has allocated once before - allocates
    again meanwhile (it must either wait for A or get a different value); for every k.  The values handed out must be pairwise
    distinct and gap-free.  (The scheduler shims cannot preempt inside the counter's critical section: it holds no primitive.)"""
    import sys as _sys
    import threading as _t
    from checks.policy_tables import _real_sdk
    n = 0
    with _real_sdk():
        import aws_durable_execution_sdk_python.threading as sdk_thr
        thr_file = sdk_thr.__file__
        k = 0
        while k < 80:
            k += 1
            counter = sdk_thr.OrderedCounter()
            got, state = [], {"lines": 0, "stopped": False}
            go_b, b_done, b_ready = _t.Event(), _t.Event(), _t.Event()

            def run_b(counter=counter, got=got, go_b=go_b, b_done=b_done, b_ready=b_ready):
                got.append(counter.increment())        # B's first allocation (warm-up)
                b_ready.set()
                go_b.wait(5)
                got.append(counter.increment())        # ... and its second one, while A is inside its own
                b_done.set()

            def tracer(frame, event, arg, k=k, state=state, go_b=go_b, b_done=b_done):
                if frame.f_code.co_filename != thr_file:
                    return None
                if event == "line":
                    state["lines"] += 1
                    if state["lines"] == k and not state["stopped"]:
                        state["stopped"] = True
                        go_b.set()
                        b_done.wait(0.15)              # B may rightly be blocked behind A: go on after a moment
                return tracer
            tb = _t.Thread(target=run_b)
            tb.start()
            b_ready.wait(5)
            _sys.settrace(tracer)
            try:
                got.append(counter.increment())
            finally:
                _sys.settrace(None)
            go_b.set()
            tb.join(5)
            n += 1
            ctx.case(("counter-line-preemption", k))
            if sorted(got) != [1, 2, 3]:
                ctx.violation("id-collision", f"two threads allocating on one context (the first preempted after line {k} of the SDK's "
                                              f"threading module) were handed the values {sorted(got)} instead of 1, 2, 3",
                              {"kind": "counter-line-preemption", "k": k})
                break
            if not state["stopped"]:
                break
    ctx.notes["counter_line_preemptions"] = n


def user_threads_part(ctx):
    """child contexts opened concurrently by user threads on ONE context: whichever call index each gets, everything recorded inside a
    context must name THAT context's operation as its parent, ids are pairwise distinct, and the ids handed out are exactly
    blake2b('<parent>-1..n')"""
    import random
    from checks.durable_common import run_campaign, scen_of
    from harness.interp import op_id
    rng = random.Random(ctx.seed + 88)
    st = {"k": "step"}
    progs = [{"nodes": [{"k": "uthreads", "bodies": [[st, st], [st, st]]}, st]},
             {"nodes": [st, {"k": "uthreads", "bodies": [[st], [st, st], [st]]}]},
             {"nodes": [{"k": "child", "body": [{"k": "uthreads", "bodies": [[st], [st]]}]}, st]}]
    items = [(p, {"seed": rng.randrange(1 << 30), "max_inv": 4, "api_latency": (0.0, 0.05)[k % 2], "strategy": "pct" if k % 2 else "random"})
             for p in progs for k in range(8 if ctx.quick else 60)]
    for e in run_campaign(ctx, items):
        ctx_of = {}      # name of a user-thread context -> id
        for u in e.backend.stream:
            nm = u["name"] or ""
            if u["type"] == "CONTEXT" and ".t" in nm and "/" not in nm.split(".t")[-1]:
                ctx_of[nm] = u["id"]
        seen_ids = {}
        for u in e.backend.stream:
            nm = u["name"] or ""
            if ".t" not in nm:
                continue
            k2 = (nm, u["type"])
            if seen_ids.setdefault(u["id"], k2) != k2:
                ctx.violation("id-collision", f"id {u['id'][:10]}.. used for {seen_ids[u['id']]} and {k2}", scen_of(e))
                break
            if "/" in nm.split(".t")[-1]:
                owner = nm.rsplit("/", 1)[0]
                if owner in ctx_of and u["parent"] != ctx_of[owner]:
                    other = next((n for n, i in ctx_of.items() if i == u["parent"]), str(u["parent"])[:10])
                    ctx.violation("parent-link-wrong", f"{u['action']} of {nm} (inside the context {owner}) names {other} as its parent", scen_of(e))
                    break
                if owner in ctx_of:
                    n = int(nm.rsplit("/", 1)[1])
                    if u["id"] != op_id(ctx_of[owner], n):
                        ctx.violation("id-not-structural", f"{nm}: id is not blake2b('<id of {owner}>-{n}')", scen_of(e))
                        break
        if e.final not in ("SUCCEEDED",):
            ctx.violation("user-threads-execution-failed", f"a program whose threads open child contexts on one context ended {e.final}: "
                                                           f"{[x.get('rep') for r in e.invocations for x in r.events if x['ev'] == 'UThreadError'][:2]}", scen_of(e))


def run(ctx):
    run_conc(ctx, invs=["ConcurrencyBound"], oracle_fns=[c08], sweep_kw={"scripts_sets": [[["step", "ok"], ["step", "ok"]]]},
             post=lambda c, ex: seq_part(c),
             extra_rule="Oracle: operation names encode the structural path; the harness recomputes blake2b('<parent id>-<n>') independently "
                        "and checks Id, ParentId of every update in every invocation under schedules that permute branch start and "
                        "completion order, in-process resubmission and re-invocation; ids unique per position, stable across invocations. "
                        "(Collision-freeness of blake2b itself is assumed.)")
    shared_context_part(ctx)
    counter_line_preemption_part(ctx)
    user_threads_part(ctx)
    from checks import c19 as lockcheck
    ctx.notes["counter_gap_free"] = "per-context counters are OrderedCounter: see C19 (OrderedLock.tla CounterGapFree)"


replay = replay_execution
