"""C20 - wire model codecs are lossless inverses.

 (1) TLC, exhaustive: spec/Wire.tla transcribes every to_dict / from_dict / to_json_dict / from_json_dict of
     lambda_service.py and execution.py field by field (truthiness tests included) over abstract leaf domains and
     enumerates every instance of 13 slices (presence / emptiness / enum structure).  Invariants:
     Lossless (repaired variant; Lossless \\/ Known on the pinned original), UpdateCarriesOptions, and "the named
     scenarios characterise the losses exactly"; probe configs show each named scenario reachable in the original.
 (2) Binding G: the same run in dump mode prints every abstract instance with the model's wire forms and its
     prediction (which leaves are lost by which round trip).  Every instance is concretised from fixed leaf pools,
     pushed through the REAL codecs and compared (i) with the model (wire shape token by token, lost leaves),
     (ii) with the property (flattened-leaf equality modulo ms truncation / empty optional string / all-absent object),
     using an oracle that does exact integer-microsecond arithmetic.  Besides the code's own round trips the real
     decoders are also fed by an exact reference encoder (what the backend sends), which separates encode-side from
     decode-side losses and covers the decode-only classes (StateOutput, CheckpointOutput, ...).
 (3) Seeded random instances (random presence, random leaves, random timestamps in four eras and six offsets).

Wire.tla has two variants (CONSTANT Fixed): the code as repaired and the pinned original with the five named deviations
context-details-dropped, epoch0-timestamp, ms-rounding, far-future-us-drift, chained-invoke-empty-dict.  spec/variant.json
("WireFixed") selects the variant the REAL code is compared with; with the repaired variant Lossless has no escape, and the
five signatures are reported only if the real code shows them again.  The pinned original is kept as a regression of the
model: five probe configs (Fixed = FALSE) must still be violated.  Anything else is reported under a precise signature (model-mismatch, field-dropped:<C>.<f>,
field-altered:<C>.<f>, tz-offset-altered, timestamp-altered:<C>.<f>, option-not-carried:<factory>.<opt>,
unequal-object:<C>, codec-exception:<C>.<method>).
"""
from __future__ import annotations

import datetime as D
import json
import os
import random
import re
import time
from concurrent.futures import ThreadPoolExecutor

from harness import wire_vectors as W
from lib.tlcrun import SPEC_DIR, MachineryError, require_ok, run_tlc, work_dir

# which variant of Wire.tla stands for the code as it is now (TRUE = repaired, FALSE = pinned original with K1..K5)
FIXED = bool(json.load(open(os.path.join(SPEC_DIR, "variant.json"))).get("WireFixed", False))

SIG_K1, SIG_K2, SIG_K3, SIG_K4 = "context-details-dropped", "epoch0-timestamp", "ms-rounding", "far-future-us-drift"
SIG_K5 = "chained-invoke-empty-dict"
PROBES = [("Wire_probe_ctx.cfg", "Probe_NoContextDetailsDropped", SIG_K1), ("Wire_probe_epoch0.cfg", "Probe_NoEpoch0Timestamp", SIG_K2),
          ("Wire_probe_msround.cfg", "Probe_NoMsRounding", SIG_K3), ("Wire_probe_drift.cfg", "Probe_NoFarFutureDrift", SIG_K4),
          ("Wire_probe_invdict.cfg", "Probe_NoChainedInvokeEmptyDict", SIG_K5)]
JAVA = "-Xmx3g"
CODECS = ("dict", "json", "idict", "ijson")


# ------------------------------------------------------------------------------------------------ (1) TLC
def _tlc(cfg, name, timeout_s, fixed):
    """Run Wire.tla with spec/<cfg>, its `CONSTANT Fixed` line replaced by `fixed`."""
    text = open(os.path.join(SPEC_DIR, cfg)).read()
    text, n = re.subn(r"CONSTANT Fixed = \w+", "CONSTANT Fixed = " + ("TRUE" if fixed else "FALSE"), text)
    if n != 1:
        raise MachineryError(f"{cfg}: no 'CONSTANT Fixed' line")
    path = os.path.join(work_dir(name), "gen.cfg")
    with open(path, "w") as f:
        f.write(text)
    return run_tlc("Wire", path, name, workers=1, timeout_s=timeout_s, coverage=False, java_opts=JAVA)


def tlc_part(ctx):
    var = "repaired" if FIXED else "original"
    jobs = {"dump": ("Wire_dump.cfg", "c20-dump", 900, FIXED)}
    jobs["check"] = ("Wire_all.cfg", "c20-all", 900, FIXED) if ctx.quick else ("Wire_check.cfg", "c20-check", 1800, FIXED)
    if FIXED and not ctx.quick:        # model regression: the pinned original still satisfies Lossless \/ Known exactly
        jobs["orig"] = ("Wire_all.cfg", "c20-all-original", 900, False)
    for cfg, _inv, sig in PROBES:
        jobs["probe:" + sig] = (cfg, "c20-" + cfg[5:-4], 300, False)
    with ThreadPoolExecutor(max_workers=8) as ex:
        futs = {k: ex.submit(_tlc, *v) for k, v in jobs.items()}
        res = {k: f.result() for k, f in futs.items()}
    chk = res["check"]
    require_ok(chk, "checking Wire.tla")
    ctx.add_tlc(chk, f"Wire.tla ({var} variant) exhaustive: every abstract instance of 13 slices; Lossless"
                + ("" if FIXED else " \\/ Known") + ", UpdateCarriesOptions, KnownExact", exhaustive=True)
    if not chk.ok and ctx.quick:       # name the violated property
        chk = _tlc("Wire_check.cfg", "c20-check", 1800, FIXED)
        require_ok(chk, "checking Wire.tla (named invariants)")
    if not chk.ok:
        ctx.violation("model-" + str(chk.violated), f"TLC: {chk.violated} violated in Wire.tla ({var} variant): an abstract instance loses a "
                      f"leaf" + ("" if FIXED else " that no named scenario explains"), {"kind": "tlc", "trace": chk.trace[-2:]})
    if "orig" in res:
        r = res["orig"]
        require_ok(r, "checking Wire.tla (pinned original)")
        ctx.add_tlc(r, "Wire.tla (pinned original variant): Lossless \\/ Known, KnownExact - model regression")
        if not r.ok:
            raise MachineryError(f"pinned original variant of Wire.tla violates {r.violated}: Known(x) is stale; see {r.out_path}")
    for cfg, inv, sig in PROBES:
        r = res["probe:" + sig]
        require_ok(r, "probe " + cfg)
        ctx.add_tlc(r, f"probe {inv} on the pinned original (must be violated: scenario {sig} reachable)")
        if r.ok or r.violated != inv:
            raise MachineryError(f"probe {cfg}: expected {inv} to be violated (scenario {sig}); got ok={r.ok} violated={r.violated}. "
                                 f"The pinned-original variant of Wire.tla no longer shows the deviation.")
    dump = res["dump"]
    require_ok(dump, "dumping Wire.tla")
    if not dump.ok:
        raise MachineryError(f"dump run failed: {dump.violated}; see {dump.out_path}")
    ctx.add_tlc(dump, f"Wire.tla ({var} variant) table generation (dump mode)")
    rows = []
    for line in dump.printed:
        if line.startswith('"{'):
            rows.append(json.loads(json.loads(line)))
    if len(rows) != dump.distinct or not rows:
        raise MachineryError(f"dump: {len(rows)} rows parsed but {dump.distinct} states; see {dump.out_path}")
    ctx.notes["tlc_rows"] = len(rows)
    ctx.notes["wire_variant"] = {"WireFixed": FIXED}
    return rows


# ------------------------------------------------------------------------------------------------ oracle helpers
def cause(path, owner, attr, kind, o, b, codec):
    """Signature of one lost leaf.  Independent of the model; exact arithmetic only."""
    if ".context_details." in "." + path and codec in ("dict", "json"):
        if (attr == "replay_children" and o is True and b is False) or \
                (owner == "ErrorObject" and path.rsplit(".", 2)[-2] == "error" and "context_details.error." in path and b in (None, W.NOLEAF)):
            return SIG_K1
    if kind == "obj":
        if isinstance(b, W.Raw) and b.v == {} and attr == "chained_invoke_details":
            return SIG_K5
        return f"wrong-type:{owner}.{attr}"
    if kind == "ts" and isinstance(o, D.datetime) and o.tzinfo is not None:
        us = W.ts_us(o)
        if type(b) is int and b == 0 and 0 in (W.floor_ms(us), W.trunc0_ms(us)):
            return SIG_K2
        if isinstance(b, D.datetime):
            if b.tzinfo is None:
                return "timestamp-naive"
            delta = W.ts_us(b) - us
            if us % 1000 == 0 and delta == (1000 if us < 0 else -1000):      # one millisecond toward zero
                return SIG_K3
            if us >= (2 ** 33) * 10 ** 6 and (W.ts_us(b) - W.floor_ms(us) * 1000) in (-1, 1):      # one microsecond off the exact ms
                return SIG_K4
            off = o.utcoffset()
            if off and abs(abs(delta) - abs(int(off.total_seconds())) * 10 ** 6) <= 1000:
                return "tz-offset-altered"
        return f"timestamp-altered:{owner}.{attr}"
    if b is None or b is W.NOLEAF or (kind == "bool" and b is False) or (kind == "int" and b == 0 and type(b) is int):
        return f"field-dropped:{owner}.{attr}"
    return f"field-altered:{owner}.{attr}"


def _short(v):
    s = repr(v)
    return s if len(s) < 90 else s[:87] + "..."


class Binder:
    def __init__(self, ctx):
        self.ctx = ctx
        self.counts = {"instances": 0, "roundtrips": 0, "model_compared": 0}
        self.sig_examples = {}
        self.sig_counts = {}

    def violation(self, sig, text, rep):
        """rep may be a zero-argument callable (built only when a replay file is going to be written)."""
        n = self.sig_counts[sig] = self.sig_counts.get(sig, 0) + 1
        self.sig_examples.setdefault(sig, text)
        known = (self.ctx.pid, sig) in self.ctx.findings["known"] if hasattr(self.ctx, "findings") else False
        if known:
            self.ctx.violation(sig, text, rep() if (callable(rep) and n == 1) else (None if callable(rep) else rep))
        elif n <= 4:        # Ctx.violation scans its list: keep it short; the full count is in notes["signature_counts"]
            self.ctx.violation(sig, text, rep() if callable(rep) else rep)

    def _codec_fns(self, cls, codec):
        C = W.CLASSES[cls]
        if codec == "dict":
            return (lambda o: o.to_dict()), C.from_dict
        if codec == "json":
            return (lambda o: o.to_json_dict()), C.from_json_dict
        if codec == "idict":
            return (lambda o: W.ideal(cls, o, False)), C.from_dict
        return (lambda o: W.ideal(cls, o, True)), C.from_json_dict

    def codecs_of(self, cls):
        out = []
        if cls in W.HAS_TO_DICT:
            out.append("dict")
        if cls in W.HAS_JSON:
            out.append("json")
        if cls not in ("ErrorObject", "ContextOptions", "StepOptions", "WaitOptions", "CallbackOptions", "ChainedInvokeOptions"):
            out.append("idict")
            if cls in W.HAS_JSON:
                out.append("ijson")
        return out

    def roundtrips(self, cls, obj, leaves, pred=None, where=""):
        """Run every round trip of `cls` on `obj`; compare with the property and (if pred) with the model's row."""
        self.counts["instances"] += 1
        meta: dict = {}
        fo = W.flatten(obj, cls, "", None, meta)
        for codec in self.codecs_of(cls):
            enc, dec = self._codec_fns(cls, codec)

            def rep(codec=codec):
                return {"kind": "instance", "cls": cls, "codec": codec, "leaves": W.enc_leaves(leaves), "where": where}
            self.counts["roundtrips"] += 1
            try:
                wire = enc(obj)
            except Exception as e:  # noqa: BLE001
                self.violation(f"codec-exception:{cls}.encode-{codec}", f"{type(e).__name__}: {e} while encoding {_short(obj)}", rep)
                continue
            if pred is not None and codec in ("dict", "json"):
                self.counts["model_compared"] += 1
                got = W.wire_tokens(cls, wire, obj)
                exp = pred["wire"] if codec == "dict" else pred["jwire_full"]
                if got != exp:
                    diff = {k: (exp.get(k, "nokey"), got.get(k, "nokey")) for k in set(exp) | set(got) if exp.get(k) != got.get(k)}
                    self.violation("model-mismatch", f"{cls}.{'to_dict' if codec == 'dict' else 'to_json_dict'} wire form differs from "
                                   f"Wire.tla: (model, real) = {diff} for {_short(obj)}", rep)
            try:
                back = dec(wire)
                lost = W.lost_leaves(cls, obj, back, fo, meta)
            except Exception as e:  # noqa: BLE001
                self.violation(f"codec-exception:{cls}.decode-{codec}", f"{type(e).__name__}: {e} while decoding {_short(wire)}", rep)
                continue
            if pred is not None:
                exp_lost = set(pred[codec])
                if set(lost) != exp_lost:
                    self.violation("model-mismatch", f"{cls} {codec} round trip: model predicts lost leaves {sorted(exp_lost)} but the real "
                                   f"code loses {sorted(lost)} for {_short(obj)}", rep)
            by_sig = {}
            for p, (owner, attr, kind, o, b) in lost.items():
                by_sig.setdefault(cause(p, owner, attr, kind, o, b, codec), []).append((p, o, b))
            for sig, items in by_sig.items():
                p, o, b = items[0]
                self.violation(sig, f"{cls} {codec} round trip ({_codec_name(codec)}) does not reproduce {[i[0] for i in items]}: "
                               f"{p} = {_short(o)} came back as {_short(b)}", rep)
            if not lost and back != obj and W.carve_free(cls, obj):
                self.violation(f"unequal-object:{cls}", f"{cls} {codec} round trip: no flattened leaf differs and no carve-out applies, yet "
                               f"back != original: {_short(obj)} -> {_short(back)}", rep)


def _codec_name(codec):
    return {"dict": "from_dict(to_dict(x))", "json": "from_json_dict(to_json_dict(x))", "idict": "from_dict(exact wire of x)",
            "ijson": "from_json_dict(exact JSON wire of x)"}[codec]


# ------------------------------------------------------------------------------------------------ (2) binding G
W.SCH["FactoryArgs"] = [("operation_id", "rstr", None), ("parent_id", "ostr", None), ("name", "ostr", None), ("payload", "pstr", None),
                        ("sub_type", "oenum:OperationSubType", None), ("delay", "int", None), ("error", "obj:ErrorObject", None),
                        ("context_options", "obj:ContextOptions", None), ("callback_options", "obj:CallbackOptions", None),
                        ("chained_invoke_options", "obj:ChainedInvokeOptions", None), ("wait_options", "obj:WaitOptions", None)]
W.SCH["DecodeSrc"] = [("ops", "list:Operation", None)]
W.recompile()
FACTORY_ARGS = {
    "create_callback": ("identifier", "callback_options"),
    "create_context_start": ("identifier", "sub_type"),
    "create_context_succeed": ("identifier", "payload", "sub_type", "context_options"),
    "create_context_fail": ("identifier", "error", "sub_type"),
    "create_execution_succeed": ("payload",),
    "create_execution_fail": ("error",),
    "create_step_succeed": ("identifier", "payload"),
    "create_step_fail": ("identifier", "error"),
    "create_step_start": ("identifier",),
    "create_step_retry": ("identifier", "error", "next_attempt_delay_seconds"),
    "create_invoke_start": ("identifier", "payload", "chained_invoke_options"),
    "create_wait_for_condition_start": ("identifier",),
    "create_wait_for_condition_succeed": ("identifier", "payload"),
    "create_wait_for_condition_retry": ("identifier", "payload", "next_attempt_delay_seconds"),
    "create_wait_for_condition_fail": ("identifier", "error"),
    "create_wait_start": ("identifier", "wait_options"),
}


def factory_call(f, leaves):
    def sub(name, cls):
        return W.build(cls, leaves, name + ".") if leaves.get(name) is W.OBJ else None
    vals = {"identifier": W.identifier(leaves), "payload": leaves.get("payload"), "sub_type": leaves.get("sub_type"),
            "error": sub("error", "ErrorObject"), "context_options": sub("context_options", "ContextOptions"),
            "callback_options": sub("callback_options", "CallbackOptions"),
            "chained_invoke_options": sub("chained_invoke_options", "ChainedInvokeOptions"),
            "wait_options": sub("wait_options", "WaitOptions"), "next_attempt_delay_seconds": leaves.get("delay")}
    kw = {a: vals[a] for a in FACTORY_ARGS[f]}
    return getattr(W.LS.OperationUpdate, f)(**kw), kw


def not_carried(kw, w):
    """Options given to the factory that the wire dictionary does not carry (the property's second clause)."""
    miss = set()

    def opt_str(key, v):
        return v in (None, "") or w.get(key) == v
    if "identifier" in kw:
        i = kw["identifier"]
        if w.get("Id") != i.operation_id:
            miss.add("operation_id")
        if not opt_str("ParentId", i.parent_id):
            miss.add("parent_id")
        if not opt_str("Name", i.name):
            miss.add("name")
    if "payload" in kw and not opt_str("Payload", kw["payload"]):
        miss.add("payload")
    if "sub_type" in kw and w.get("SubType") != kw["sub_type"].value:
        miss.add("sub_type")
    if "error" in kw:
        e, we = kw["error"], w.get("Error")
        ok = isinstance(we, dict) and all(v is None or we.get(k) == v for k, v in
                                          (("ErrorMessage", e.message), ("ErrorType", e.type), ("ErrorData", e.data), ("StackTrace", e.stack_trace)))
        if not ok:
            miss.add("error")
    for name, key, cls in (("context_options", "ContextOptions", "ContextOptions"), ("callback_options", "CallbackOptions", "CallbackOptions"),
                           ("chained_invoke_options", "ChainedInvokeOptions", "ChainedInvokeOptions"), ("wait_options", "WaitOptions", "WaitOptions")):
        o = kw.get(name)
        if o is not None:
            wd = w.get(key)
            if not (isinstance(wd, dict) and all(getattr(o, a) is None or (wd.get(wk) == getattr(o, a) and type(wd.get(wk)) is type(getattr(o, a)))
                                                 for a, _k, wk in W.SCH[cls])):
                miss.add(name)
    if "next_attempt_delay_seconds" in kw:
        so = w.get("StepOptions")
        if not (isinstance(so, dict) and so.get("NextAttemptDelaySeconds") == kw["next_attempt_delay_seconds"]):
            miss.add("next_attempt_delay_seconds")
    return miss


def bind_factory(b, row, rot):
    f = row["f"]
    leaves = W.row_leaves("FactoryArgs", row["x"], rot)
    rep = {"kind": "factory", "f": f, "leaves": W.enc_leaves(leaves)}
    upd, kw = factory_call(f, leaves)
    w = upd.to_dict()
    b.counts["instances"] += 1
    got = W.wire_tokens("OperationUpdate", w, upd)
    if got != row["wire"]:
        diff = {k: (row["wire"].get(k, "nokey"), got.get(k, "nokey")) for k in set(got) | set(row["wire"]) if got.get(k) != row["wire"].get(k)}
        b.violation("model-mismatch", f"OperationUpdate.{f}: wire form differs from Wire.tla (model, real) = {diff}", rep)
    miss = not_carried(kw, w)
    model_miss = {"next_attempt_delay_seconds" if m == "delay" else m for m in row["carry"]}
    if miss != model_miss:
        b.violation("model-mismatch", f"OperationUpdate.{f}: model says options not carried {sorted(model_miss)}, real {sorted(miss)}", rep)
    for m in sorted(miss):
        b.violation(f"option-not-carried:{f}.{m}", f"OperationUpdate.{f}({ {k: _short(v) for k, v in kw.items()} }).to_dict() = {_short(w)} does "
                    f"not contain option {m}", rep)
    # the created update must itself survive its round trip
    b.roundtrips("OperationUpdate", upd, _leaves_of("OperationUpdate", upd), None, where=f)


def _leaves_of(cls, obj):
    return W.flatten(obj, cls)


_MARK = {"nokey": W.NOLEAF, "none": None, "empty": "", "rempty": "", "val": "m-1"}


def decode_case(cls, leaves, toks):
    """(wire dictionary an exact encoder would send, object the decoder is expected to produce)."""
    n = leaves.get("ops.len", 0)
    ops = [W.build("Operation", leaves, f"ops.{i}.") for i in range(n)]

    def state_wire():
        d = {}
        if toks["opsKey"] == "list":
            d["Operations"] = [W.ideal("Operation", o) for o in ops]
        if toks["marker"] != "nokey":
            d["NextMarker"] = _MARK[toks["marker"]]
        return d
    exp_ops = ops if toks["opsKey"] == "list" else []
    exp_marker = None if toks["marker"] in ("nokey", "none") else _MARK[toks["marker"]]
    if cls != "CheckpointOutput":
        return state_wire(), W.CLASSES[cls](operations=exp_ops, next_marker=exp_marker)
    d = {}
    if toks["token"] != "nokey":
        d["CheckpointToken"] = "" if toks["token"] == "rempty" else "tok-1"
    if toks["nes"] == "emptydict":
        d["NewExecutionState"] = {}
    elif toks["nes"] == "dict":
        d["NewExecutionState"] = state_wire()
    nes = W.LS.CheckpointUpdatedExecutionState(operations=exp_ops, next_marker=exp_marker) if toks["nes"] == "dict" \
        else W.LS.CheckpointUpdatedExecutionState()
    return d, W.LS.CheckpointOutput(checkpoint_token=d.get("CheckpointToken", ""), new_execution_state=nes)


def bind_decode(b, row, rot):
    cls = row["cls"]
    toks = {k: row["xd"].get(k, "nokey") for k in ("opsKey", "marker", "token", "nes")}
    leaves = W.row_leaves("DecodeSrc", row["x"], rot)
    rep = {"kind": "decode", "cls": cls, "tokens": toks, "leaves": W.enc_leaves(leaves)}
    wire, exp = decode_case(cls, leaves, toks)
    b.counts["instances"] += 1
    b.counts["roundtrips"] += 1
    got_w = W.wire_tokens(cls, wire, exp)
    if got_w != row["wire"]:
        diff = {k: (row["wire"].get(k, "nokey"), got_w.get(k, "nokey")) for k in set(got_w) | set(row["wire"]) if got_w.get(k) != row["wire"].get(k)}
        raise MachineryError(f"decode row: harness wire differs from Wire.tla's exact wire: {diff}")
    try:
        got = W.CLASSES[cls].from_dict(wire)
        lost = W.lost_leaves(cls, exp, got)
    except Exception as e:  # noqa: BLE001
        b.violation(f"codec-exception:{cls}.decode-idict", f"{type(e).__name__}: {e} while decoding {_short(wire)}", rep)
        return
    if set(lost) != set(row["idict"]):
        b.violation("model-mismatch", f"{cls}.from_dict: model predicts lost {sorted(row['idict'])}, real {sorted(lost)} for {_short(wire)}", rep)
    for p, (owner, attr, kind, o, bb) in lost.items():
        b.violation(cause(p, owner, attr, kind, o, bb, "idict"), f"{cls}.from_dict({_short(wire)}) does not reproduce {p}: expected "
                    f"{_short(o)}, got {_short(bb)}", rep)


def prep_row(row):
    row["xd"] = dict(row["x"])
    row["wire"] = W.drop_len0(dict(row["wire"]))
    jw = dict(row["wire"])
    jw.update(dict(row["jwire"]))
    row["jwire_full"] = W.drop_len0(jw)
    return row


def check_enums(ctx):
    for name, members in W.TLA_ENUMS.items():
        real = {m.value for m in W.ENUMS[name]}
        if real != members:
            ctx.violation("model-mismatch", f"enum {name}: Wire.tla has {sorted(members)}, code has {sorted(real)}", {"kind": "enum", "name": name})
    real_f = {n for n in dir(W.LS.OperationUpdate) if n.startswith("create_")}
    if real_f != set(FACTORY_ARGS):
        ctx.violation("model-mismatch", f"create_* factories: model {sorted(FACTORY_ARGS)} vs code {sorted(real_f)}", {"kind": "factories"})
    for c, sch in W.SCH.items():
        if c in W.CLASSES:
            import dataclasses
            real = [f.name for f in dataclasses.fields(W.CLASSES[c])]
            if real != [a for a, _k, _w in sch] and set(real) != {a for a, _k, _w in sch}:
                ctx.violation("model-mismatch", f"class {c}: schema fields {[a for a, _k, _w in sch]} vs dataclass fields {real}",
                              {"kind": "schema", "cls": c})


def bind_rows(ctx, rows, b):
    variants = 1 if ctx.quick else 5
    t0 = time.time()
    per_slice = {}
    for i, row in enumerate(rows):
        prep_row(row)
        cls = row["cls"]
        per_slice[row["slice"]] = per_slice.get(row["slice"], 0) + 1
        nv = variants if row["slice"] not in ("op_head", "err", "opts", "out", "inp", "decode") else max(variants, 3)
        for v in range(nv):
            rot = i * 7 + v * 3
            ctx.case(f"{cls}|{row['slice']}|{i}|{v}")
            if cls == "Factory":
                bind_factory(b, row, rot)
            elif row["slice"] == "decode":
                bind_decode(b, row, rot)
            else:
                leaves = W.row_leaves(cls, row["x"], rot)
                obj = W.build(cls, leaves)
                b.roundtrips(cls, obj, leaves, row, where=row["slice"])
                if cls == "InvocationInput":
                    ies = obj.initial_execution_state
                    b.roundtrips("InitialExecutionState", ies, W.flatten(ies, "InitialExecutionState"), None, where="inp")
                if i % 4001 == 0 and v == 0:
                    ctx.sample({"abstract": row["x"][:8], "model_wire": dict(list(row["wire"].items())[:8]),
                                "model_lost": {c: row[c] for c in CODECS if row[c]}, "real": _short(obj)})
    ctx.notes["g_binding"] = {"rows": len(rows), "rows_per_slice": per_slice, "variants_per_row": variants, "wall_s": round(time.time() - t0, 1)}


# ------------------------------------------------------------------------------------------------ (3) random
TZS = [W.UTC, W._tz(2), W._tz(-7), W._tz(5, 30), W._tz(14), W._tz(-12)]
ERAS = [(D.datetime(1969, 6, 1, tzinfo=W.UTC), 3 * 365), (D.datetime(2000, 1, 1, tzinfo=W.UTC), 40 * 365),
        (D.datetime(2037, 6, 1, tzinfo=W.UTC), 3 * 365), (D.datetime(2240, 1, 1, tzinfo=W.UTC), 60 * 365)]
TOKENS = {"ostr": ["absent", "empty", "val", "val"], "pstr": ["absent", "empty", "val", "val"], "mstr": ["empty", "val"], "rstr": ["rempty", "val", "val"],
          "bool": ["F", "T"], "int": ["zero", "pos"], "stack": ["absent", "emptylist", "val"]}


def rand_ts(rng):
    if rng.random() < 0.25:
        return None
    if rng.random() < 0.4:
        c = rng.choice(sorted(W.TS_POOL))
        return rng.choice(W.TS_POOL[c])
    base, days = rng.choice(ERAS)
    us = rng.randrange(days * 86400) * 10 ** 6 + (rng.randrange(1000) * 1000 if rng.random() < 0.5 else rng.randrange(10 ** 6))
    return (base + D.timedelta(microseconds=us)).astimezone(rng.choice(TZS))


def rand_leaves(cls, rng, pf="", leaves=None, depth=0):
    leaves = {} if leaves is None else leaves
    for attr, kind, _w in W.SCH[cls]:
        p = pf + attr
        if kind.startswith("obj:"):
            if rng.random() < (0.55 if depth == 0 else 0.7):
                leaves[p] = W.OBJ
                rand_leaves(kind[4:], rng, p + ".", leaves, depth + 1)
            else:
                leaves[p] = W.NOOBJ
        elif kind.startswith("robj:"):
            rand_leaves(kind[5:], rng, p + ".", leaves, depth + 1)
        elif kind.startswith("list:"):
            n = rng.choice([0, 1, 1, 2, 3])
            leaves[p + ".len"] = n
            for i in range(n):
                rand_leaves(kind[5:], rng, f"{p}.{i}.", leaves, depth + 1)
        elif kind == "ts":
            leaves[p] = rand_ts(rng)
        elif kind.startswith("enum:"):
            leaves[p] = rng.choice(list(W.ENUMS[kind[5:]]))
        elif kind.startswith("oenum:"):
            leaves[p] = rng.choice([None] + list(W.ENUMS[kind[6:]]))
        else:
            leaves[p] = W.conc(kind, rng.choice(TOKENS[kind]), rng.randrange(1000))
    return leaves


def random_part(ctx, b):
    rng = random.Random(ctx.seed)
    n = 400 if ctx.quick else 40000
    t0 = time.time()
    for i in range(n):
        cls = ("Operation", "OperationUpdate", "InvocationInput", "InvocationOutput", "Operation")[i % 5]
        leaves = rand_leaves(cls, rng)
        obj = W.build(cls, leaves)
        ctx.case(f"rnd|{cls}|{ctx.seed}|{i}")
        b.roundtrips(cls, obj, leaves, None, where=f"random#{i}")
        if i == 1:
            ctx.sample({"random_instance": _short(obj)})
    ctx.notes["random_instances"] = {"n": n, "wall_s": round(time.time() - t0, 1)}


def naive_probe(ctx):
    """Naive datetimes are outside 'well-typed': boto3 delivers tz-aware datetimes and from_unix_millis always produces aware ones;
    to_unix_millis on a naive value silently interprets it in the process's local zone.  Recorded, not judged."""
    out = []
    for dt in W.NAIVE:
        op = W.LS.Operation(operation_id="n", operation_type=W.LS.OperationType.STEP, status=W.LS.OperationStatus.STARTED, start_timestamp=dt)
        try:
            back = W.LS.Operation.from_json_dict(op.to_json_dict())
            out.append({"naive": dt.isoformat(), "json_back": repr(back.start_timestamp), "equal": back == op})
        except Exception as e:  # noqa: BLE001
            out.append({"naive": dt.isoformat(), "exception": f"{type(e).__name__}: {e}"})
    ctx.notes["naive_datetime_not_judged"] = out
    # decoding does not modify the dictionary it is given (the same event / page is decoded again on a Lambda retry or by a caller
    # that keeps it): JSON form with nested millisecond timestamps, decoded twice
    import copy as _copy
    LS0 = W.LS
    aware = D.datetime(2025, 6, 1, 12, 34, 56, 789000, tzinfo=W.UTC)
    samples = [LS0.Operation(operation_id="j1", operation_type=LS0.OperationType.STEP, status=LS0.OperationStatus.PENDING, start_timestamp=aware,
                             step_details=LS0.StepDetails(attempt=1, next_attempt_timestamp=aware)),
               LS0.Operation(operation_id="j2", operation_type=LS0.OperationType.WAIT, status=LS0.OperationStatus.STARTED, start_timestamp=aware,
                             wait_details=LS0.WaitDetails(scheduled_end_timestamp=aware))]
    for op in samples:
        for enc, dec, nm in ((op.to_json_dict, LS0.Operation.from_json_dict, "from_json_dict"), (op.to_dict, LS0.Operation.from_dict, "from_dict")):
            d0 = enc()
            keep = _copy.deepcopy(d0)
            ctx.case(("decode-twice", op.operation_id, nm))
            try:
                first = dec(d0)
                second = dec(d0)
            except Exception as e:  # noqa: BLE001
                ctx.violation("decoder-modifies-input", f"Operation.{nm} cannot decode the same dictionary twice: {type(e).__name__}: {e}",
                              {"kind": "wire", "op": op.operation_id, "decoder": nm})
                return
            if d0 != keep or first != second or first != op:
                ctx.violation("decoder-modifies-input", f"Operation.{nm} modified the dictionary it was given (or the second decoding differs)",
                              {"kind": "wire", "op": op.operation_id, "decoder": nm})
                return
    # ... but the WIRE DICTIONARY (datetime objects, as boto3 delivers and accepts them) carries a datetime as it is: there a naive
    # value comes back unchanged (no zone is attached, no instant moves), in every timestamp field - judged
    LS = W.LS
    for dt in W.NAIVE:
        ops = [LS.Operation(operation_id="n1", operation_type=LS.OperationType.STEP, status=LS.OperationStatus.PENDING, start_timestamp=dt,
                            end_timestamp=dt, step_details=LS.StepDetails(attempt=2, next_attempt_timestamp=dt)),
               LS.Operation(operation_id="n2", operation_type=LS.OperationType.WAIT, status=LS.OperationStatus.STARTED,
                            wait_details=LS.WaitDetails(scheduled_end_timestamp=dt))]
        for op in ops:
            ctx.case(("naive-wire", op.operation_id, dt.isoformat()))
            try:
                back = LS.Operation.from_dict(op.to_dict())
            except Exception as e:  # noqa: BLE001
                ctx.violation("roundtrip-raises", f"wire-dict round trip of an operation with naive timestamps raises {type(e).__name__}: {e}",
                              {"kind": "wire", "naive": dt.isoformat(), "op": op.operation_id})
                return
            if back != op:
                ctx.violation("timestamp-altered", f"wire-dict round trip of {op.operation_type.value} with the naive timestamp {dt.isoformat()} "
                                                   f"yields a different object: {_short(back)}", {"kind": "wire", "naive": dt.isoformat(), "op": op.operation_id})
                return


# ------------------------------------------------------------------------------------------------ entry points
def run(ctx):
    ctx.rule = ("TLC enumerates exhaustively, per model class, the STRUCTURE of an instance: presence / emptiness of every optional field, "
                "every enum member, presence vectors of all nested objects (full leaf domain per nested object on its own, reduced "
                "domains in combination), abstract timestamp class, every create_* factory with every option; one state = one abstract "
                "instance. Sampled (not exhaustive): the concrete leaf values, from fixed pools rotated over the rows plus seeded random "
                "draws - this includes the float arithmetic of TimestampConverter, which Wire.tla only represents by the classes "
                "epoch0 / unlucky / drift. One case = one distinct concrete instance pushed through every round trip of its class.")
    ctx.assumptions += [
        "well-typed = field types as annotated; datetimes tz-aware (naive datetimes are recorded in the evidence, not judged)",
        "timestamps are equal when they denote the same instant after truncation to milliseconds (floor, or toward zero before 1970); tzinfo may change",
        "an empty optional string equals an absent one; a nested object whose every leaf is absent equals an absent object; required strings "
        "(ids, tokens, ARNs, function name) and stack_trace [] vs None get no carve-out",
        "the codecs treat fields independently, so slices (not the full product of all field domains) are enumerated",
        "exact reference encoder = every non-None member emitted, timestamps as floor milliseconds: stands for the backend's payloads",
        "InitialExecutionState.next_marker is typed str: None is not enumerated",
    ]
    check_enums(ctx)
    rows = tlc_part(ctx)
    b = Binder(ctx)
    bind_rows(ctx, rows, b)
    random_part(ctx, b)
    naive_probe(ctx)
    ctx.notes["binding_counts"] = b.counts
    ctx.notes["signature_counts"] = dict(sorted(b.sig_counts.items()))
    ctx.notes["signature_examples"] = {k: v[:400] for k, v in sorted(b.sig_examples.items())}
    ctx.notes["timestamp_pools"] = {k: [d.isoformat() for d in v] for k, v in sorted(W.TS_POOL.items())}


def replay(d):
    r = d["replay"]
    print(d.get("signature"), "-", d.get("text"))
    kind = r.get("kind")

    class _C:
        quick = True
        seed = 0
        notes: dict = {}

        def violation(self, sig, text, rep=None):
            print(f"  REPRODUCED {sig}: {text}")

        def case(self, *a):
            pass

        def sample(self, *a):
            pass
    b = Binder(_C())
    if kind == "instance":
        leaves = W.dec_leaves(r["leaves"])
        cls = r["cls"]
        obj = W.build(cls, leaves)
        print("instance:", obj)
        for codec in b.codecs_of(cls):
            enc, dec = b._codec_fns(cls, codec)
            try:
                w = enc(obj)
                print(f"[{codec}] wire:", w)
                print(f"[{codec}] back:", dec(w))
            except Exception as e:  # noqa: BLE001
                print(f"[{codec}] exception {type(e).__name__}: {e}")
        b.roundtrips(cls, obj, leaves, None)
    elif kind == "factory":
        leaves = W.dec_leaves(r["leaves"])
        upd, kw = factory_call(r["f"], leaves)
        print("call:", r["f"], kw)
        print("update:", upd)
        print("wire:", upd.to_dict())
        for m in sorted(not_carried(kw, upd.to_dict())):
            print("  REPRODUCED option-not-carried:", m)
    elif kind == "decode":
        leaves = W.dec_leaves(r["leaves"])
        wire, exp = decode_case(r["cls"], leaves, r["tokens"])
        print("wire:", wire)
        print("expected:", exp)
        got = W.CLASSES[r["cls"]].from_dict(wire)
        print("decoded :", got)
        for p, v in W.lost_leaves(r["cls"], exp, got).items():
            print("  REPRODUCED lost leaf", p, v[3], "->", v[4])
    else:
        print(json.dumps(r, indent=1, default=str)[:4000])
    return 0
