"""C07 - suspension is sound and live: PENDING only when durably parked, and never stuck."""
from checks import oracles
from checks.durable_check import replay_execution, run_durable


def run(ctx):
    from checks.durable_common import CURATED
    run_durable(ctx, model=["s01_step_wait_retry", "s03_child_wfc", "s04_cb_invoke", "s16_wait_wait"],
                programs=list(CURATED), oracle_fns=[oracles.c07],
                scen_kw={"crash": 0.4, "paging": 0.3, "ext_fail": 0.3},
                liveness_on=["s01_step_wait_retry", "s04_cb_invoke"] if ctx.quick else ["s01_step_wait_retry", "s03_child_wfc", "s04_cb_invoke"],
                extra_rule="Executions are driven to a terminal status by ModelBackend firing timers / delivering callbacks and invoke results in "
                           "scenario-chosen orders. Oracle: never STUCK (PENDING with nothing registered), never HANG, terminal within the "
                           "invocation bound, no user function running at a PENDING return.")
    from checks import batcher_failstop, executor_check
    executor_check.suspend_part(ctx)
    # "never stuck" includes the checkpoint pipeline after a failed call: every blocked or later producer is released (Batcher.tla
    # NoStuckWaiter / EveryProducerReturns, and the real pipeline under systematic and random schedules with an injected failure)
    batcher_failstop.run_part(ctx, scale=0.5 if ctx.quick else 1.0)


def replay(d):
    if (d.get("replay") or {}).get("kind") == "batcher":
        from checks import batcher_failstop
        return batcher_failstop.replay(d)
    return replay_execution(d)
