"""C16 - oversized results stay out of checkpoints and responses yet are fully recovered."""
from checks import oracles
from checks.durable_check import replay_execution, run_durable
from checks.executor_common import c10

LIMIT = 256 * 1024
PROGS = [
    "s08_large_child", "s09_large_final",
    {"nodes": [{"k": "child", "large": True, "summary": True, "body": [{"k": "step"}, {"k": "step", "sem": "AMO"}]}, {"k": "wait"}, {"k": "step"}]},
    {"nodes": [{"k": "child", "ser_size": LIMIT - 1, "body": [{"k": "step"}]}, {"k": "wait"}, {"k": "step"}]},
    {"nodes": [{"k": "child", "ser_size": LIMIT, "body": [{"k": "step"}]}, {"k": "wait"}, {"k": "step"}]},
    {"nodes": [{"k": "child", "ser_size": LIMIT + 1, "body": [{"k": "step"}]}, {"k": "wait"}, {"k": "step"}]},
    {"nodes": [{"k": "child", "large": True, "body": [{"k": "child", "large": True, "body": [{"k": "step"}]}, {"k": "wfc", "polls": 2}]}, {"k": "wait"}]},
    {"nodes": [{"k": "step"}], "final_raise_large": True},
    # errors whose MESSAGE is below the limit while the encoded response is above it (escapes, non-ASCII, envelope)
    {"nodes": [{"k": "step"}], "final_raise_large": "escape"},
    {"nodes": [{"k": "step"}], "final_large": "unicode"},
    {"nodes": [{"k": "step"}, {"k": "wait"}], "final_raise_large": "unicode"},
    {"nodes": [{"k": "step"}], "final_raise_large": "boundary"},
    {"nodes": [{"k": "map", "explicit_cfg": True, "large_items": [0, 1], "branches": [[{"k": "step"}], [{"k": "step"}], [{"k": "step"}]]},
               {"k": "wait"}, {"k": "step"}]},
    {"nodes": [{"k": "par", "explicit_cfg": True, "large_items": [0, 1], "cfg": {"min": 2},
                "branches": [[{"k": "step"}], [{"k": "step"}], [{"k": "wait", "s": 5}]]}, {"k": "wait"}]},
    {"nodes": [{"k": "map", "large_items": [0], "branches": [[{"k": "step"}], [{"k": "step"}]]}, {"k": "wait"}]},
    # non-ASCII results: 150 000 characters = 300 KB of UTF-8 (900 KB in the escaped default encoding) must not be recorded in full
    {"nodes": [{"k": "child", "uni": 150000, "body": [{"k": "step"}]}, {"k": "wait"}, {"k": "step"}]},
    {"nodes": [{"k": "child", "uni": 40000, "body": [{"k": "step"}]}, {"k": "wait"}, {"k": "step"}]},
    # an oversized child context inside a branch that parks afterwards and is re-traversed IN-PROCESS (a sibling is still running): the
    # summarised context is rebuilt from its recorded steps in the same invocation that recorded the summary
    {"nodes": [{"k": "par", "branches": [[{"k": "child", "large": True, "body": [{"k": "step"}, {"k": "step"}]}, {"k": "wait", "s": 1}, {"k": "step"}],
                                         [{"k": "step", "dur": 3.0}]]}, {"k": "wait"}, {"k": "step"}]},
    {"nodes": [{"k": "map", "cfg": {"min": 1}, "branches": [[{"k": "child", "large": True, "body": [{"k": "step"}]}, {"k": "wait", "s": 1}, {"k": "step"}],
                                                            [{"k": "step", "dur": 2.5}]]}, {"k": "step"}]},
    # early completion with max_concurrency below the branch count: some branches are never scheduled (no record at all) and are
    # reported as STARTED items; the rebuilt result must still list them
    {"nodes": [{"k": "map", "maxc": 1, "explicit_cfg": True, "large_items": [0, 1], "cfg": {"min": 2},
                "branches": [[{"k": "step"}], [{"k": "step"}], [{"k": "step"}], [{"k": "step"}], [{"k": "step"}]]}, {"k": "wait"}, {"k": "step"}]},
    # the caller's own item_serdes: an oversized call rebuilt from its children must decode every item with it
    {"nodes": [{"k": "map", "explicit_cfg": True, "item_serdes": "wrap", "medium_items": [0, 1, 2],
                "branches": [[{"k": "step"}], [{"k": "step"}], [{"k": "step"}]]}, {"k": "wait"}, {"k": "step"}]},
    {"nodes": [{"k": "par", "explicit_cfg": True, "item_serdes": "wrap", "medium_items": [0, 1, 2],
                "branches": [[{"k": "step"}], [{"k": "wait", "s": 1}, {"k": "step"}], [{"k": "step"}]]}, {"k": "wait"}, {"k": "step"}]},
    {"nodes": [{"k": "par", "maxc": 1, "explicit_cfg": True, "large_items": [0], "cfg": {"tolc": 0}, "braise": [1], "caught": True,
                "branches": [[{"k": "step"}], [], [{"k": "step"}], [{"k": "step"}]]}, {"k": "wait"}, {"k": "step"}]},
]


def run(ctx):
    run_durable(ctx, model=["s08_large_child", "s09_large_final"], programs=PROGS, oracle_fns=[oracles.c16, oracles.c01_fn_only, oracles.c07],
                n_random_progs=(0, 0), n_scen=(4, 12),
                scen_kw={"crash": 0.5, "paging": 0.3, "faults": 0.0},
                extra_rule="Sizes limit-1 / limit / limit+1 of the 256 KB checkpoint limit (run_in_child_context, nested, with and without a "
                           "summary generator, map / parallel, oversized items) and of the Lambda response limit (result and error); replay "
                           "and crash after the summary was recorded. Oracle: recorded payload <= limit with ReplayChildren, rebuilt value "
                           "(typed repr) equal to the original, no function re-entry, no new record after the summary; oversized final "
                           "outcome recorded as execution result and reported with an empty payload.")


replay = replay_execution
