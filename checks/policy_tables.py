"""Policy.tla decision tables bound to the real functions (binding G).

For every table TLC enumerates the bounded domain of spec/Policy.tla (one state per row), checks the property clauses as
invariants over the rows and prints every row together with the transcription's outputs as one JSON line
(`Dump == PrintT(ToJson(Out))`).  Each printed row is then replayed into the real SDK function and compared:

  completion_tables  [C09]  ExecutionCounters.should_complete / is_complete / should_continue, BatchResult.from_items / from_dict
  retry_tables       [C12]  create_retry_strategy (+ RetryPresets, + large attempt numbers), random.random pinned
  wait_tables        [C13]  create_wait_strategy (+ large attempt numbers), random.random pinned
  wrapper_tables     [C18]  CheckpointError.from_exception and the wrapper's except chain (real durable_execution wrapper,
                            real threads, in-memory fake service client)

A disagreement between the transcription and the real function is a violation `policy-model-mismatch`
(`classification-mismatch` / `wrapper-outcome-mismatch` for the two C18 tables); a clause violated by the transcription itself
is `policy-clause-<Invariant>`.
"""
from __future__ import annotations

import contextlib
import json
import logging
import math
import os
import random
import re
import sys
import threading
import time
import types

from lib.common import REPO
from lib.tlcrun import MachineryError, require_ok, run_tlc

SDK = "aws_durable_execution_sdk_python"


# ---- plumbing ------------------------------------------------------------------------------------------------

def _sdk_path():
    src = os.path.join(REPO, "src")
    if src not in sys.path:
        sys.path.insert(0, src)
    os.environ.setdefault("AWS_DEFAULT_REGION", "us-east-1")


@contextlib.contextmanager
def _real_sdk():
    """The checks that call us have installed the detsched shims into the SDK modules; the tables exercise the pure
    functions and the wrapper on real threads, so take the shims out for the duration and put them back afterwards."""
    _sdk_path()
    inst = sys.modules.get("harness.install")
    was = bool(inst is not None and getattr(inst, "_installed", False))
    if was:
        inst.uninstall()
    prev = logging.root.manager.disable
    logging.disable(logging.CRITICAL)
    try:
        yield
    finally:
        logging.disable(prev)
        if was:
            inst.install(check_audit=False)


def _parse_rows(res) -> list[dict]:
    rows = []
    for line in res.printed:
        if not line.startswith('"'):
            continue
        try:
            s = json.loads(line)
            if isinstance(s, str) and s.startswith("{"):
                rows.append(json.loads(s))
        except ValueError:
            # TLC's string printing is not exactly JSON for exotic characters; ours are plain
            inner = line[1:-1].replace('\\"', '"').replace("\\\\", "\\")
            rows.append(json.loads(inner))
    return rows


def _run_table(ctx, table: str, cfg: str, label: str) -> list[dict]:
    res = run_tlc("Policy", cfg, f"policy-{ctx.pid.lower()}-{cfg[:-4]}", workers=1, timeout_s=600)
    require_ok(res, label)
    ctx.add_tlc(res, label, exhaustive=True)
    rows = _parse_rows(res)
    if res.ok:
        keys = {json.dumps(r, sort_keys=True) for r in rows}
        if len(keys) != res.distinct or len(rows) != res.distinct:
            raise MachineryError(f"{cfg}: {len(rows)} rows printed ({len(keys)} distinct) but TLC found {res.distinct} states; "
                                 f"see {res.out_path}")
        if not rows:
            raise MachineryError(f"{cfg}: empty table")
    else:
        ctx.violation("policy-clause-" + str(res.violated),
                      f"the transcription of the {table} policy violates clause {res.violated} ({cfg}); offending row: {_bad_row(res)}",
                      {"kind": "policy", "table": table, "cfg": cfg, "violated": res.violated, "row": _bad_row(res)})
    return rows


def _bad_row(res) -> dict | None:
    """the row of an invariant violation (`row = [a |-> 1, ...]` after the Error line)"""
    try:
        txt = open(res.out_path, errors="replace").read()
    except OSError:
        return None
    i = txt.find("Error: Invariant")
    m = re.search(r"row = \[(.*?)\]\s*$", txt[i:] if i >= 0 else "", re.S | re.M)
    if not m:
        return None
    out = {}
    for part in re.split(r",\s*(?=\w+ \|->)", m.group(1).replace("\n", " ")):
        k, _, v = part.partition("|->")
        v = v.strip()
        if re.fullmatch(r"-?\d+", v):
            out[k.strip()] = int(v)
        elif v in ("TRUE", "FALSE"):
            out[k.strip()] = v == "TRUE"
        else:
            out[k.strip()] = v.strip('"')
    return out


def _note(ctx, table: str, **kw):
    ctx.notes.setdefault("policy_tables", {})[table] = kw


def _none(v):
    return None if v == -1 else v


def _rule(ctx, text: str):
    if text not in (ctx.rule or ""):
        ctx.rule = (ctx.rule + " | " if ctx.rule else "") + text


# ---- (1) completion --------------------------------------------------------------------------------------------

def _completion_real(row, float_pct=False, none_config=False, order=None):
    """-> (should_complete, is_complete, should_continue, reason, reason_via_from_dict) of the real code"""
    from aws_durable_execution_sdk_python.concurrency.models import (BatchItem, BatchItemStatus, BatchResult,
                                                                     ExecutionCounters)
    from aws_durable_execution_sdk_python.config import CompletionConfig
    n, s, f = row["n"], row["s"], row["f"]
    mn, tc, tp = _none(row["min"]), _none(row["tolc"]), _none(row["tolp"])
    if float_pct and tp is not None:
        tp = float(tp)
    cfg = CompletionConfig(min_successful=mn, tolerated_failure_count=tc, tolerated_failure_percentage=tp)
    # concurrency/executor.py: min_successful = self.completion_config.min_successful or len(self.executables)
    counters = ExecutionCounters(n, cfg.min_successful or n, cfg.tolerated_failure_count, cfg.tolerated_failure_percentage)
    seq = ["s"] * s + ["f"] * f
    if order is not None:
        order.shuffle(seq)
    for x in seq:
        counters.complete_task() if x == "s" else counters.fail_task()
    st = [BatchItemStatus.SUCCEEDED] * s + [BatchItemStatus.FAILED] * f + [BatchItemStatus.STARTED] * (n - s - f)
    if order is not None:
        order.shuffle(st)
    items = [BatchItem(i, status, result=(i if status is BatchItemStatus.SUCCEEDED else None)) for i, status in enumerate(st)]
    use_cfg = None if none_config else cfg
    br = BatchResult.from_items(items, use_cfg)
    d = br.to_dict()
    d.pop("completionReason")
    br2 = BatchResult.from_dict(d, use_cfg)
    return (counters.should_complete(), counters.is_complete(), counters.should_continue(),
            br.completion_reason.value, br2.completion_reason.value)


def completion_tables(ctx):
    t0 = time.time()
    _rule(ctx, "policy tables: one case = one row of the TLC-enumerated Policy.tla table replayed into the real function")
    cfg = "Policy_completion_quick.cfg" if ctx.quick else "Policy_completion.cfg"
    rows = _run_table(ctx, "completion", cfg, "Policy.tla completion table (ShouldComplete / Reason), clauses as invariants")
    rng = random.Random(ctx.seed)
    mism = known = 0
    with _real_sdk():
        for row in rows:
            key = ("completion", row["n"], row["s"], row["f"], row["min"], row["tolc"], row["tolp"])
            variants = [dict(), dict(float_pct=True), dict(order=rng)]
            if row["min"] == -1 and row["tolc"] == -1 and row["tolp"] == -1:
                variants.append(dict(none_config=True))
            ctx.case(key, n=len(variants))
            want = (row["should"], row["complete"], row["cont"], row["reason"], row["reason"])
            for v in variants:
                try:
                    got = _completion_real(row, **v)
                except Exception as e:  # noqa: BLE001
                    got = ("raised", type(e).__name__, str(e)[:80])
                if got != want:
                    mism += 1
                    vv = {k: (True if k == "order" else x) for k, x in v.items()}
                    ctx.violation("policy-model-mismatch",
                                  f"completion policy: real (should_complete, is_complete, should_continue, reason, replayed reason) = {got} "
                                  f"but Policy.tla says {want} for n={row['n']} succeeded={row['s']} failed={row['f']} "
                                  f"min_successful={_none(row['min'])} tolerated_failure_count={_none(row['tolc'])} "
                                  f"tolerated_failure_percentage={_none(row['tolp'])} variant={vv}",
                                  {"kind": "policy", "table": "completion", "row": row, "variant": vv, "real": list(got)})
                    break
            else:
                if row["known"] and row["should"] and row["reason"] == "ALL_COMPLETED" and row["started"] > 0:
                    known += 1
                    ctx.violation("all-completed-with-started",
                                  f"BatchResult.from_items reports ALL_COMPLETED with {row['started']} STARTED item(s): n={row['n']} "
                                  f"succeeded={row['s']} failed={row['f']} min_successful={row['min']} and no tolerance "
                                  f"(the counters decide completion by fail-fast, the classifier ignores it)",
                                  {"kind": "policy", "table": "completion", "row": row})
        # probe: the named deviation is reachable (the strict clause is violated by the transcription, and the real code agrees)
        pres = run_tlc("Policy", "Policy_completion_probe.cfg", f"policy-{ctx.pid.lower()}-completion-probe", workers=1,
                       timeout_s=300, coverage=False)
        require_ok(pres, "completion probe")
        ctx.add_tlc(pres, "probe: ReasonConsistentStrict (no KnownReason escape) is expected to be violated")
        if pres.violated != "ReasonConsistentStrict":
            raise MachineryError(f"completion probe: expected ReasonConsistentStrict to be violated, got {pres.violated} ({pres.out_path})")
        prow = _bad_row(pres)
        if not prow:
            raise MachineryError(f"completion probe: cannot parse the violating row ({pres.out_path})")
        preal = _completion_real(prow)
        probe = {"row": prow, "real_should_complete": preal[0], "real_reason": preal[3],
                 "real_agrees": bool(preal[0] and preal[3] == "ALL_COMPLETED" and prow["n"] - prow["s"] - prow["f"] > 0)}
    ctx.sample({"policy_completion_row": next((r for r in rows if r["reason"] == "MIN_SUCCESSFUL_REACHED"), rows[-1])})
    ctx.sample({"policy_completion_probe": probe})
    _note(ctx, "completion", cfg=cfg, rows=len(rows), mismatches=mism, known_deviation_rows=known, probe=probe,
          clauses=["ReasonConsistent", "DecisionImpliesClassifier", "ClassifierImpliesDecision", "ReasonClausesAlways",
                   "AllFinishedDecides", "DecisionMonotone"], wall_s=round(time.time() - t0, 2))


# ---- (2)/(3) retry and wait strategies ---------------------------------------------------------------------------

PINS = (0.0, 1e-9, 0.5, 1 - 1e-9)


@contextlib.contextmanager
def _pinned_random():
    """config.py calls random.random(); give the module its own `random` whose value we choose (nothing global changes)."""
    import aws_durable_execution_sdk_python.config as cfgmod
    box = {"v": 0.0}
    orig = cfgmod.random
    cfgmod.random = types.SimpleNamespace(random=lambda: box["v"])
    try:
        yield box
    finally:
        cfgmod.random = orig


def _rates(rate):
    num, den = rate
    out = [num / den]
    if den == 1:
        out.append(num)          # the int spelling (RetryPresets use backoff_rate=2)
    return out


def _delay_check(row, pin, delay):
    """-> None or text: delay within the model's range; exact for NONE; the range ends are attained at the extreme pins"""
    lo, hi = row["lo"], row["hi"]
    if not isinstance(delay, int) or isinstance(delay, bool):
        return f"delay_seconds {delay!r} is not an int"
    if not (lo <= delay <= hi):
        return f"delay {delay} outside the model's range [{lo}, {hi}]"
    if delay < 1 or delay > max(1, row["maxd"]):
        return f"delay {delay} outside [1, max_delay={row['maxd']}]"
    if row["jit"] == "NONE" and delay != lo:
        return f"jitter NONE: delay {delay} != {lo}"
    if pin == 0.0 and delay != lo:
        return f"random()=0.0 gives {delay}, the model's lower end is {lo}"
    if pin == PINS[-1] and delay != hi:
        return f"random()->1 gives {delay}, the model's upper end is {hi}"
    return None


class _Boom(ValueError):
    pass


def _retry_filters(row):
    """[(retryable_errors, retryable_error_types)] variants for the row's filter"""
    # plain strings are SUBSTRING filters (also when they contain regex metacharacters); compiled patterns are searched
    errs = {"none": [None], "match": [["boom"], [re.compile(r"bo+m h")], ["absent", "boom"], ["price $5"], ["absent", "(429)"], ["$5 ("]],
            "nomatch": [["absent"], [re.compile(r"^boom$")], [], ["b.om"], ["^boom"], ["boom|absent"]]}[row["errs"]]
    typs = {"none": [None], "match": [[ValueError], [KeyError, _Boom]], "nomatch": [[KeyError], [KeyError, OSError]]}[row["types"]]
    out = [(errs[i % len(errs)], typs[i % len(typs)]) for i in range(max(len(errs), len(typs)))]
    return out


def retry_tables(ctx):
    t0 = time.time()
    _rule(ctx, "policy tables: one case = one row of the TLC-enumerated Policy.tla table replayed into the real function")
    cfgname = "Policy_retry_quick.cfg" if ctx.quick else "Policy_retry.cfg"
    rows = _run_table(ctx, "retry", cfgname, "Policy.tla retry table (RetryDecision / DelayRange), clauses as invariants")
    mism = calls = 0
    with _real_sdk(), _pinned_random() as box:
        from aws_durable_execution_sdk_python.config import Duration, JitterStrategy
        from aws_durable_execution_sdk_python.retries import RetryPresets, RetryStrategyConfig, create_retry_strategy
        err = _Boom("boom happened: price $5 (429)")
        for row in rows:
            key = ("retry", row["ma"], row["n"], row["init"], row["maxd"], tuple(row["rate"]), row["jit"], row["errs"], row["types"])
            bad = None
            k = 0
            for rate in _rates(row["rate"]):
                for (re_errs, re_types) in _retry_filters(row):
                    conf = dict(max_attempts=row["ma"], initial_delay=Duration.from_seconds(row["init"]),
                                max_delay=Duration.from_seconds(row["maxd"]), backoff_rate=rate,
                                jitter_strategy=JitterStrategy[row["jit"]], retryable_errors=re_errs,
                                retryable_error_types=re_types)
                    try:
                        strat = create_retry_strategy(RetryStrategyConfig(**conf))
                    except Exception as e:  # noqa: BLE001
                        bad = f"the strategy cannot be built: {type(e).__name__}: {e}"
                        strat = None
                    for pin in (PINS if strat is not None else ()):
                        box["v"] = pin
                        k += 1
                        try:
                            d = strat(err, row["n"])
                            got = (d.should_retry, d.delay_seconds)
                        except Exception as e:  # noqa: BLE001
                            bad = f"raised {type(e).__name__}: {e}"
                            break
                        if got[0] != row["retry"]:
                            bad = f"should_retry={got[0]} but Policy.tla says {row['retry']}"
                        elif got[0]:
                            bad = _delay_check(row, pin, got[1])
                        if bad:
                            break
                    if bad:
                        bad += f" [backoff_rate={rate!r} retryable_errors={re_errs!r} retryable_error_types=" \
                               f"{[t.__name__ for t in re_types] if re_types else re_types} random()={pin}]"
                        break
                if bad:
                    break
            ctx.case(key, n=k)
            calls += k
            if bad:
                mism += 1
                ctx.violation("policy-model-mismatch",
                              f"retry strategy: {bad}; max_attempts={row['ma']} attempts_made={row['n']} initial_delay={row['init']} "
                              f"max_delay={row['maxd']} rate={row['rate']} jitter={row['jit']} filter=({row['errs']},{row['types']}) "
                              f"model range [{row['lo']},{row['hi']}]",
                              {"kind": "policy", "table": "retry", "row": row, "detail": bad})

        # packaged presets: delays in [1, max_delay], no retry at / after max_attempts, backoff followed when there is no jitter
        presets = {"none": (RetryPresets.none, 1, 300, 5, 2, "FULL"), "default": (RetryPresets.default, 6, 60, 5, 2, "FULL"),
                   "transient": (RetryPresets.transient, 3, 300, 5, 2, "HALF"),
                   "resource_availability": (RetryPresets.resource_availability, 5, 300, 5, 2, "FULL"),
                   "critical": (RetryPresets.critical, 10, 60, 1, 1.5, "NONE")}
        rng = random.Random(ctx.seed)
        preset_cases = 0
        for name, (mk, ma, maxd, init, rate, jit) in presets.items():
            strat = mk()
            for n in range(1, 13):
                b = min(init * rate ** (n - 1), maxd)
                hi = max(1, math.ceil(b))
                lo = {"NONE": hi, "FULL": 1, "HALF": max(1, math.ceil(b / 2))}[jit]
                for pin in PINS + tuple(rng.random() for _ in range(4)):
                    box["v"] = pin
                    preset_cases += 1
                    bad = None
                    try:
                        d = strat(RuntimeError("any"), n)
                    except Exception as e:  # noqa: BLE001
                        bad = f"raised {type(e).__name__}: {e}"
                    else:
                        if n >= ma and d.should_retry:
                            bad = f"retries at attempts_made={n} >= max_attempts={ma}"
                        elif n < ma and not d.should_retry:
                            bad = f"declines at attempts_made={n} < max_attempts={ma}"
                        elif d.should_retry and not (1 <= d.delay_seconds <= maxd):
                            bad = f"delay {d.delay_seconds} outside [1, {maxd}]"
                        elif d.should_retry and not (lo <= d.delay_seconds <= hi):
                            bad = f"delay {d.delay_seconds} does not follow backoff/jitter: expected [{lo}, {hi}]"
                    ctx.case(("retry-preset", name, n), n=1)
                    if bad:
                        ctx.violation("retry-preset-bounds", f"RetryPresets.{name}: {bad} (random()={pin})",
                                      {"kind": "policy", "table": "retry-preset", "preset": name, "attempts_made": n, "pin": pin})
                        break

        # large attempt numbers: rate ** (attempts_made - 1) is evaluated in floating point before the min() with max_delay
        overflow = _overflow_probe(ctx, "retry", lambda **kw: create_retry_strategy(RetryStrategyConfig(**kw)),
                                   lambda s, n: s(RuntimeError("x"), n), "retry-delay-overflow", box)
    ctx.sample({"policy_retry_row": next((r for r in rows if r["retry"] and r["jit"] == "HALF" and r["rate"] == [3, 2] and r["n"] == 3
                                          and r["maxd"] == 300 and r["init"] == 5), rows[-1])})
    _note(ctx, "retry", cfg=cfgname, rows=len(rows), real_calls=calls, mismatches=mism, preset_cases=preset_cases,
          pins=list(PINS), overflow_probe=overflow,
          clauses=["RetryBounded", "RetryFilter", "RetryOtherwise", "DelayWithinBounds", "DelayNoneExact", "BackoffMonotone",
                   "BackoffFirst"], wall_s=round(time.time() - t0, 2))


def _overflow_probe(ctx, what, make, call, sig, box):
    """A strategy asked about a large attempt number must still answer with a delay <= max_delay (or decline)."""
    from aws_durable_execution_sdk_python.config import Duration, JitterStrategy
    out = []
    reported = False
    configs = [dict(max_attempts=5000, backoff_rate=2.0, jitter_strategy=JitterStrategy.NONE),
               dict(max_attempts=5000, backoff_rate=1.5, jitter_strategy=JitterStrategy.FULL),
               dict(max_attempts=5000, backoff_rate=2, jitter_strategy=JitterStrategy.NONE),
               dict(max_attempts=5000)]     # every other field at its default
    for conf in configs:
        conf = dict(conf, initial_delay=Duration.from_seconds(5), max_delay=Duration.from_seconds(300)) if "backoff_rate" in conf else conf
        if what == "wait":
            conf["should_continue_polling"] = lambda st: True
        strat = make(**conf)
        box["v"] = 0.5
        first_bad = None
        res = None
        # exponential search for the first attempt number that raises
        for n in (10, 100, 1000, 1024, 1025, 1751, 1752, 2000, 4999):
            ctx.case((what + "-large-attempt", str(conf.get("backoff_rate", "default")), n))
            try:
                d = call(strat, n)
                delay = d.delay_seconds
                if not (1 <= delay <= 300):
                    first_bad, res = n, f"delay {delay} outside [1, 300]"
                    break
            except Exception as e:  # noqa: BLE001
                first_bad, res = n, f"{type(e).__name__}: {e}"
                break
        shown = {k: (v.value if hasattr(v, "value") else (v.to_seconds() if hasattr(v, "to_seconds") else v))
                 for k, v in conf.items() if k != "should_continue_polling"}
        out.append({"config": shown, "first_failing_attempts_made": first_bad, "result": res})
        if first_bad is not None and not reported:
            reported = True
            ctx.violation(sig,
                          f"{what} strategy with {shown} raises/misbehaves at attempts_made={first_bad}: {res} "
                          f"(expected a delay <= max_delay: the backoff rate ** (attempts_made - 1) is computed in floating point "
                          f"before it is capped)",
                          {"kind": "policy", "table": what + "-large-attempt", "config": shown, "attempts_made": first_bad,
                           "result": res})
    return out


def wait_tables(ctx):
    t0 = time.time()
    _rule(ctx, "policy tables: one case = one row of the TLC-enumerated Policy.tla table replayed into the real function")
    rows = _run_table(ctx, "wait", "Policy_wait.cfg", "Policy.tla wait table (WaitDecision / DelayRange), clauses as invariants")
    mism = calls = 0
    truthy = {True: [True, 1, "go", [0]], False: [False, 0, "", None, []]}
    with _real_sdk(), _pinned_random() as box:
        from aws_durable_execution_sdk_python.config import Duration, JitterStrategy
        from aws_durable_execution_sdk_python.waits import WaitStrategyConfig, create_wait_strategy
        for row in rows:
            key = ("wait", row["ma"], row["n"], row["init"], row["maxd"], tuple(row["rate"]), row["jit"], row["pred"])
            bad = None
            k = 0
            seen_states = []
            for rate in _rates(row["rate"]):
                for pv in truthy[row["pred"]][: (2 if ctx.quick else 9)]:
                    strat = create_wait_strategy(WaitStrategyConfig(
                        should_continue_polling=lambda st, pv=pv: (seen_states.append(st), pv)[1],
                        max_attempts=row["ma"], initial_delay=Duration.from_seconds(row["init"]),
                        max_delay=Duration.from_seconds(row["maxd"]), backoff_rate=rate, jitter_strategy=JitterStrategy[row["jit"]]))
                    for pin in PINS:
                        box["v"] = pin
                        k += 1
                        state = {"poll": k}
                        try:
                            d = strat(state, row["n"])
                            got = (d.should_wait, d.delay_seconds)
                        except Exception as e:  # noqa: BLE001
                            bad = f"raised {type(e).__name__}: {e}"
                            break
                        if seen_states[-1:] != [state]:
                            bad = "the predicate was not consulted with the state passed to the strategy"
                        elif got[0] != row["wait"]:
                            bad = f"should_wait={got[0]} but Policy.tla says {row['wait']}"
                        elif got[0]:
                            bad = _delay_check(row, pin, got[1])
                        if bad:
                            break
                    if bad:
                        bad += f" [backoff_rate={rate!r} predicate returns {pv!r} random()={pin}]"
                        break
                if bad:
                    break
            ctx.case(key, n=k)
            calls += k
            if bad:
                mism += 1
                ctx.violation("policy-model-mismatch",
                              f"wait strategy: {bad}; max_attempts={row['ma']} attempts_made={row['n']} initial_delay={row['init']} "
                              f"max_delay={row['maxd']} rate={row['rate']} jitter={row['jit']} predicate={row['pred']} "
                              f"model range [{row['lo']},{row['hi']}]",
                              {"kind": "policy", "table": "wait", "row": row, "detail": bad})
        overflow = _overflow_probe(ctx, "wait", lambda **kw: create_wait_strategy(WaitStrategyConfig(**kw)),
                                   lambda s, n: s({"st": 1}, n), "wait-delay-overflow", box)
    ctx.sample({"policy_wait_row": next((r for r in rows if r["wait"] and r["jit"] == "FULL" and r["rate"] == [2, 1] and r["n"] == 3
                                         and r["maxd"] == 10 and r["init"] == 5), rows[-1])})
    _note(ctx, "wait", cfg="Policy_wait.cfg", rows=len(rows), real_calls=calls, mismatches=mism, pins=list(PINS),
          overflow_probe=overflow,
          clauses=["WaitStopsOnPredicate", "WaitBounded", "WaitOtherwise", "DelayWithinBounds", "DelayNoneExact", "BackoffMonotone",
                   "BackoffFirst"], wall_s=round(time.time() - t0, 2))


# ---- (4) wrapper ---------------------------------------------------------------------------------------------

class _FakeBotoError(Exception):
    """what botocore's ClientError looks like to from_exception: str() and .response"""

    def __init__(self, text, response=None, has_response=True):
        super().__init__(text)
        if has_response:
            self.response = response


def _classify_variants(row):
    """[(description, exception)] : spellings of the same abstract row"""
    status = _none(row["status"])
    metas = [{"HTTPStatusCode": status, "RequestId": "r"}] if status is not None else [None, {"HTTPStatusCode": None}, {}, "absent"]
    tok = ["Invalid Checkpoint Token: x", "Invalid Checkpoint Token"]
    if row["err"]:
        codes = {"None": [("k", None), ("absent", None)], "Other": [("k", "Other"), ("k", "ThrottlingException")]}.get(
            row["code"], [("k", row["code"])])
        msgs = {"None": [("k", None), ("absent", None)], "other": [("k", "other"), ("k", " Invalid Checkpoint Token"), ("k", "")],
                "token": [("k", t) for t in tok]}[row["msg"]]
        errs = []
        for ck, cv in codes:
            for mk, mv in msgs:
                e = {"pad": 1}       # an Error structure is truthy even when Code and Message are missing
                if ck == "k":
                    e["Code"] = cv
                if mk == "k":
                    e["Message"] = mv
                errs.append(e)
    else:
        errs = ["absent", None, {}]
    out = []
    for m in metas:
        for e in errs:
            resp = {}
            if m != "absent":
                resp["ResponseMetadata"] = m
            if e != "absent":
                resp["Error"] = e
            out.append((f"response={resp}", _FakeBotoError("An error occurred", resp)))
    if status is None and not row["err"]:
        out.append(("no .response attribute", _FakeBotoError("plain", has_response=False)))
        out.append(("response={}", _FakeBotoError("plain", {})))
    return out


def _classification_table(ctx):
    rows = _run_table(ctx, "classify", "Policy_classify.cfg",
                      "Policy.tla checkpoint error classification table (ClassifyCheckpointError), clauses as invariants")
    from aws_durable_execution_sdk_python.exceptions import CheckpointError
    mism = calls = 0
    for row in rows:
        key = ("classify", row["status"], row["err"], row["code"], row["msg"])
        vs = _classify_variants(row)
        ctx.case(key, n=len(vs))
        calls += len(vs)
        for desc, exc in vs:
            try:
                ce = CheckpointError.from_exception(exc)
                got = (type(ce).__name__, ce.error_category.value, bool(ce.is_retriable()), str(ce))
            except Exception as e:  # noqa: BLE001
                got = ("raised", type(e).__name__, str(e)[:80], "")
            want = ("CheckpointError", row["category"], row["retriable"], str(exc))
            if got != want:
                mism += 1
                ctx.violation("classification-mismatch",
                              f"CheckpointError.from_exception({desc}) -> {got[:3]} but Policy.tla says "
                              f"({row['category']}, retriable={row['retriable']}) for status={_none(row['status'])} error={row['err']} "
                              f"code={row['code']} message={row['msg']}",
                              {"kind": "policy", "table": "classify", "row": row, "variant": desc, "real": list(got)})
                break
    return rows, calls, mism


class _FakeClient:
    """minimal in-memory DurableServiceClient; `fail_step` / `fail_exec`: exception to raise when a batch carries a STEP /
    EXECUTION update"""

    def __init__(self, fail_step=None, fail_exec=None):
        self.fail_step, self.fail_exec = fail_step, fail_exec
        self.calls = []
        self.n = 0

    def checkpoint(self, durable_execution_arn, checkpoint_token, updates, client_token):
        from aws_durable_execution_sdk_python.lambda_service import (CheckpointOutput, CheckpointUpdatedExecutionState,
                                                                     OperationType)
        kinds = [(u.operation_type, u.action, u.payload) for u in updates]
        self.calls.append(kinds)
        if self.fail_step is not None and any(k[0] is OperationType.STEP for k in kinds):
            raise self.fail_step
        if self.fail_exec is not None and any(k[0] is OperationType.EXECUTION for k in kinds):
            raise self.fail_exec
        self.n += 1
        return CheckpointOutput(checkpoint_token=f"tok{self.n}", new_execution_state=CheckpointUpdatedExecutionState())

    def get_execution_state(self, durable_execution_arn, checkpoint_token, next_marker, max_items=1000):
        from aws_durable_execution_sdk_python.lambda_service import StateOutput
        return StateOutput()

    def execution_updates(self):
        from aws_durable_execution_sdk_python.lambda_service import OperationType
        return [k for c in self.calls for k in c if k[0] is OperationType.EXECUTION]


class _LambdaCtx:
    aws_request_id = "req"
    log_group_name = None
    log_stream_name = None
    function_name = "f"
    memory_limit_in_mb = "128"
    function_version = "1"
    invoked_function_arn = "arn:aws:lambda:us-east-1:1:function:f"
    tenant_id = None
    client_context = None
    identity = None

    def get_remaining_time_in_millis(self):
        return 100000

    def log(self, msg):
        pass


# payloads the wrapper's own guard (KeyError / TypeError / AttributeError -> ExecutionError "Unexpected payload") covers
MALFORMED_EVENTS = [{}, {"DurableExecutionArn": "a"}, {"CheckpointToken": "t"}, None, "text", 7, [],
                    {"DurableExecutionArn": "a", "CheckpointToken": "t", "InitialExecutionState": "notadict"},
                    {"DurableExecutionArn": "a", "CheckpointToken": "t", "InitialExecutionState": {"Operations": [5]}}]
# malformed in a way the guard does not cover (an operation without Type: ValueError from the enum); a raise is what the
# property allows for a malformed payload, so this is recorded as an observation, not compared with the model's class
MALFORMED_UNGUARDED = [{"DurableExecutionArn": "a", "CheckpointToken": "t", "InitialExecutionState": {"Operations": [{"bad": 1}]}},
                       {"DurableExecutionArn": "a", "CheckpointToken": "t",
                        "InitialExecutionState": {"Operations": [{"Id": "e", "Type": "EXECUTION", "Status": "nope"}]}}]


def _wrapper_cell(cause, fault, big):
    """Build and run the real wrapper for one cell -> dict(kind, out / exc, client, value, threads)"""
    from aws_durable_execution_sdk_python import exceptions as X
    from aws_durable_execution_sdk_python.execution import (DurableExecutionInvocationInputWithClient, InitialExecutionState,
                                                            durable_execution)
    from aws_durable_execution_sdk_python.lambda_service import ExecutionDetails, Operation, OperationStatus, OperationType

    def ck(cat):
        return X.CheckpointError("checkpoint rejected", getattr(X.CheckpointErrorCategory, cat))

    value = {"ok": [1, "a", None]}
    if cause == "ret_large":
        value = big
    fail_step = {"bte_retriable": ck("EXECUTION"), "bte_nonretriable": ck("INVOCATION"),
                 "bte_other": RuntimeError("socket closed")}.get(cause)
    fail_exec = {"ckpt_retriable": ck("EXECUTION"), "ckpt_nonretriable": ck("INVOCATION")}.get(fault)
    client = _FakeClient(fail_step, fail_exec)

    def handler(event, dctx):
        if cause in ("ret_small", "ret_large"):
            return value
        if cause == "ret_nonjson":
            return {"x": object()}
        if cause == "raise_small":
            raise ValueError("user failure")
        if cause == "raise_large":
            raise ValueError(big)
        if cause == "raise_execerr":
            raise X.ExecutionError("fatal")
        if cause == "raise_callbackerr":
            raise X.CallbackError("cb", "id1")
        if cause == "raise_invocation":
            raise X.StepInterruptedError("interrupted", "s1")
        if cause == "suspend":
            raise X.SuspendExecution("wait")
        if cause == "timed_suspend":
            raise X.TimedSuspendExecution.from_delay("wait", 5)
        if cause == "raise_ckpt_retriable":
            raise ck("EXECUTION")
        if cause == "raise_ckpt_nonretriable":
            raise ck("INVOCATION")
        if cause.startswith("bte_"):
            dctx.step(lambda sc: 1, name="s")
            return "unreachable"
        raise AssertionError(cause)

    wrapped = durable_execution(handler)
    if cause == "malformed":
        events = MALFORMED_EVENTS + (MALFORMED_UNGUARDED if fault == "none" else [])
    else:
        op = Operation(operation_id="exec1", operation_type=OperationType.EXECUTION, status=OperationStatus.STARTED,
                       execution_details=ExecutionDetails(input_payload='{"k": 1}'))
        events = [DurableExecutionInvocationInputWithClient(
            durable_execution_arn="arn:aws:lambda:us-east-1:1:function:f:1/durable-execution/e1", checkpoint_token="tok0",
            initial_execution_state=InitialExecutionState(operations=[op], next_marker=""), service_client=client)]
    results = []
    for ev in events:
        box = {}

        def run(ev=ev, box=box):
            try:
                box["ret"] = wrapped(ev, _LambdaCtx())
            except BaseException as e:  # noqa: BLE001
                box["exc"] = e
        th = threading.Thread(target=run, name="policy-wrapper-cell", daemon=True)
        th.start()
        th.join(30)
        if th.is_alive():
            box["hang"] = True
        box["threads"] = [t.name for t in threading.enumerate() if t.name.startswith("dex-handler") and t.is_alive()]
        box["event"] = ev if cause == "malformed" else "injected-client"
        box["unguarded"] = cause == "malformed" and any(ev is u for u in MALFORMED_UNGUARDED)
        results.append(box)
    return results, client, value


ERROR_KEYS = {"ErrorMessage", "ErrorType", "ErrorData", "StackTrace"}


def _wrapper_compare(row, box, client, value, limit):
    """-> None or text describing how the real outcome differs from the model's cell / is malformed"""
    from aws_durable_execution_sdk_python import exceptions as X
    if box.get("hang"):
        return "the wrapper did not return within 30 s"
    if box["threads"]:
        return f"threads {box['threads']} still alive after the wrapper finished"
    if "exc" in box:
        e = box["exc"]
        if row["kind"] != "raise":
            return f"raised {type(e).__name__}: {str(e)[:80]} but the model says return {row['status']}"
        if box.get("unguarded"):
            return None
        if type(e).__name__ != row["exc"]:
            return f"raised {type(e).__name__}: {str(e)[:80]} but the model says raise {row['exc']}"
        why = row["why"]
        if why == "checkpoint_retriable" and not (isinstance(e, X.CheckpointError) and e.is_retriable()):
            return "raised a CheckpointError that is not retriable"
        if why == "invocation" and not isinstance(e, X.InvocationError):
            return "raised a non-InvocationError"
        if why == "payload" and not (isinstance(e, X.ExecutionError) and "Unexpected payload" in str(e)):
            return f"malformed payload raised {type(e).__name__}: {str(e)[:60]}"
        if why == "bg_source" and isinstance(e, (X.CheckpointError, X.BackgroundThreadError)):
            return "background failure re-raised as the wrong object"
        return None
    out = box.get("ret")
    if row["kind"] != "return":
        return f"returned {str(out)[:100]} but the model says raise {row['exc']}"
    if type(out) is not dict or out.get("Status") not in ("SUCCEEDED", "FAILED", "PENDING"):
        return f"malformed output {str(out)[:100]}"
    st = out["Status"]
    keys = set(out) - {"Status"}
    if st != row["status"]:
        return f"Status {st} but the model says {row['status']}"
    want_keys = set()
    if row["result"] in ("json", "empty"):
        want_keys.add("Result")
    if row["error"] == "present":
        want_keys.add("Error")
    if keys != want_keys:
        return f"{st} with keys {sorted(keys)} but the model says {sorted(want_keys)}"
    if "Result" in out:
        r = out["Result"]
        if not isinstance(r, str):
            return f"Result is {type(r).__name__}, not a JSON string"
        if row["result"] == "empty":
            if r != "":
                return "large result: Result should be empty (already checkpointed)"
            ups = client.execution_updates()
            if len(ups) != 1 or ups[0][1].value != "SUCCEED" or ups[0][2] != json.dumps(value):
                return f"large result: expected exactly one EXECUTION SUCCEED update carrying the result, saw {[(u[0].value, u[1].value, len(u[2] or '')) for u in ups]}"
        else:
            try:
                if json.loads(r) != value or r != json.dumps(value):
                    return f"Result {r[:60]} is not the JSON of the handler's value"
            except ValueError:
                return f"Result {r[:60]} is not JSON"
    if "Error" in out:
        er = out["Error"]
        if type(er) is not dict or set(er) - ERROR_KEYS or not isinstance(er.get("ErrorType"), str) \
                or not isinstance(er.get("ErrorMessage"), str):
            return f"Error object malformed: {str(er)[:100]}"
        want_type = {"ret_nonjson": "TypeError", "raise_small": "ValueError", "raise_execerr": "ExecutionError",
                     "raise_callbackerr": "CallbackError"}.get(row["cause"], "CheckpointError")
        if er["ErrorType"] != want_type:
            return f"ErrorType {er['ErrorType']} but expected {want_type}"
    if st == "FAILED" and row["error"] == "absent":
        ups = client.execution_updates()
        if len(ups) != 1 or ups[0][1].value != "FAIL":
            return "large failure: expected exactly one EXECUTION FAIL update before returning FAILED without Error"
    try:
        size = len(json.dumps(out))
    except (TypeError, ValueError) as e:
        return f"output is not JSON-serializable: {e}"
    if size > limit:
        return f"output of {size} bytes exceeds the response limit"
    return None


def _mro_drift(rows):
    """The model's class hierarchy (Ancestors) drives which except clause fires: compare the clause chosen by the real MRO."""
    from aws_durable_execution_sdk_python import exceptions as X
    chain = [X.BackgroundThreadError, X.SuspendExecution, X.CheckpointError, X.InvocationError, X.ExecutionError, Exception]
    expect = {"ValueError": "Exception", "TypeError": "Exception", "RuntimeError": "Exception", "ExecutionError": "ExecutionError",
              "CallbackError": "ExecutionError", "StepInterruptedError": "InvocationError", "CheckpointError": "CheckpointError",
              "SuspendExecution": "SuspendExecution", "TimedSuspendExecution": "SuspendExecution",
              "BackgroundThreadError": "BackgroundThreadError"}
    bad = []
    for name, clause in expect.items():
        cls = getattr(X, name, None) or getattr(__import__("builtins"), name)
        real = next((c.__name__ for c in chain if issubclass(cls, c)), "propagate")
        if real != clause:
            bad.append((name, clause, real))
    return bad


def wrapper_tables(ctx):
    t0 = time.time()
    _rule(ctx, "policy tables: one case = one row of the TLC-enumerated Policy.tla table replayed into the real function")
    with _real_sdk():
        crow, ccalls, cmism = _classification_table(ctx)
        t1 = time.time()
        rows = _run_table(ctx, "wrapper", "Policy_wrapper.cfg",
                          "Policy.tla wrapper outcome table (WrapperOutcome = except chain x large-result checkpoint fault), clauses as invariants")
        from aws_durable_execution_sdk_python.execution import LAMBDA_RESPONSE_SIZE_LIMIT
        big = "a" * (LAMBDA_RESPONSE_SIZE_LIMIT + 10)
        mism = runs = replayed = 0
        unguarded = []
        for name, clause, real in _mro_drift(rows):
            mism += 1
            ctx.violation("wrapper-outcome-mismatch",
                          f"class hierarchy drift: {name} is caught by `except {real}` in the real chain, the model says `except {clause}`",
                          {"kind": "policy", "table": "wrapper", "class": name})
        for row in rows:
            # quick tier: the fault is inert outside the two large-payload causes (invariant FaultInert), replay those cells once
            if ctx.quick and row["fault"] != "none" and row["cause"] not in ("ret_large", "raise_large"):
                continue
            replayed += 1
            results, client, value = _wrapper_cell(row["cause"], row["fault"], big)
            ctx.case(("wrapper", row["cause"], row["fault"]), n=len(results))
            runs += len(results)
            for box in results:
                if box.get("unguarded"):
                    unguarded.append({"event": repr(box["event"])[:160],
                                      "outcome": (f"raise {type(box['exc']).__name__}: {str(box['exc'])[:60]}" if "exc" in box
                                                  else f"return {str(box.get('ret'))[:80]}")})
                bad = _wrapper_compare(row, box, client, value, LAMBDA_RESPONSE_SIZE_LIMIT)
                if bad:
                    mism += 1
                    want = (f"raise {row['exc']} ({row['why']})" if row["kind"] == "raise"
                            else f"{row['status']} result={row['result']} error={row['error']}")
                    ctx.violation("wrapper-outcome-mismatch",
                                  f"wrapper cell cause={row['cause']} fault={row['fault']}: {bad}; Policy.tla WrapperOutcome = {want}"
                                  + (f"; event={box['event']!r}" if row["cause"] == "malformed" else ""),
                                  {"kind": "policy", "table": "wrapper", "row": row, "detail": bad, "event": repr(box["event"])[:200]})
                    break
    ctx.sample({"policy_classify_row": crow[len(crow) // 2]})
    ctx.sample({"policy_wrapper_row": next(r for r in rows if r["cause"] == "ret_large" and r["fault"] == "ckpt_retriable")})
    _note(ctx, "classify", cfg="Policy_classify.cfg", rows=len(crow), real_calls=ccalls, mismatches=cmism,
          clauses=["Class5xx", "ClassThrottle", "ClassNoStatus", "ClassBadToken", "Class4xx"],
          remark="a 4xx response without an Error structure is classified INVOCATION (not retried); Class4xx is stated with that guard",
          wall_s=round(t1 - t0, 2))
    _note(ctx, "wrapper", cfg="Policy_wrapper.cfg", rows=len(rows), rows_replayed=replayed, real_wrapper_runs=runs, mismatches=mism,
          malformed_payloads_outside_the_guard=unguarded,
          clauses=["RaisesOnlyRetryWorthy", "WellFormedReturn", "UserErrorsFail", "NonRetriableFails", "RetriableRaises",
                   "SuspendIsPending", "FaultNeverSucceeds", "FaultInert"], wall_s=round(time.time() - t1, 2))


# ---- replay of a recorded policy violation (replay dict kind == "policy") -----------------------------------------------

def replay(d) -> int:
    """Re-run the real function on the recorded row: `python -c "import json,sys; from checks import policy_tables as p;
    p.replay(json.load(open(sys.argv[1])))" <replay.json>` from /verif."""
    sc = d.get("replay", d)
    table, row = sc.get("table"), sc.get("row")
    print(json.dumps(sc, indent=1, default=str)[:3000])
    with _real_sdk():
        if table == "completion":
            print("real (should_complete, is_complete, should_continue, reason, replayed reason):", _completion_real(row))
        elif table in ("retry-large-attempt", "wait-large-attempt"):
            from aws_durable_execution_sdk_python.config import Duration, JitterStrategy
            from aws_durable_execution_sdk_python.retries import RetryStrategyConfig, create_retry_strategy
            from aws_durable_execution_sdk_python.waits import WaitStrategyConfig, create_wait_strategy
            conf = dict(sc["config"])
            for k in ("initial_delay", "max_delay"):
                if k in conf:
                    conf[k] = Duration.from_seconds(conf[k])
            if "jitter_strategy" in conf:
                conf["jitter_strategy"] = JitterStrategy[conf["jitter_strategy"]]
            try:
                if table.startswith("retry"):
                    print("real:", create_retry_strategy(RetryStrategyConfig(**conf))(RuntimeError("x"), sc["attempts_made"]))
                else:
                    conf["should_continue_polling"] = lambda st: True
                    print("real:", create_wait_strategy(WaitStrategyConfig(**conf))({"st": 1}, sc["attempts_made"]))
            except Exception as e:  # noqa: BLE001
                print("real: raised", type(e).__name__, e)
        elif table == "wrapper" and row:
            from aws_durable_execution_sdk_python.execution import LAMBDA_RESPONSE_SIZE_LIMIT
            results, client, value = _wrapper_cell(row["cause"], row["fault"], "a" * (LAMBDA_RESPONSE_SIZE_LIMIT + 10))
            for box in results:
                print("real:", {k: (str(v)[:200]) for k, v in box.items()},
                      "->", _wrapper_compare(row, box, client, value, LAMBDA_RESPONSE_SIZE_LIMIT))
    return 0
