"""Policy.tla table checks (G binding) - filled in below."""


def retry_tables(ctx):
    pass


def wait_tables(ctx):
    pass


def wrapper_tables(ctx):
    pass


def completion_tables(ctx):
    pass
