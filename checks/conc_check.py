"""Generic runner for the map/parallel checks (Executor.tla sweeps + campaigns of the real executor + oracles)."""
from __future__ import annotations

import random

from checks import oracles
from checks.durable_check import ASSUME, replay_execution
from checks.durable_common import run_campaign
from checks.executor_common import CURATED_CONC, conc_scenario, executor_sweep, gen_conc_program


def run_conc(ctx, *, invs, oracle_fns, programs=None, n_random=(10, 120), n_scen=(5, 14), sweep_kw=None, extra_rule="", post=None):
    ctx.rule = ("model: every reachable state of Executor.tla for each (branch scripts, max_concurrency, completion config) of the sweep; "
                "implementation: one case = one distinct (program with map/parallel, scenario) multi-invocation execution of the real SDK "
                "under detsched (random / PCT schedules, function durations, API latency, crashes), checked by direct oracles. " + extra_rule)
    ctx.assumptions += ASSUME
    rng = random.Random(ctx.seed * 104729 + sum(map(ord, ctx.pid)))
    executor_sweep(ctx, invs, tag=f"ex_{ctx.pid}", budget=(7 if ctx.quick else None), **(sweep_kw or {}))
    progs = [CURATED_CONC[p] for p in (programs or list(CURATED_CONC))]
    for _ in range(n_random[0] if ctx.quick else n_random[1]):
        progs.append(gen_conc_program(rng))
    items = []
    for p in progs:
        for _ in range(n_scen[0] if ctx.quick else n_scen[1]):
            items.append((p, conc_scenario(rng, p)))
    execs = run_campaign(ctx, items)
    ctx.notes["executions"] = len(execs)
    fo = {}
    for e in execs:
        fo[e.final] = fo.get(e.final, 0) + 1
    ctx.notes["final_outcomes"] = fo
    for e in execs:
        for fn in oracle_fns:
            fn(ctx, e)
    if post:
        post(ctx, execs)
    validate_exec_traces(ctx, execs, invs)
    if execs:
        e = execs[0]
        ctx.sample({"program": e.prog, "scenario": e.sc, "outcomes": [i.outcome for i in e.invocations],
                    "stream": [(u["inv"], u["name"], u["type"], u["action"]) for u in e.backend.stream][:14]})
    return execs


def validate_exec_traces(ctx, execs, invs, name=None):
    """ExecutorTrace: the invocation in which the (single top-level) map/parallel of a program first executes."""
    from checks.durable_common import scen_of
    from checks.executor_common import VARIANT
    from harness import exec_trace
    from lib import tracecheck
    traces, scens, skipped = [], [], 0
    for e in execs:
        try:
            ts, sk = exec_trace.convert_all(e)
        except exec_trace.Unsupported as u:
            skipped += 1
            exec_trace.note_skip(u)
            continue
        skipped += sk
        for t in ts:
            traces.append(t)
            scens.append(scen_of(e))
    ctx.notes["exec_traces_reinvocations"] = sum(1 for t in traces if t["cf"]["pre"])
    ctx.notes["exec_traces_skipped"] = skipped
    ctx.notes["exec_traces_skip_reasons"] = dict(sorted(exec_trace.SKIP_REASONS.items(), key=lambda kv: -kv[1]))
    if not traces:
        return
    cfg = ["SPECIFICATION TraceSpec", "CONSTANTS",
           f"  FixOrphanParent = {'TRUE' if VARIANT.get('FixOrphanParent') else 'FALSE'}",
           f"  FixBteBranch = {'TRUE' if VARIANT.get('FixBteBranch') else 'FALSE'}",
           f"  FixEmpty = {'TRUE' if VARIANT.get('FixEmpty') else 'FALSE'}", "  ResetFirst = TRUE",
           f"  AtomicCallback = {'TRUE' if VARIANT.get('AtomicCallback') else 'FALSE'}",
           f"  FixAncestorWalk = {'TRUE' if VARIANT.get('FixAncestorWalk') else 'FALSE'}",
           f"  ResubmitUnderLock = {'TRUE' if VARIANT.get('ResubmitUnderLock', True) else 'FALSE'}",
           f"  FixStepGuard = {'TRUE' if VARIANT.get('FixStepGuard', False) else 'FALSE'}",
           "CONSTRAINT Progress", "CONSTRAINT Prune"] + [f"INVARIANT {i}" for i in invs] + ["POSTCONDITION Accepted", "CHECK_DEADLOCK FALSE"]
    bound = {"C09": {"OnDone", "Build", "ExReturn", "BodyStart"}, "C10": {"Ckpt", "BodyEnd", "ParentCkpt"},
             "C01": {"Ckpt", "BodyStart", "BodyEnd"}, "C04": {"Ckpt", "BodyStart"}, "C12": {"Ckpt", "BodyEnd", "Resubmit"},
             "C14": {"Ckpt", "BodyEnd"}, "C02": {"Build", "Ckpt"}, "C16": {"Build", "Ckpt"},
             "C07": {"EvSet", "ExReturn", "Resubmit", "Refresh", "BodyStart", "BodyEnd"}, "C06": {"EvSet", "ExReturn", "BodyEnd", "Refresh"}, "C08": set()}

    def classify(trace, scen, reached):
        evs = trace["evs"]
        nxt = evs[reached - 1] if 0 <= reached - 1 < len(evs) else {"ev": "?"}
        if nxt["ev"] in bound.get(ctx.pid, set()):
            return f"conformance-{nxt['ev']}"
        lst = ctx.notes.setdefault("conformance_mismatch_outside_property", [])
        if len(lst) < 5:
            lst.append({"event": nxt, "matched": reached - 1, "program": scen["prog"]})
        return "__note__"
    tracecheck.validate(ctx, "ExecutorTrace", "", traces, scens, name or f"{ctx.pid.lower()}_extrace", cfg_text="\n".join(cfg) + "\n",
                        classify=classify,
                        label=f"trace validation of {len(traces)} real map/parallel executions against Executor.tla")
    ctx.violations = [v for v in ctx.violations if v[0] != "__note__"]
