"""C02 - replay transparency: interruptions never change what the workflow observes."""
from checks import oracles
from checks.durable_check import replay_execution, run_durable


def run(ctx):
    run_durable(ctx,
                model=["s02_amo_retry_caughtfail", "s05_wfcb_childfail_wfcfail", "s13_child_raises_caught", "s04_cb_invoke", "s19_wfcfail_then_wait"],
                programs=["s02_amo_retry_caughtfail", "s04_cb_invoke", "s05_wfcb_childfail_wfcfail", "s10_uncaught_failure",
                          "s13_child_raises_caught", "s14_amo_exhaust", "s15_cb_uncaught", "s17_child_wfc_inside", "s19_wfcfail_then_wait",
                          {"nodes": [{"k": "step", "val": v} for v in (1, 2, 4)] + [{"k": "wait"}, {"k": "step", "val": 5}, {"k": "step", "val": 6}]},
                          {"nodes": [{"k": "child", "body": [{"k": "step", "val": 3}, {"k": "step", "val": 9}]}, {"k": "wait"}, {"k": "step", "val": 0}]},
                          # every value of the richer domain (aware datetime with an offset, Decimal with trailing zeros, bytes / uuid /
                          # date / tuple keys, big ints) is recorded BEFORE a suspension, so that it is always delivered again from its record
                          {"nodes": [{"k": "step", "val": 5}, {"k": "step", "val": 4}, {"k": "wait"}, {"k": "step", "val": 6}, {"k": "step", "val": 9},
                                     {"k": "wait"}, {"k": "step"}]},
                          {"nodes": [{"k": "par", "branches": [[{"k": "step", "val": 5}], [{"k": "step", "val": 6}, {"k": "wait", "s": 1}]]}, {"k": "wait"},
                                     {"k": "step", "val": 2}]},
                          # user code that modifies delivered values in place (lists, dicts), replayed several times in one process, and
                          # two positions with equal recorded values: no later delivery may see the modification
                          {"nodes": [{"k": "step", "val": 1, "mutate": True}, {"k": "wait"}, {"k": "step", "val": 1, "mutate": True}, {"k": "wait"},
                                     {"k": "step", "val": 0, "mutate": True}, {"k": "wait"}, {"k": "step"}]},
                          {"nodes": [{"k": "child", "mutate": True, "body": [{"k": "step", "val": 1, "mutate": True}, {"k": "step", "val": 1}]},
                                     {"k": "wait"}, {"k": "cb", "between": [], "mutate": True}, {"k": "wait"}, {"k": "wait"}]},
                          # ... or a very long one (40 KB): what the first failing run raised is what every replay raises
                          {"nodes": [{"k": "step", "fail": -1, "max": 1, "caught": True, "errmsg": "<long>"}, {"k": "wait"},
                                     {"k": "child", "caught": True, "body": [{"k": "step", "fail": -1, "max": 2, "errmsg": "<long>", "errtype": "ValueError"}]},
                                     {"k": "wait"}, {"k": "step"}]},
                          # failures whose exception carries an empty / no message (a falsy field of the recorded error)
                          {"nodes": [{"k": "step", "fail": -1, "max": 1, "caught": True, "errmsg": ""}, {"k": "wait"},
                                     {"k": "step", "fail": -1, "max": 2, "caught": True, "errmsg": "<none>", "errtype": "ValueError"}, {"k": "wait"}]},
                          {"nodes": [{"k": "child", "caught": True, "body": [{"k": "step", "fail": -1, "max": 1, "errmsg": ""}]}, {"k": "wait"}, {"k": "step"}]},
                          # a branch that parks on a timer and is resumed IN-PROCESS (its sibling is still running) re-traverses its body: the
                          # operations it passes again are the same operations, and a later invocation is told the same things
                          {"nodes": [{"k": "par", "branches": [[{"k": "step", "val": 8}, {"k": "wait", "s": 1}, {"k": "step", "val": 2}],
                                                               [{"k": "step", "dur": 3}]]}, {"k": "wait"}, {"k": "step"}]},
                          {"nodes": [{"k": "map", "maxc": 2, "branches": [[{"k": "step"}, {"k": "step", "fail": 1, "max": 2, "delay": 1}, {"k": "step", "val": 4}],
                                                                          [{"k": "step", "dur": 2.5}, {"k": "wait", "s": 1}, {"k": "step"}]]}, {"k": "wait"}, {"k": "step"}]},
                          # map / parallel: small and oversized (ReplayChildren) results, early completion, failures caught by class
                          {"nodes": [{"k": "map", "branches": [[{"k": "step", "val": 2}], [{"k": "step"}, {"k": "wait"}], [{"k": "step", "val": 6}]]},
                                     {"k": "wait"}, {"k": "step"}]},
                          {"nodes": [{"k": "par", "explicit_cfg": True, "large_items": [0, 1], "cfg": {"min": 2},
                                      "branches": [[{"k": "step"}], [{"k": "step"}], [{"k": "wait", "s": 5}]]}, {"k": "wait"}, {"k": "step"}]},
                          {"nodes": [{"k": "map", "explicit_cfg": True, "large_items": [0, 1, 2], "cfg": {"tolc": 1}, "braise": [3], "caught": True,
                                      "branches": [[{"k": "step"}], [{"k": "step"}], [{"k": "step"}], []]}, {"k": "wait"}, {"k": "step"}]},
                          {"nodes": [{"k": "par", "caught": True, "braise": [1], "branches": [[{"k": "step", "dur": 0.3}], []]}, {"k": "wait"}]}],
                oracle_fns=[oracles.c02],
                n_scen=(6, 16),
                scen_kw={"crash": 0.6, "paging": 0.4},
                post=oracles.c02_outcome_independent,
                extra_rule="Oracle: per call position all deliveries (typed repr of values; class|message of errors) are equal across "
                           "invocations; same program + same external outcomes under different interruption patterns => same final outcome.")


replay = replay_execution
