"""C14 - callbacks and invokes: stable identity, faithful outcome, deferred errors."""
from checks import oracles
from checks.durable_check import replay_execution, run_durable


def payload_sweep(ctx, execs):
    """every callback program x every 'awkward' success payload (empty, falsy-looking, JSON-looking) x completion before / after
    the invocation that created the callback suspended"""
    from checks.durable_common import CURATED, run_campaign
    progs = [CURATED["s15_cb_uncaught"], CURATED["s04_cb_invoke"],
             {"nodes": [{"k": "cb", "between": [{"k": "step", "dur": 0.3}]}, {"k": "step"}]}]
    items = []
    for p in progs:
        paths = [str(k) for k, n in enumerate(p["nodes"], 1) if n["k"] == "cb"]
        for payload in ["", "0", "null", "false", " ", "{}", "[]", "\"\""]:
            for k in range(1 if ctx.quick else 4):
                items.append((p, {"seed": 140 + k, "ext": {q: ["SUCCEEDED", payload] for q in paths}, "max_inv": 12,
                                  "ext_order": "ext_first", "api_latency": [0.0, 0.3][k % 2]}))
    # invoke results that are strings which themselves look like JSON (the default serdes must decode exactly once)
    import json as _json
    inv_prog = {"nodes": [{"k": "invoke"}, {"k": "step"}]}
    for k, res in enumerate(["12345", "true", "null", "{\"status\": \"ok\"}", "[1, 2, 3]", "plain text", "\"quoted\"", 7, None, [1, "2"]]):
        items.append((inv_prog, {"seed": 190 + k, "ext": {"1": ["SUCCEEDED", _json.dumps(res)]}, "max_inv": 8,
                                 "ext_order": "ext_first", "api_latency": (0.0, 0.3)[k % 2]}))
    # the external party completes the callback WHILE the invocation that created it is still running (between create_callback and
    # result()), at every scheduling step of the code in between: the completion reaches the SDK in the answer of whichever
    # checkpoint call comes next (synchronous or fire-and-forget)
    mid = {"nodes": [{"k": "cb", "between": [{"k": "step", "dur": 0.3}, {"k": "step"}]}, {"k": "step"}]}
    for at in range(4, 160, (12 if ctx.quick else 3)):
        for lat in (0.0, 0.05):
            items.append((mid, {"seed": 150 + at, "ext_mid": [[at, "1", "SUCCEEDED", "mid-payload"]], "api_latency": lat, "max_inv": 12}))
    # callbacks / invokes inside a map / parallel branch that is resumed IN-PROCESS (a sibling is still running)
    conc = [{"nodes": [{"k": "par", "branches": [[{"k": "invoke", "caught": True}, {"k": "step"}], [{"k": "step", "dur": 2.0}]]}, {"k": "step"}]},
            {"nodes": [{"k": "par", "branches": [[{"k": "cb", "between": [{"k": "wait", "s": 1}]}], [{"k": "step", "dur": 3.0}]]}, {"k": "step"}]},
            {"nodes": [{"k": "map", "branches": [[{"k": "wait", "s": 1}, {"k": "cb", "between": [], "caught": True}],
                                                 [{"k": "step", "dur": 2.5}, {"k": "invoke", "caught": True}]]}, {"k": "step"}]}]
    for p in conc:
        for k in range(2 if ctx.quick else 8):
            items.append((p, {"seed": 170 + k, "api_latency": (0.3, 0.05)[k % 2], "max_inv": 12, "strategy": "pct" if k % 2 else "random"}))
    # invoke payloads of every JSON shape, including strings whose text is itself JSON (must go out encoded exactly once)
    for k, pl in enumerate(["12345", "true", "null", "{\"order\": 7}", "[1, 2]", "plain text", "", 0, None, False, [1, "2"], {"a": {"b": None}}, 3.5]):
        items.append(({"nodes": [{"k": "invoke", "payload": pl, "caught": True}, {"k": "step"}]}, {"seed": 190 + k, "max_inv": 8}))
    out = run_campaign(ctx, items)
    for e in out:
        oracles.c14(ctx, e)
        oracles.c02(ctx, e)
    return out


def run(ctx):
    progs = ["s04_cb_invoke", "s05_wfcb_childfail_wfcfail", "s11_invoke_uncaught", "s15_cb_uncaught", "s18_wfcb_retry_submit",
             {"nodes": [{"k": "cb", "between": [{"k": "step"}, {"k": "wait"}], "caught": True}, {"k": "step"}]},
             {"nodes": [{"k": "invoke", "caught": True}, {"k": "cb", "between": [{"k": "step", "fail": 1, "max": 2}], "caught": True}]},
             {"nodes": [{"k": "child", "body": [{"k": "cb", "between": [{"k": "step"}], "caught": True}, {"k": "invoke", "caught": True}]}]}]
    run_durable(ctx, model=["s04_cb_invoke", "s11_invoke_uncaught", "s15_cb_uncaught", "s18_wfcb_retry_submit"],
                programs=progs, oracle_fns=[oracles.c14, oracles.c07],
                gen_kw={"kinds": ["cb", "cb", "invoke", "invoke", "step", "wfcb", "child"]},
                n_scen=(8, 20),
                scen_kw={"crash": 0.4, "paging": 0.3, "ext_fail": 0.7},
                post=payload_sweep,
                extra_rule="The backend model plays the external party with every terminal status (SUCCEEDED / FAILED / TIMED_OUT / STOPPED / "
                           "CANCELLED for callbacks) in every order relative to invocations. Oracle: callback id equal in every invocation and "
                           "backend-issued, create never raises, result faithful, one START, code between create and result completes.")


replay = replay_execution
