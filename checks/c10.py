"""C10 - nothing is recorded under a context after that context has completed."""
from checks import oracles
from checks.conc_check import run_conc
from checks.durable_check import replay_execution
from checks.executor_common import STRICT, c10


def run(ctx):
    run_conc(ctx, invs=STRICT["C10"], oracle_fns=[c10],
             programs=["m02_first_successful", "m03_failure", "m07_min_with_failure", "m08_nested", "m11_tolerance", "m01_all_ok",
                       "m16_ctx_fails_with_straggler"],
             n_scen=(8, 20),
             extra_rule="Early-completion configurations with surviving branches inside a user function (function durations), between "
                        "operations, about to start a new operation or a nested map. Oracle on the backend's update stream: no update whose "
                        "ancestor chain contains a context whose SUCCEED/FAIL precedes it.")


replay = replay_execution
