"""C10 - nothing is recorded under a context after that context has completed."""
from checks import oracles
from checks.conc_check import run_conc
from checks.durable_check import replay_execution
from checks.executor_common import STRICT, c10, c10_no_function_under_completed_context


def model_extra(ctx, execs):
    """branch contexts that already exist (re-invocation) + the pinned variant of the orphan check as a regression of the model"""
    from checks.executor_common import exec_mc, executor_sweep
    from lib.tlcrun import MachineryError, require_ok, run_tlc
    executor_sweep(ctx, STRICT["C10"], tag="ex_C10_pre", pre=(2,), budget=(3 if ctx.quick else None),
                   scripts_sets=[[["ok"], ["step", "step", "ok"]], [["step", "ok"], ["tsusp", "step", "ok"], ["fail"]]],
                   configs=[(0, 1, 99, 999), (0, 0, 0, 999), (1, 1, 99, 999)])
    # retrying steps: the READY attempt after an in-process resubmission (no update before the function) + the pinned variant
    executor_sweep(ctx, STRICT["C10"] + ["NoFunctionAfterParentDone"], tag="ex_C10_retry", budget=(2 if ctx.quick else None),
                   scripts_sets=[[["step", "ok"], ["sfail", "sretry", "step", "ok"]], [["sfinal", "fail"], ["sfail", "sretry", "ok"], ["step", "ok"]]],
                   configs=[(0, 1, 99, 999), (0, 0, 0, 999)])
    mod, cfg = exec_mc("exp_C10_noguard", [["step", "ok"], ["sfail", "sretry", "step", "ok"]], 0, 1, 99, 999, ["NoDescendantAfterParentDone"],
                       step_guard=False)
    res = run_tlc(mod, cfg, "exp_C10_noguard", timeout_s=900)
    require_ok(res, "Executor.tla probe FixStepGuard=FALSE")
    ctx.add_tlc(res, "probe: without the explicit orphan check a READY retry attempt runs its function under a completed context")
    if res.ok or res.violated != "NoDescendantAfterParentDone":
        raise MachineryError(f"probe FixStepGuard=FALSE: expected NoDescendantAfterParentDone to fail, got ok={res.ok} {res.violated}")
    mod, cfg = exec_mc("exp_C10_nowalk", [["ok"], ["step", "step", "ok"]], 0, 1, 99, 999, ["NoDescendantAfterParentDone"], pre=(2,),
                       ancestor_walk=False)
    res = run_tlc(mod, cfg, "exp_C10_nowalk", timeout_s=600)
    require_ok(res, "Executor.tla probe FixAncestorWalk=FALSE")
    ctx.add_tlc(res, "probe: without the ancestor walk a re-entered (pre-existing) branch context records behind its parent's completion")
    if res.ok or res.violated != "NoDescendantAfterParentDone":
        raise MachineryError(f"probe FixAncestorWalk=FALSE: expected NoDescendantAfterParentDone to fail, got ok={res.ok} {res.violated}")


def resume_vs_completion(ctx, execs):
    """a surviving branch is resumed by the timer thread (its step / condition is READY) at about the moment the call completes early:
    every offset of the deciding sibling's end around the resume"""
    import random
    from checks.durable_common import run_campaign
    rng = random.Random(ctx.seed + 1010)
    items = []
    for d in [round(0.86 + 0.02 * k, 2) for k in range(0, 18, (2 if ctx.quick else 1))]:
        for body in ([{"k": "wfc", "polls": 3, "delay": 1}, {"k": "step"}], [{"k": "step", "fail": 2, "max": 3, "delay": 1}, {"k": "step"}]):
            p = {"nodes": [{"k": "par", "cfg": {"min": 1}, "branches": [[{"k": "step", "dur": d}], body]}, {"k": "step", "dur": 1.5}, {"k": "step"}]}
            for rep in range(2 if ctx.quick else 6):
                items.append((p, {"seed": rng.randrange(1 << 30), "max_inv": 12, "api_latency": (0.05, 0.0)[rep % 2],
                                  "strategy": "pct" if rep % 2 else "random"}))
            # the worker that re-traverses the surviving branch is descheduled right after it starts (<= 0.5 virtual s): the call
            # completes in between, and the branch reaches its READY operation as an orphan
            items.append((p, {"seed": rng.randrange(1 << 30), "max_inv": 12, "api_latency": 0.05,
                              "slow_after": {"start": {"ev": "BodyStart", "i": 2}, "nth": 2}}))
    # a surviving branch is blocked in the SYNCHRONOUS START of an at-most-once step (0.3 s call) while the call completes
    for d in [round(0.05 * k, 2) for k in range(0, 30, (3 if ctx.quick else 1))]:
        p = {"nodes": [{"k": "par", "cfg": {"min": 1}, "branches": [[{"k": "step", "dur": d}],
                                                                     [{"k": "step", "dur": 0.2}, {"k": "step", "sem": "AMO"}, {"k": "step"}]]},
                       {"k": "step", "dur": 1.5}, {"k": "step"}]}
        items.append((p, {"seed": rng.randrange(1 << 30), "max_inv": 12, "api_latency": 0.3}))
    out = run_campaign(ctx, items)
    for e in out:
        c10(ctx, e)
        c10_no_function_under_completed_context(ctx, e)
    model_extra(ctx, execs)


def run(ctx):
    run_conc(ctx, invs=STRICT["C10"], oracle_fns=[c10, c10_no_function_under_completed_context],
             programs=["m02_first_successful", "m03_failure", "m07_min_with_failure", "m08_nested", "m11_tolerance", "m01_all_ok",
                       "m16_ctx_fails_with_straggler", "m17_reinvoke_early_completion", "m20_reinvoke_nested_straggler",
                       "m21_oversized_early_straggler", "m22_oversized_early_parked", "m23_oversized_early_failing_straggler"],
             post=resume_vs_completion,
             n_scen=(8, 20),
             extra_rule="Early-completion configurations with surviving branches inside a user function (function durations), between "
                        "operations, about to start a new operation or a nested map. Oracle on the backend's update stream: no update whose "
                        "ancestor chain contains a context whose SUCCEED/FAIL precedes it.")


replay = replay_execution
