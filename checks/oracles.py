"""Direct oracles on recorded executions of the real SDK (independent of TLC): each states one clause of a
property on what was observed (function entries, deliveries, the backend's update stream, invocation outcomes)."""
from __future__ import annotations

import json

from checks.durable_common import scen_of
from harness.interp import path_id

TERMINAL = {"SUCCEEDED", "FAILED", "CANCELLED", "TIMED_OUT", "STOPPED"}


def node_index(prog):
    """path -> node dict (sequential programs; branches of map/par as <path>/b<i>/...)"""
    out = {}

    def walk(nodes, prefix):
        i = 0
        for n in nodes:
            if n["k"] == "log":
                continue
            i += 1
            p = f"{prefix}{i}"
            out[p] = n
            if n["k"] == "cb":
                extra = [b for b in n.get("between", []) if b["k"] != "log"]
                comps = p.split("/")
                for j, b in enumerate(extra, 1):
                    out["/".join(comps[:-1] + [str(int(comps[-1]) + j)])] = b
                i += len(extra)
            elif n["k"] == "child":
                walk(n.get("body", []), p + "/")
            elif n["k"] == "wfcb":
                out[p + "/2"] = {"k": "step", "fail": n.get("fail", 0), "max": n.get("max", 1), "_submitter": True}
            elif n["k"] in ("map", "par"):
                for bi, body in enumerate(n["branches"]):
                    walk(body, f"{p}/b{bi}/")
    walk(prog["nodes"], "")
    return out


def events(e, name):
    return [x for x in e.trace if x.get("ev") == name]


# ---- C01 ---------------------------------------------------------------------------------------------------
def c01(ctx, e):
    for ev in events(e, "FnEnter"):
        if ev.get("be") in TERMINAL:
            ctx.violation("reexecuted-after-terminal",
                          f"user function of {ev['path']} entered (attempt {ev['attempt']}, invocation {ev['inv']}) although the backend "
                          f"already recorded {ev['be']}", scen_of(e))
            return
    # every LATER call at the same position (i.e. every call after the one that completed the operation) yields the same,
    # recorded, outcome
    for path, dl in e.rec.delivered.items():
        later = [(k, r) for (_, k, r) in dl][1:]
        if len(set(later)) > 1:
            ctx.violation("replay-yields-different-outcome", f"{path} delivered {sorted(set(later))[:3]} in different invocations", scen_of(e))
            return
        first = dl[0]
        if later and first[1] == "value" and later[0] != (first[1], first[2]):
            # an oversized map / parallel result is rebuilt from the children's records: two named, unrepaired deviations of that
            # rebuild (straggler statuses, error type) are the same defect as seen from C02 / C09 / C16
            sig = None
            if first[2].startswith("BatchResult[") and later[0][0] == "value":
                from checks.executor_common import classify_batch_divergence
                sig = classify_batch_divergence(first[2], later[0][1])
            ctx.violation(sig or "replay-yields-different-outcome",
                          f"{path}: first completion delivered {first[2][:60]}, replay {later[0][1][:60]}", scen_of(e))
            if sig is None:
                return


    # ... and a replayed FAILURE raises the RECORDED error: message and type of the backend's error object
    for path, dl in e.rec.delivered.items():
        if "#" in path:
            continue            # pseudo positions (callback creation / result)
        rec = e.backend.ops.get(path_id(path))
        if rec is None or rec.get("Status") != "FAILED" or rec.get("Type") not in ("STEP", "CONTEXT") or not isinstance(rec.get("_error"), dict):
            continue
        want_msg, want_type = rec["_error"].get("ErrorMessage"), rec["_error"].get("ErrorType")
        for (_, k, r) in dl[1:]:
            if k != "error" or not r.startswith("CallableRuntimeError|"):
                continue
            parts = r.split("|")
            got_msg, got_type = "|".join(parts[1:-1]), parts[-1]
            if (isinstance(want_msg, str) and got_msg != want_msg) or (isinstance(want_type, str) and got_type != want_type):
                ctx.violation("replay-raises-different-error",
                              f"{path}: the backend recorded ErrorType={want_type!r} ErrorMessage={want_msg!r}, a later call raised "
                              f"type={got_type!r} message={got_msg[:60]!r}", scen_of(e))
                return


# ---- C02 ---------------------------------------------------------------------------------------------------
def c02(ctx, e):
    nodes = node_index(e.prog)
    for path, dl in e.rec.delivered.items():
        # invocation-level errors (StepInterruptedError) tear the invocation down and must be left to propagate: not an observation
        comp = [(k, r) for (_, k, r) in dl if not r.startswith("StepInterruptedError")]
        if len(set(comp)) > 1:
            n = nodes.get(path, {})
            if n.get("k") == "wfc" and any(r.startswith("UserError") for _, r in comp):
                ctx.violation("wfc-original-exception",
                              f"wait_for_condition at {path} raised the original exception on the failing run but "
                              f"CallableRuntimeError on replay: {sorted(set(r.split('|')[0] for _, r in comp))}", scen_of(e))
                continue
            if n.get("k") in ("map", "par"):
                from checks.executor_common import classify_batch_divergence
                reps = [r for (_, r) in comp]
                sig = classify_batch_divergence(reps[0], next(x for x in reps if x != reps[0]))
                if sig:
                    ctx.violation(sig, f"{path}: {reps[0][:70]} ... differs on replay", scen_of(e))
                    continue
            ctx.violation("observation-diverged", f"{path} delivered different things across invocations: "
                                                  f"{[(k, r[:80]) for k, r in sorted(set(comp))][:3]}", scen_of(e))
            return


def c02_outcome_independent(ctx, execs):
    """same program, different interruption patterns (no fault, same external outcomes) => same final outcome"""
    groups = {}
    for e in execs:
        if e.final not in ("SUCCEEDED", "FAILED"):
            continue
        if e.sc.get("faults"):
            continue
        key = (json.dumps(e.prog, sort_keys=True), json.dumps(e.sc.get("ext") or {}, sort_keys=True))
        last = e.invocations[-1]
        res = (e.final, (last.result or {}).get("Result"), json.dumps((last.result or {}).get("Error"), sort_keys=True))
        # a crash inside an at-most-once attempt legitimately changes the outcome (StepInterrupted): keep those apart
        amo_hit = any(x.get("ev") == "Deliver" and "StepInterruptedError" in x.get("rep", "") for x in e.trace) or \
            any(x.get("ev") == "StrategyCall" and x.get("err") == "StepInterruptedError" for x in e.trace)
        groups.setdefault((key, amo_hit), []).append((res, e))
    for (key, amo), lst in groups.items():
        if amo:
            continue
        distinct = {}
        for res, e in lst:
            distinct.setdefault(res, e)
        if len(distinct) > 1:
            items = list(distinct.items())
            nodes = node_index(items[0][1].prog)
            if any(n.get("k") in ("map", "par") and (n.get("large_item") or n.get("large_items")) for n in nodes.values()):
                ctx.violation("replay-children-error-type", "final outcome differs with the interruption pattern because an oversized "
                              "map/parallel result is rebuilt differently on replay", scen_of(items[1][1]))
                continue
            if any(n.get("k") == "wfc" and n.get("fail_at") for n in nodes.values()):
                ctx.violation("wfc-original-exception", "final outcome differs with the interruption pattern because a failing "
                              "wait_for_condition raises a different exception class on replay", scen_of(items[1][1]))
                continue
            ctx.violation("outcome-depends-on-interruption",
                          f"same program and external outcomes, different final outcome: {[r for r, _ in items][:2]}", scen_of(items[1][1]))
            return


# ---- C03 ---------------------------------------------------------------------------------------------------
def c03(ctx, e):
    for ev in events(e, "Deliver"):
        p = ev["path"]
        be = ev.get("be")
        if ev["kind"] == "value" and be != "SUCCEEDED":
            ctx.violation("result-before-record", f"{p} returned a value while the backend record was {be}", scen_of(e))
            return
        if ev["kind"] == "error" and be not in TERMINAL and "InvalidStateError" not in ev["rep"] and "Callback must exist" not in ev["rep"] \
                and "SerDes" not in ev["rep"] and "Serialization" not in ev["rep"] and "ValidationError" not in ev["rep"]:
            ctx.violation("error-before-record", f"{p} raised {ev['rep'][:60]} while the backend record was {be}", scen_of(e))
            return
    for r in e.invocations:
        if r.outcome == "SUCCEEDED" and isinstance(r.result, dict) and r.result.get("Result") == "" and e.prog.get("final_large"):
            if e.backend.exec_result is None:
                ctx.violation("large-result-not-recorded", "SUCCEEDED with empty payload but no execution-level result recorded", scen_of(e))
                return
    # nothing delivered after a failed API call unless recorded (covered above through `be`)


def c03_parked_on_recorded_retry(ctx, e):
    """thread-local write-ahead for suspensions: between a strategy's decision to retry and the moment the deciding thread parks
    (a branch body ending in a timed suspension, or the handler thread ending the invocation PENDING) that thread has handed the
    RETRY record over (create_checkpoint is synchronous for RETRY: returning from it means accepted; a rejected hand-over raises)."""
    for r in e.invocations:
        pending = {}
        hthread = next((x["th"] for x in r.events if x["ev"] == "HandlerEnter"), None)
        for x in r.events:
            th = x.get("th")
            if x["ev"] in ("StrategyCall", "WaitStrategyCall") and (x.get("retry") if x["ev"] == "StrategyCall" else x.get("cont")):
                pending[th] = x["path"]
            elif x["ev"] == "Ckpt" and (x.get("action") == "RETRY" or x.get("rejected")):
                pending.pop(th, None)
            elif x["ev"] == "BodyEnd" and th in pending:
                path = pending.pop(th)
                if x.get("out") == "tsusp":
                    ctx.violation("parked-without-retry-record", f"invocation {r.inv}: the branch parked on the retry of {path} without "
                                  "having handed a RETRY record to the checkpoint queue", scen_of(e))
                    return
        if r.outcome == "PENDING" and hthread in pending:
            ctx.violation("parked-without-retry-record", f"invocation {r.inv} reported PENDING for the retry of {pending[hthread]} without "
                          "having handed a RETRY record to the checkpoint queue", scen_of(e))
            return


# ---- C04 ---------------------------------------------------------------------------------------------------
def c04(ctx, e):
    nodes = node_index(e.prog)
    for (path, attempt), cnt in e.rec.fn_entries.items():
        n = nodes.get(path, {})
        if n.get("k") == "step" and n.get("sem") == "AMO" and cnt > 1:
            ready = any(ev["path"] == path and ev["attempt"] == attempt and ev.get("be") == "READY" for ev in events(e, "FnEnter"))
            ctx.violation("amo-ready-no-start" if ready else "amo-entered-twice",
                          f"at-most-once step {path} entered {cnt} times for attempt {attempt}", scen_of(e))
            return
    for ev in events(e, "FnEnter"):
        n = nodes.get(ev["path"], {})
        if n.get("k") == "step" and n.get("sem") == "AMO" and ev.get("be") != "STARTED":
            ctx.violation("amo-ready-no-start" if ev.get("be") == "READY" else "amo-start-not-recorded",
                          f"at-most-once step {ev['path']} attempt {ev['attempt']} entered while the backend record was {ev.get('be')} "
                          f"(no durable START for this attempt)", scen_of(e))
            return


# ---- C11 ---------------------------------------------------------------------------------------------------
def c11(ctx, e):
    if e.backend.illegal:
        il = e.backend.illegal[0]
        sig = "illegal-update"
        if "stale checkpoint token" in il["reason"]:
            sig = "stale-token"
        ctx.violation(sig, f"update {il['action']} for {str(il['id'])[:8]} ({il['type']}) is not a legal history step: {il['reason']} "
                           f"(status before: {il['status_before']}, invocation {il['inv']})", scen_of(e))
        return
    st = e.backend.stream
    for k, u in enumerate(st):
        if u["type"] == "EXECUTION" and k != len(st) - 1:
            ctx.violation("update-after-execution-result", "an update followed the execution-level result record", scen_of(e))
            return


# ---- C12 ---------------------------------------------------------------------------------------------------
def c12(ctx, e):
    nodes = node_index(e.prog)
    for path, calls in e.rec.strategy_calls.items():
        n = nodes.get(path, {})
        if n.get("k") != "step":
            continue
        oid = path_id(path)
        # attempts the strategy saw must be 1,2,3,... = recorded retries + 1 (a crash may repeat a consultation with the same number)
        prev = 0
        for (inv, made, retry, delay) in calls:
            if made not in (prev, prev + 1) or made < 1:
                ctx.violation("strategy-attempt-number", f"retry strategy of {path} consulted with attempts {[c[1] for c in calls]}",
                              scen_of(e))
                return
            prev = made
        retries = [u for u in e.backend.stream if u["id"] == oid and u["action"] == "RETRY"]
        if len(retries) > max(0, n.get("max", 1) - 1):
            ctx.violation("too-many-retries", f"{path}: {len(retries)} RETRY records with max attempts {n.get('max', 1)}", scen_of(e))
            return
        for u in retries:
            if not isinstance(u.get("delay"), int) or u["delay"] < 1:
                ctx.violation("retry-delay", f"{path}: RETRY recorded with delay {u.get('delay')!r}", scen_of(e))
                return
    for ev in events(e, "FnEnter"):
        n = nodes.get(ev["path"], {})
        if n.get("k") == "step" and ev["attempt"] > 1 and ev.get("be") not in ("READY", "STARTED"):
            ctx.violation("reattempt-without-retry-record", f"{ev['path']} attempt {ev['attempt']} entered with backend status {ev.get('be')}",
                          scen_of(e))
            return
    # exact number of runs when nothing interrupted an attempt
    if e.final in ("SUCCEEDED", "FAILED") and all(r.outcome not in ("CRASHED", "RAISED") for r in e.invocations) and not e.sc.get("faults"):
        for path, n in nodes.items():
            if n.get("k") != "step" or n.get("strategy") == "default":
                continue
            oid = path_id(path)
            rec = e.backend.ops.get(oid)
            if not rec or rec["Status"] not in TERMINAL:
                continue
            f = n.get("fail", 0)
            mx = n.get("max", 1)
            expect = mx if f == -1 else min(f + 1, mx)
            runs = sum(c for (p, a), c in e.rec.fn_entries.items() if p == path)
            if runs != expect:
                ctx.violation("run-count", f"{path} ran {runs} times, expected min(failures+1, max attempts) = {expect}", scen_of(e))
                return
    # a declined retry is final: FAILED recorded and never attempted again
    for path, n in nodes.items():
        if n.get("k") == "step":
            oid = path_id(path)
            idx = e.backend.first_terminal.get(oid)
            if idx is not None:
                for ev in events(e, "FnEnter"):
                    if ev["path"] == path and ev.get("be") in TERMINAL:
                        ctx.violation("attempt-after-final", f"{path} attempted after its final record", scen_of(e))
                        return


# ---- C13 ---------------------------------------------------------------------------------------------------
def c13(ctx, e):
    nodes = node_index(e.prog)
    for path, polls in e.rec.polls.items():
        n = nodes.get(path, {})
        prev_att = 0
        for (inv, attempt, state) in polls:
            if attempt not in (prev_att, prev_att + 1):
                ctx.violation("poll-numbering", f"{path}: poll numbers {[p[1] for p in polls]}", scen_of(e))
                return
            expected = expected_wfc_input(n, attempt)
            if state != expected:
                ctx.violation("state-threading", f"{path}: poll {attempt} received {state[:80]}, expected {expected[:80]}", scen_of(e))
                return
            prev_att = attempt
        oid = path_id(path)
        rec = e.backend.ops.get(oid)
        if rec and rec["Status"] in TERMINAL:
            for ev in events(e, "FnEnter"):
                if ev["path"] == path and ev.get("be") in TERMINAL:
                    ctx.violation("poll-after-terminal", f"{path} polled after its terminal record", scen_of(e))
                    return
        for u in e.backend.stream:
            if u["id"] == oid and u["action"] == "RETRY" and (not isinstance(u.get("delay"), int) or u["delay"] < 1):
                ctx.violation("continue-delay", f"{path}: continue decision recorded with delay {u.get('delay')!r}", scen_of(e))
                return
        # a continue decision is durably recorded before the invocation suspends: an invocation that reported PENDING after the
        # wait strategy said "continue" must have had the RETRY record for that poll accepted by the backend
        by_inv = {r.inv: r for r in e.invocations}
        for (inv, attempt, cont, _delay) in e.rec.strategy_calls.get(path, []):
            r = by_inv.get(inv)
            if cont and r is not None and r.outcome == "PENDING":
                if not any(u["id"] == oid and u["action"] == "RETRY" and u["inv"] == inv for u in e.backend.stream):
                    ctx.violation("continue-not-recorded", f"{path}: invocation {inv} suspended after poll {attempt} said continue, but no RETRY "
                                  f"record reached the backend in that invocation (backend status {rec['Status'] if rec else None})", scen_of(e))
                    return
        # stops exactly when told: number of the last poll == polls (unless it failed earlier)
        if rec and rec["Status"] == "SUCCEEDED":
            last = max(p[1] for p in polls) if polls else 0
            if last != n.get("polls", 1):
                ctx.violation("stop-point", f"{path} completed after poll {last}, strategy said stop at {n.get('polls', 1)}", scen_of(e))
                return


def expected_wfc_input(node, attempt):
    from harness.interp import typed_repr, wfc_state
    return typed_repr(wfc_state(node, attempt - 1))


# ---- C14 ---------------------------------------------------------------------------------------------------
def c14(ctx, e):
    for path, ids in e.rec.cb_ids.items():
        vals = {i for (_, i) in ids}
        if len(vals) > 1:
            ctx.violation("callback-id-unstable", f"{path}: callback ids {sorted(vals)} across invocations", scen_of(e))
            return
        oid = path_id(path)
        rec = e.backend.ops.get(oid)
        if rec and vals and rec.get("_cbid") not in vals:
            ctx.violation("callback-id-not-backend-issued", f"{path}: {vals} vs backend {rec.get('_cbid')}", scen_of(e))
            return
    for ev in events(e, "Deliver"):
        if ev["path"].endswith("#create") and ev["kind"] == "error":
            ctx.violation("create-callback-raised", f"create_callback raised {ev['rep'][:80]}", scen_of(e))
            return
    nodes = node_index(e.prog)
    for path, n in nodes.items():
        if n.get("k") not in ("cb", "invoke"):
            continue
        oid = path_id(path)
        rec = e.backend.ops.get(oid)
        if not rec:
            continue
        # (by id, and by the name the program gave the call: a START for the same call under a DIFFERENT id is the same defect)
        starts = [u for u in e.backend.stream if u["action"] == "START" and (u["id"] == oid or
                  (u.get("name") == path and u["type"] in ("CALLBACK", "CHAINED_INVOKE")))]
        if len(starts) > 1:
            ctx.violation("started-more-than-once", f"{n['k']} at {path} sent START {len(starts)} times", scen_of(e))
            return
        if n["k"] == "invoke" and starts and starts[0].get("invoke") is not None:
            # invoke sends the SERIALIZED payload (default: JSON, exactly one encoding) and the target
            import json as _json
            sent, target = starts[0]["invoke"]
            want = _json.dumps(n["payload"] if "payload" in n else {"from": path})
            try:
                same = sent is not None and _json.loads(sent) == _json.loads(want) and type(_json.loads(sent)) is type(_json.loads(want))
            except ValueError:
                same = False
            if not same or target != "target-fn":
                ctx.violation("invoke-payload-unfaithful", f"invoke {path}: payload {n.get('payload', {'from': path})!r} went out as {str(sent)[:60]!r} "
                                                           f"(expected {want[:60]!r}) to {target!r}", scen_of(e))
                return
        dl = e.rec.delivered.get(path, [])
        for (inv, kind, rep) in dl:
            st = rec["Status"]
            if st == "SUCCEEDED":
                ok = kind == "value"
                if ok and n["k"] == "cb" and not n.get("serdes"):
                    # no serdes configured: result() returns exactly the delivered payload string (None when none was delivered)
                    from harness.interp import typed_repr
                    ok = rep == typed_repr(rec.get("_result"))
                if ok and n["k"] == "invoke" and rec.get("_result") is not None:
                    # default result serdes: the callee's JSON result decoded exactly once
                    import json as _json
                    from harness.interp import typed_repr
                    try:
                        ok = rep == typed_repr(_json.loads(rec["_result"]))
                    except ValueError:
                        pass
                if not ok:
                    ctx.violation("outcome-unfaithful", f"{n['k']} {path}: backend SUCCEEDED({str(rec.get('_result'))[:40]}) but delivered {kind} {rep[:60]}",
                                  scen_of(e))
                    return
            elif st in TERMINAL:
                want = "CallbackError" if n["k"] == "cb" else "CallableRuntimeError"
                if kind != "error" or not rep.startswith(want):
                    ctx.violation("outcome-unfaithful", f"{n['k']} {path}: backend {st} but delivered {kind} {rep[:60]}", scen_of(e))
                    return
                if n["k"] == "invoke":
                    # ... and it is the RECORDED error: type and message of the backend's error object (a message that was not
                    # recorded is not invented)
                    err = rec.get("_error") if isinstance(rec.get("_error"), dict) else {}
                    parts = rep.split("|")
                    got_msg, got_type = "|".join(parts[1:-1]), parts[-1]
                    wm, wt = err.get("ErrorMessage"), err.get("ErrorType")
                    # (no error object at all: the SDK's "unknown error" substitute is all there is to raise)
                    bad = bool(err) and ((isinstance(wt, str) and got_type != wt) or (isinstance(wm, str) and got_msg != wm) or
                                         (wm is None and got_msg not in ("None", "")))
                    if bad:
                        ctx.violation("outcome-unfaithful", f"invoke {path}: the backend recorded ErrorType={wt!r} ErrorMessage={wm!r}, the call "
                                                            f"raised type={got_type!r} message={got_msg[:60]!r}", scen_of(e))
                        return
        if rec["Status"] in TERMINAL and e.final in ("SUCCEEDED", "FAILED") and not dl:
            # the execution finished although the awaited call never delivered its outcome
            reached = any(ev.get("path") == path for ev in e.trace if ev.get("ev") in ("CbCreated",)) or n["k"] == "invoke"
            later = [p for p in e.rec.delivered if p > path]
            if reached and e.final == "SUCCEEDED" and not any(x.get("caught") for x in nodes.values()):
                ctx.violation("outcome-never-delivered", f"{n['k']} {path} is {rec['Status']} but its result was never delivered", scen_of(e))
                return
    # code between create and result always runs in every invocation that creates the callback
    created = {}
    between = {}
    for ev in e.trace:
        if ev.get("ev") == "CbCreated":
            created.setdefault((ev["inv"], ev["path"]), True)
        if ev.get("ev") == "CbBetweenDone":
            between[(ev["inv"], ev["path"])] = True
    for (inv, path) in created:
        r = e.invocations[inv - 1]
        # (an invocation that FAILED may have failed inside that very code: only a SUCCEEDED one must have run all of it)
        if (inv, path) not in between and r.outcome == "SUCCEEDED":
            n = nodes.get(path, {})
            if not n.get("between"):
                continue
            ctx.violation("code-between-skipped", f"invocation {inv} created callback {path} but the code before result() did not complete",
                          scen_of(e))
            return


# ---- C07 ---------------------------------------------------------------------------------------------------
def c07(ctx, e):
    if e.final == "HANG":
        r = e.invocations[-1]
        ctx.violation("invocation-hangs", f"invocation {r.inv} never returns: {r.verdict_info}", scen_of(e))
        return
    if e.final == "STUCK":
        ctx.violation("pending-not-wakeable", "invocation returned PENDING but nothing is registered with the backend that could wake the "
                                              "execution (no armed timer, no outstanding callback/invoke, no event since it started)", scen_of(e))
        return
    if e.final == "MAXINV":
        ctx.violation("no-termination", f"execution not terminal after {len(e.invocations)} invocations: "
                                        f"{[i.outcome for i in e.invocations][-6:]}", scen_of(e))
        return
    # branches orphaned by an early completion are deliberately abandoned: only bodies under not-yet-completed contexts count
    done_ctx = {u["id"] for u in e.backend.stream if u["type"] == "CONTEXT" and u["action"] in ("SUCCEED", "FAIL")}
    for r in e.invocations:
        if r.outcome == "PENDING" and r.running_fns_at_return:
            live = []
            for p in r.running_fns_at_return:
                comps = p.split("/")
                anc = ["/".join(comps[:k]) for k in range(1, len(comps) + 1)]
                if not any(path_id(a) in done_ctx for a in anc):
                    live.append(p)
            if live:
                ctx.violation("pending-while-function-running", f"invocation {r.inv} returned PENDING while {live} were executing",
                              scen_of(e))
                return


# ---- C18 ---------------------------------------------------------------------------------------------------
def c18(ctx, e):
    for r in e.invocations:
        if r.outcome in ("CRASHED",):
            continue
        if r.outcome == "HANG":
            ctx.violation("invocation-hangs", f"invocation {r.inv} never returns: {r.verdict_info}", scen_of(e))
            return
        if r.outcome == "RAISED":
            ok = False
            from aws_durable_execution_sdk_python.exceptions import CheckpointError, ExecutionError, InvocationError
            exc = r.exc
            if isinstance(exc, CheckpointError):
                ok = exc.is_retriable()
            elif isinstance(exc, InvocationError):
                ok = True
            elif isinstance(exc, ExecutionError) and "Unexpected payload" in str(exc):
                ok = True
            if not ok:
                ctx.violation("raised-non-retry-error", f"wrapper raised {type(exc).__name__}: {str(exc)[:100]}", scen_of(e))
                return
            continue
        res = r.result
        if not isinstance(res, dict) or res.get("Status") not in ("SUCCEEDED", "FAILED", "PENDING"):
            ctx.violation("malformed-output", f"wrapper returned {str(res)[:120]}", scen_of(e))
            return
        st = res["Status"]
        keys = set(res) - {"Status"}
        if st == "PENDING" and keys:
            ctx.violation("malformed-output", f"PENDING with {keys}", scen_of(e))
            return
        if st == "SUCCEEDED" and (keys - {"Result"} or not isinstance(res.get("Result", ""), str)):
            ctx.violation("malformed-output", f"SUCCEEDED with {keys}", scen_of(e))
            return
        if st == "FAILED" and keys - {"Error"}:
            ctx.violation("malformed-output", f"FAILED with {keys}", scen_of(e))
            return
        if st == "FAILED" and res.get("Error") is not None:
            err = res["Error"]
            bad = [k for k in ("ErrorMessage", "ErrorType", "ErrorData") if k in err and err[k] is not None and not isinstance(err[k], str)]
            if not isinstance(err, dict) or bad or ("StackTrace" in err and err["StackTrace"] is not None
                                                     and not (isinstance(err["StackTrace"], list) and all(isinstance(x, str) for x in err["StackTrace"]))):
                ctx.violation("malformed-output", f"FAILED with an error object whose fields are not strings: {str(err)[:120]}", scen_of(e))
                return
        if st == "SUCCEEDED" and "Result" in res:
            try:
                json.loads(res["Result"]) if res["Result"] != "" else None
            except ValueError:
                ctx.violation("malformed-output", "Result is not JSON", scen_of(e))
                return
        alive = [t for t in (r.alive_at_return or []) if t.startswith("dex-handler")]
        if alive:
            ctx.violation("checkpoint-thread-leaked", f"threads {alive} still alive when the wrapper returned", scen_of(e))
            return
    response_over_limit(ctx, e)      # a response Lambda cannot deliver is not a well-formed outcome


# ---- C06 ---------------------------------------------------------------------------------------------------
def c06(ctx, e):
    """after a failed checkpoint API call: no further call, no success/pending, prompt termination"""
    for r in e.invocations:
        evs = r.events
        fail_at = next((k for k, x in enumerate(evs) if x["ev"] == "ApiReturn" and not x["ok"]), None)
        if fail_at is None:
            continue
        if r.outcome == "HANG":
            ctx.violation("hang-after-checkpoint-failure", f"invocation {r.inv} never returns after a checkpoint failure: {r.verdict_info}",
                          scen_of(e))
            return
        if r.outcome in ("SUCCEEDED", "PENDING"):
            ctx.violation("success-after-checkpoint-failure", f"invocation {r.inv} reported {r.outcome} after a checkpoint API call failed",
                          scen_of(e))
            return
        for x in evs[fail_at + 1:]:
            if x["ev"] == "ApiCall":
                ctx.violation("api-call-after-failure", f"invocation {r.inv} issued another checkpoint call after the failure", scen_of(e))
                return
            if x["ev"] == "Deliver" and x["kind"] == "value" and x.get("be") != "SUCCEEDED":
                ctx.violation("unrecorded-outcome-after-failure", f"{x['path']} reported a result the backend has not recorded", scen_of(e))
                return
        # classification
        name = next(x["err"] for x in evs if x["ev"] == "ApiReturn" and not x["ok"]).replace("-after-apply", "")
        from harness.backend import FAULTS
        retriable = FAULTS[name][3]
        if r.outcome == "RAISED" and not retriable:
            ctx.violation("wrong-classification", f"non-retriable checkpoint error {name} made the wrapper raise", scen_of(e))
            return
        if r.outcome == "FAILED" and retriable:
            ctx.violation("wrong-classification", f"retriable checkpoint error {name} was reported FAILED", scen_of(e))
            return


# ---- C17 ---------------------------------------------------------------------------------------------------
def c17(ctx, e):
    """per invocation: a log call is emitted iff no operation that was complete when the invocation began lies ahead of it"""
    from harness.progspec import flatten
    instrs = flatten(e.prog)
    op_kinds = {"STEP", "WAIT", "CBCREATE", "INVOKE", "WFC", "CHILD_BEGIN"}
    idx_of_id = {path_id(d["path"]): k for k, d in enumerate(instrs, 1) if d["kind"] in op_kinds}
    log_idx = {d["pt"]: k for k, d in enumerate(instrs, 1) if d["kind"] == "LOG"}
    parent_of = {k: d["parent"] for k, d in enumerate(instrs, 1)}
    # a child context completes at the END of its body: log calls inside a body that is run again (oversized result replaced by a
    # summary) precede that completion point
    end_of_begin = {d["begin"]: k for k, d in enumerate(instrs, 1) if d["kind"] == "CHILD_END"}
    for r in e.invocations:
        comp = {end_of_begin.get(idx_of_id[o], idx_of_id[o]) for o, st in getattr(r, "ops_at_start", {}).items()
                if st in TERMINAL and o in idx_of_id}
        small = r.split is not None and r.split[0] <= 1
        evs = r.events
        returned = False
        for k, ev in enumerate(evs):
            if ev["ev"] == "Deliver" and ev["kind"] == "value":
                returned = True
            if ev["ev"] == "CbCreated":
                returned = True
            if ev["ev"] != "LogCall":
                continue
            li = log_idx.get(ev["pt"])
            # the record is emitted inside the logger call: it is the next event of the SAME thread (other threads may log between)
            nxt = next((x for x in evs[k + 1:] if x.get("th") == ev.get("th")), None)
            emitted = nxt is not None and nxt["ev"] == "LogEmit" and nxt["pt"] == ev["pt"]
            if not emitted and r.outcome == "CRASHED" and not any(x.get("th") == ev.get("th") and x["ev"] != "Abort" for x in evs[k + 1:]):
                continue      # the process was killed inside this very log call
            if li is None:
                # log inside a step function: emitted iff the step is being executed now, i.e. always expected
                if not emitted and r.inv == 1:
                    ctx.violation("log-missing-first-invocation", f"log call {ev['pt']} not emitted in the first invocation", scen_of(e))
                    return
                continue
            expected = not any(c > li for c in comp)
            if r.inv == 1 and not (e.invocations[0].ops_at_start):
                expected = True
            if emitted and nxt.get("extra", {}).get("executionArn") != e.backend.arn:
                ctx.violation("log-extras", f"log record of {ev['pt']} lacks the execution ARN: {nxt.get('extra')}", scen_of(e))
                return
            if expected == emitted:
                continue
            done_now = {idx_of_id[o] for o in ev.get("done", []) if o in idx_of_id}
            if emitted and not expected:
                ctx.violation("log-first-page" if small else "log-duplicate",
                              f"invocation {r.inv}: log call {ev['pt']} emitted although completed operations lie ahead "
                              f"(first page split {r.split})", scen_of(e))
                if not small:
                    return
                continue
            # missing
            def nested_done(i):
                p = parent_of.get(i, 0)
                return p != 0 and p in done_now
            failed_ids = {idx_of_id[o] for o, rec in e.backend.ops.items() if o in idx_of_id and rec["Status"] in TERMINAL
                          and rec["Status"] != "SUCCEEDED"}
            if any(nested_done(i) for i in done_now):
                sig = "log-silent-nested-completed"
            elif done_now & failed_ids:
                sig = "log-silent-after-failure"
            elif not returned:
                sig = "log-silent-until-first-return"
            else:
                sig = "log-missing"
            ctx.violation(sig, f"invocation {r.inv}: log call {ev['pt']} suppressed although no operation completed before this "
                               f"invocation lies ahead of it", scen_of(e))
            if sig == "log-missing":
                return


def response_over_limit(ctx, e):
    """no invocation may report a response above the limit the SDK itself defines for Lambda responses.  The size is that of the
    smallest faithful JSON encoding of the returned dict (UTF-8, nothing escaped that need not be): an SDK that counts characters
    where bytes are meant, or escapes less than it measured, is caught; one that is merely conservative is not."""
    import json as _json
    try:
        from aws_durable_execution_sdk_python.execution import LAMBDA_RESPONSE_SIZE_LIMIT as _LIMIT
    except Exception:  # noqa: BLE001
        _LIMIT = 6 * 1024 * 1024 - 50
    for r in e.invocations:
        if isinstance(r.result, dict):
            try:
                n = len(_json.dumps(r.result, ensure_ascii=False).encode("utf-8", "surrogatepass"))
            except (TypeError, ValueError):
                continue        # not encodable at all: C18's malformed-output
            if n > _LIMIT:
                ctx.violation("response-over-limit", f"invocation {r.inv} reported a {n} byte response ({r.outcome}); the limit is {_LIMIT}",
                              scen_of(e))
                return True
    return False


# ---- C16 ---------------------------------------------------------------------------------------------------
LIMIT = 256 * 1024


def c16(ctx, e):
    nodes = node_index(e.prog)
    for path, n in nodes.items():
        k = n.get("k")
        if k not in ("child", "map", "par"):
            continue
        oid = path_id(path)
        rec = e.backend.ops.get(oid)
        if not rec or rec["Status"] != "SUCCEEDED":
            continue
        payload = rec.get("_result") or ""
        rc = bool(rec.get("_replay_children"))
        nbytes = len(payload.encode("utf-8")) if isinstance(payload, str) else len(payload)
        if nbytes > LIMIT:
            ctx.violation("oversized-payload-recorded", f"{path}: {nbytes} bytes recorded for a context result (limit {LIMIT})",
                          scen_of(e))
            return
        dl = e.rec.delivered.get(path, [])
        vals = {(kd, r) for (_, kd, r) in dl}
        if len(vals) > 1:
            from checks.executor_common import classify_batch_divergence
            reps = [r for (_, _, r) in dl]
            sig = (classify_batch_divergence(reps[0], next(x for x in reps if x != reps[0])) if k in ("map", "par") else None) \
                or "rebuilt-result-differs"
            ctx.violation(sig, f"{path}: the result rebuilt on replay differs from the original "
                               f"({[r[:50] for _, r in sorted(vals)][:2]})", scen_of(e))
            if sig == "rebuilt-result-differs":
                return
            continue
        if rc:
            # after the summary was recorded nothing new may be recorded under this context, and nothing inside re-executes
            done_at = next((i for i, u in enumerate(e.backend.stream) if u["id"] == oid and u["action"] == "SUCCEED"), None)
            ids_under = {path_id(p) for p in nodes if p.startswith(path + "/")}
            done_inv = e.backend.stream[done_at]["inv"] if done_at is not None else 0
            for u in e.backend.stream[(done_at or 0) + 1:]:
                if u["inv"] <= done_inv:
                    continue        # a straggler of the invocation that completed the context is C10's matter (check-then-put)
                if u["id"] in ids_under or (u["parent"] in ids_under) or u["parent"] == oid:
                    ctx.violation("new-record-on-replay", f"{path}: update {u['action']} for {u['name']} recorded after the summary", scen_of(e))
                    return
    # whatever the program: no invocation may report a response above the limit the SDK itself defines for Lambda responses
    if response_over_limit(ctx, e):
        return
    for r in e.invocations:
        if r.outcome in ("SUCCEEDED", "FAILED") and isinstance(r.result, dict):
            big = e.prog.get("final_large") or e.prog.get("final_raise_large")
            if big:
                if r.result.get("Result") not in (None, "") or (r.outcome == "FAILED" and r.result.get("Error")):
                    ctx.violation("large-final-in-response", f"status {r.outcome} reported with a payload for an oversized final outcome", scen_of(e))
                    return
                if e.backend.exec_result is None:
                    ctx.violation("large-final-not-recorded", f"status {r.outcome} with empty payload but no execution-level record", scen_of(e))
                    return
    # a map/parallel item whose own result is oversized must still succeed and be recovered
    for path, n in nodes.items():
        if n.get("k") in ("map", "par") and (n.get("large_item") or n.get("large_items")):
            # the known deviation is specific to calls WITHOUT a config (the handler's default summary generator reaches the item
            # contexts); with a config of the caller's own (no summary generator in it) an oversized item must succeed
            no_config = not (n.get("explicit_cfg") or n.get("cfg") or n.get("maxc") or n.get("bad_serdes"))
            sig = "map-item-summary-generator" if no_config else "oversized-item-failed"
            intended = set(int(x) for x in (n.get("braise") or []))
            for (inv, kd, r) in e.rec.delivered.get(path, [])[:1]:
                if "FAILED" in r and "AttributeError" in r or (kd == "error" and no_config):
                    ctx.violation(sig, f"{path}: an item with an oversized result failed: {r[:160]}", scen_of(e))
                    return
                if ",FAILED," in r and (no_config or not intended):
                    ctx.violation(sig, f"{path}: an item with an oversized result was reported FAILED: "
                                       f"{r[:60]} ... {r[-160:]}", scen_of(e))
                    return


def c01_fn_only(ctx, e):
    for ev in events(e, "FnEnter"):
        if ev.get("be") in TERMINAL:
            ctx.violation("reexecuted-after-terminal", f"user function of {ev['path']} entered although the backend already recorded "
                                                       f"{ev['be']} (invocation {ev['inv']})", scen_of(e))
            return
