"""C09 - map/parallel honour the completion policy and report branches faithfully."""
from checks import oracles
from checks.conc_check import run_conc
from checks.durable_check import replay_execution
from checks.executor_common import STRICT, batch_items_own_outcome, c09, c09_decided_but_suspended, c09_resumed_on_time, c09_returns_promptly


def decide_during_resume(ctx, execs):
    """a branch parked on a 1 s timer is being resumed by the timer thread (pop, reset, refresh checkpoint, re-submit) while its
    sibling's completion decides the policy: every offset of the sibling's end around that window, several schedules each"""
    import random
    from checks.durable_common import run_campaign
    rng = random.Random(ctx.seed + 909)
    items = []
    for d in [round(0.1 * k, 2) for k in range(6, 20, (2 if ctx.quick else 1))]:
        for cfg in ({"min": 1}, {"tolc": 0}):
            sib = [{"k": "step", "dur": d}] if "min" in cfg else []
            node = {"k": "par", "cfg": cfg, "caught": True, "branches": [[{"k": "wait", "s": 1}, {"k": "step"}], sib]}
            if "tolc" in cfg:
                node["branches"][1] = [{"k": "step", "dur": d}]
                node["braise"] = [1]
            p = {"nodes": [node, {"k": "step"}]}
            for rep in range(2 if ctx.quick else 6):
                items.append((p, {"seed": rng.randrange(1 << 30), "max_inv": 16, "api_latency": (0.3, 0.05)[rep % 2],
                                  "strategy": "pct" if rep % 2 else "random"}))
    # the same race with checkpoint calls that take 75 virtual seconds: the decided call must not wait for the timer thread's call
    # (the timer of the parked branch falls due while the sibling's last checkpoint call is in flight, so the timer thread's refresh
    #  checkpoint is queued behind it and still outstanding when the sibling's completion decides the policy)
    for w in (90, 100, 120, 140):
        node = {"k": "par", "cfg": {"min": 1}, "caught": True, "branches": [[{"k": "wait", "s": w}, {"k": "step"}], [{"k": "step", "dur": 1.0}]]}
        for rep in range(2 if ctx.quick else 6):
            items.append(({"nodes": [node, {"k": "step"}]}, {"seed": rng.randrange(1 << 30), "max_inv": 16, "api_latency": 75.0,
                                                            "hang_after": 600.0, "strategy": "pct" if rep % 2 else "random"}))
    # oversized results (recorded as a summary, rebuilt from the children on replay) of calls whose completion policy mattered:
    # tolerated failures, min_successful reached with branches never started; the call is replayed in later invocations
    st = {"k": "step"}
    big = [{"nodes": [{"k": "map", "explicit_cfg": True, "large_items": [0, 2], "cfg": {"tolc": 1}, "braise": [1], "caught": True,
                       "branches": [[st], [], [st], [st]]}, {"k": "wait"}, st]},
           {"nodes": [{"k": "par", "explicit_cfg": True, "maxc": 1, "large_items": [0], "cfg": {"min": 2, "tolc": 1}, "braise": [1], "caught": True,
                       "branches": [[st], [], [st], [st]]}, {"k": "wait"}, {"k": "wait"}]},
           {"nodes": [{"k": "map", "explicit_cfg": True, "maxc": 1, "large_items": [0, 1], "cfg": {"min": 2}, "branches": [[st], [st], [st]]}, {"k": "wait"}, st]},
           {"nodes": [{"k": "par", "explicit_cfg": True, "large_items": [1], "cfg": {"tolp": 50}, "braise": [0], "caught": True,
                       "branches": [[], [st], [st]]}, {"k": "wait"}]}]
    for p in big:
        for rep in range(2 if ctx.quick else 8):
            items.append((p, {"seed": rng.randrange(1 << 30), "max_inv": 12, "api_latency": (0.0, 0.05)[rep % 2],
                              "strategy": "pct" if rep % 2 else "random", **({"paging": "random"} if rep % 3 == 2 else {})}))
    # several timers pending at once, registered far-off first: the branch whose (earlier) timer decides the policy is resumed when
    # that timer is due, not when the far-off one is
    for far in (30, 600):
        node = {"k": "par", "cfg": {"min": 1}, "caught": True,
                "branches": [[{"k": "wait", "s": far}, {"k": "step"}], [{"k": "step", "dur": 0.3}, {"k": "wait", "s": 1}, {"k": "step"}], [{"k": "step", "dur": far + 10.0}]]}
        for rep in range(2 if ctx.quick else 6):
            items.append(({"nodes": [node, {"k": "step"}]}, {"seed": rng.randrange(1 << 30), "max_inv": 16, "api_latency": (0.05, 0.3)[rep % 2],
                                                            "hang_after": 700.0, "strategy": "pct" if rep % 2 else "random"}))
    # a branch's timer fires while max_concurrency other bodies are running: the resumed body waits for a free worker
    for maxc in (1, 2):
        node = {"k": "map", "maxc": maxc, "caught": True,
                "branches": [[{"k": "wait", "s": 1}, {"k": "step"}]] + [[{"k": "step", "dur": 4.0}] for _ in range(maxc + 1)] + [[{"k": "step"}]]}
        for rep in range(2 if ctx.quick else 6):
            items.append(({"nodes": [node, {"k": "step"}]}, {"seed": rng.randrange(1 << 30), "max_inv": 12, "api_latency": (0.0, 0.05)[rep % 2],
                                                            "strategy": "pct" if rep % 2 else "random"}))
    out = run_campaign(ctx, items)
    for e in out:
        for fn in (c09, c09_decided_but_suspended, c09_returns_promptly, c09_resumed_on_time, oracles.c07):
            fn(ctx, e)
    from checks.conc_check import validate_exec_traces
    validate_exec_traces(ctx, out, STRICT["C09"], name="c09_resume_extrace")


def run(ctx):
    run_conc(ctx, invs=STRICT["C09"], oracle_fns=[c09, c09_decided_but_suspended, c09_returns_promptly, c09_resumed_on_time, batch_items_own_outcome, oracles.c07],
             post=decide_during_resume,
             extra_rule="Oracle: one item per input in order; SUCCEEDED/FAILED items carry the branch's own return value / error "
                        "(ground truth recorded inside the branch body); the policy was decided when the call returned; the reason is "
                        "consistent with items and policy; at most max_concurrency bodies at once; the replayed BatchResult equals the first.")
    from checks import policy_tables
    policy_tables.completion_tables(ctx)


replay = replay_execution
