"""C09 - map/parallel honour the completion policy and report branches faithfully."""
from checks import oracles
from checks.conc_check import run_conc
from checks.durable_check import replay_execution
from checks.executor_common import STRICT, c09, c09_decided_but_suspended


def run(ctx):
    run_conc(ctx, invs=STRICT["C09"], oracle_fns=[c09, c09_decided_but_suspended, oracles.c07],
             extra_rule="Oracle: one item per input in order; SUCCEEDED/FAILED items carry the branch's own return value / error "
                        "(ground truth recorded inside the branch body); the policy was decided when the call returned; the reason is "
                        "consistent with items and policy; at most max_concurrency bodies at once; the replayed BatchResult equals the first.")
    from checks import policy_tables
    policy_tables.completion_tables(ctx)


replay = replay_execution
