"""C06 - checkpoint failure is fail-stop: no progress, no hang, no success."""
import random

from checks import oracles
from checks.durable_check import fault_enumeration, replay_execution, run_durable
from checks.durable_common import CURATED, run_campaign
from harness.backend import FAULTS


NAMES = ["s01_step_wait_retry", "s02_amo_retry_caughtfail", "s03_child_wfc", "s04_cb_invoke", "s08_large_child", "s09_large_final",
         "s12_wfc_three_polls", "s22_slow_steps", "s23_slow_caught", "s24_blanket_except"]


def run(ctx):
    extra = []
    execs = run_durable(ctx, model=["s01_step_wait_retry", "s02_amo_retry_caughtfail", "s03_child_wfc", "s09_large_final"],
                        programs=["s01_step_wait_retry", "s03_child_wfc", "s10_uncaught_failure",
                                  {"nodes": [{"k": "step", "caught": True}, {"k": "step", "caught": True}, {"k": "child", "caught": True, "body": [{"k": "step"}]}]}],
                        oracle_fns=[oracles.c06, oracles.c18],
                        n_random_progs=(3, 30),
                        scen_kw={"crash": 0.1, "faults": 1.0, "pct": 0.5},
                        post=lambda c, ex: fault_enumeration(c, NAMES[:6] if c.quick else NAMES, [oracles.c06, oracles.c18, oracles.c03]),
                        model_kw={"max_api_fails": 1},
                        extra_rule="Fault enumeration: each curated program x each checkpoint API call index x each error class. Oracle: after the "
                                   "failing call no further API call, no unrecorded outcome reported, never SUCCEEDED/PENDING, raise vs FAILED per the "
                                   "error's classification, no hang.")
    from checks import batcher_failstop, executor_check
    batcher_failstop.run_part(ctx)
    executor_check.failstop_part(ctx)


def replay(d):
    if (d.get("replay") or {}).get("kind") == "batcher":
        from checks import batcher_failstop
        return batcher_failstop.replay(d)
    return replay_execution(d)
