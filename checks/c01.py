"""C01 - completed operations are never re-executed; their recorded outcome is returned."""
from checks import oracles
from checks.durable_check import replay_execution, run_durable
from checks.executor_common import batch_items_own_outcome


def page_fault_sweep(ctx, execs):
    """the answer of a (successful) checkpoint call is paginated and the k-th page fetch fails, for every k - also while a branch of a
    map / parallel is re-traversed inside the same invocation: what the backend recorded must not be forgotten"""
    from checks.durable_common import CURATED, run_campaign
    conc = [{"nodes": [{"k": "par", "branches": [[{"k": "step"}, {"k": "wait", "s": 1}, {"k": "step"}],
                                                 [{"k": "step", "dur": 3}]]}, {"k": "step"}]},
            {"nodes": [{"k": "map", "branches": [[{"k": "step"}, {"k": "step", "fail": 1, "max": 2, "delay": 1}, {"k": "step"}],
                                                 [{"k": "step", "dur": 2.5}, {"k": "step"}]]}, {"k": "step"}]}]
    items = []
    for p in [CURATED["s01_step_wait_retry"], CURATED["s07_nested_children"]] + conc:
        for pg in (0, 1):
            for k in range(1, (8 if ctx.quick else 16)):
                items.append((p, {"seed": 500 + k, "resp_page": pg, "get_state_fault": k, "max_inv": 14, "api_latency": (0.0, 0.05)[k % 2]}))
    out = run_campaign(ctx, items)
    for e in out:
        oracles.c01(ctx, e)
    return out


def run(ctx):
    run_durable(ctx,
                model=["s01_step_wait_retry", "s03_child_wfc", "s04_cb_invoke", "s07_nested_children", "s08_large_child"],
                programs=["s01_step_wait_retry", "s03_child_wfc", "s04_cb_invoke", "s05_wfcb_childfail_wfcfail", "s07_nested_children",
                          "s08_large_child", "s12_wfc_three_polls", "s13_child_raises_caught", "s17_child_wfc_inside",
                          # recorded FAILURES with unusual error content (empty message, no arguments at all, a non-string): the
                          # replay must raise the recorded error, not a substitute
                          {"nodes": [{"k": "step", "fail": -1, "max": 1, "caught": True, "errmsg": ""}, {"k": "wait"},
                                     {"k": "step", "fail": -1, "max": 2, "caught": True, "errmsg": "<none>", "errtype": "ValueError"}, {"k": "wait"},
                                     {"k": "step"}]},
                          {"nodes": [{"k": "child", "caught": True, "body": [{"k": "step"}, {"k": "step", "fail": -1, "max": 1, "errmsg": ""}]},
                                     {"k": "wait"}, {"k": "step"}, {"k": "wait"}]},
                          {"nodes": [{"k": "map", "caught": True, "cfg": {"tolc": 2}, "braise": [0], "branches": [[], [{"k": "step", "fail": -1, "max": 1, "errmsg": "<none>", "errtype": "ValueError"}], [{"k": "step"}]]},
                                     {"k": "wait"}, {"k": "step", "fail": -1, "max": 1, "caught": True, "errmsg": 0, "errtype": "ValueError"}, {"k": "wait"}]},
                          # user code that modifies a delivered list / dict in place: later calls at the same position (and at other positions
                          # with an equal recorded value) must still yield the RECORDED result
                          {"nodes": [{"k": "step", "val": 1, "mutate": True}, {"k": "wait"}, {"k": "step", "val": 1, "mutate": True}, {"k": "wait"},
                                     {"k": "step", "val": 0, "mutate": True}, {"k": "wait"}, {"k": "step"}]},
                          {"nodes": [{"k": "child", "mutate": True, "body": [{"k": "step", "val": 1, "mutate": True}, {"k": "step", "val": 1}]},
                                     {"k": "wait"}, {"k": "wfc", "polls": 1, "states": [[1, 2.5, "x"]], "mutate": True}, {"k": "wait"}, {"k": "wait"}]},
                          # map / parallel: a branch that parks on a timer and is resumed inside the same invocation (a sibling is
                          # still running) re-traverses its completed operations; re-invocation after the whole call suspended
                          # oversized map / parallel results with mixed outcomes, rebuilt from the children's records on replay
                          {"nodes": [{"k": "map", "explicit_cfg": True, "large_items": [0, 2], "cfg": {"tolc": 1}, "braise": [1], "caught": True,
                                      "branches": [[{"k": "step"}], [], [{"k": "step"}], [{"k": "step"}]]}, {"k": "wait"}, {"k": "step"}]},
                          {"nodes": [{"k": "par", "explicit_cfg": True, "maxc": 1, "large_items": [0], "cfg": {"min": 2, "tolc": 1}, "braise": [1],
                                      "caught": True, "branches": [[{"k": "step"}], [], [{"k": "step"}], [{"k": "step"}]]}, {"k": "wait"}]},
                          {"nodes": [{"k": "par", "branches": [[{"k": "step"}, {"k": "wait", "s": 1}, {"k": "step"}],
                                                               [{"k": "step", "dur": 3}]]}, {"k": "step"}]},
                          {"nodes": [{"k": "map", "maxc": 2, "branches": [[{"k": "step"}, {"k": "step", "fail": 1, "max": 2, "delay": 1}],
                                                                          [{"k": "step", "dur": 2.5}, {"k": "wait", "s": 1}, {"k": "step"}],
                                                                          [{"k": "step"}]]}, {"k": "wait"}, {"k": "step"}]}],
                oracle_fns=[oracles.c01, batch_items_own_outcome],
                scen_kw={"crash": 0.6, "paging": 0.7},
                sweep=["s03_child_wfc"],
                post=page_fault_sweep,
                extra_rule="Oracle: no function entry while the backend holds a terminal record; every delivery after the first completed "
                           "one equals it; histories are paginated randomly (including an empty first page).")


replay = replay_execution
