"""C01 - completed operations are never re-executed; their recorded outcome is returned."""
from checks import oracles
from checks.durable_check import replay_execution, run_durable


def run(ctx):
    run_durable(ctx,
                model=["s01_step_wait_retry", "s03_child_wfc", "s04_cb_invoke", "s07_nested_children", "s08_large_child"],
                programs=["s01_step_wait_retry", "s03_child_wfc", "s04_cb_invoke", "s05_wfcb_childfail_wfcfail", "s07_nested_children",
                          "s08_large_child", "s12_wfc_three_polls", "s13_child_raises_caught", "s17_child_wfc_inside",
                          # map / parallel: a branch that parks on a timer and is resumed inside the same invocation (a sibling is
                          # still running) re-traverses its completed operations; re-invocation after the whole call suspended
                          {"nodes": [{"k": "par", "branches": [[{"k": "step"}, {"k": "wait", "s": 1}, {"k": "step"}],
                                                               [{"k": "step", "dur": 3}]]}, {"k": "step"}]},
                          {"nodes": [{"k": "map", "maxc": 2, "branches": [[{"k": "step"}, {"k": "step", "fail": 1, "max": 2, "delay": 1}],
                                                                          [{"k": "step", "dur": 2.5}, {"k": "wait", "s": 1}, {"k": "step"}],
                                                                          [{"k": "step"}]]}, {"k": "wait"}, {"k": "step"}]}],
                oracle_fns=[oracles.c01],
                scen_kw={"crash": 0.6, "paging": 0.7},
                sweep=["s03_child_wfc"],
                extra_rule="Oracle: no function entry while the backend holds a terminal record; every delivery after the first completed "
                           "one equals it; histories are paginated randomly (including an empty first page).")


replay = replay_execution
