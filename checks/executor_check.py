"""Executor.tla parts shared by C06/C07/C09/C10 - filled in below."""


def suspend_part(ctx):
    pass


def failstop_part(ctx):
    pass
