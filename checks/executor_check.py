"""Executor.tla parts shared by C06 / C07: suspension and fail-stop inside map/parallel."""
from __future__ import annotations

import random

from checks import oracles
from checks.durable_common import run_campaign
from checks.executor_common import CURATED_CONC, STRICT, conc_scenario, executor_sweep, gen_conc_program

NONEC, NONEP = 99, 999


def suspend_part(ctx):
    """C07 inside map/parallel: suspend only when everybody is parked, never stuck, never hanging."""
    executor_sweep(ctx, STRICT["C07"], tag=f"exs_{ctx.pid}",
                   scripts_sets=([[["susp"], ["step", "ok"]], [["tsusp", "ok"], ["step", "fail"]], [["susp"], ["tsusp", "susp"]]]
                                 + ([] if ctx.quick else [[["tsusp", "step", "ok"], ["susp"], ["step", "ok"]]])),
                   configs=[(0, 0, NONEC, NONEP), (0, 1, NONEC, NONEP), (1, 0, 0, 0), (0, 0, 1, NONEP)],
                   budget=(5 if ctx.quick else None))
    # a branch that parks twice (inline done-callback in the timer thread) + the pinned variant of the scheduler lock as a probe
    executor_sweep(ctx, STRICT["C07"], tag=f"ext_{ctx.pid}", scripts_sets=[[["tsusp", "tsusp", "ok"], ["step", "ok"]]],
                   configs=[(0, 0, NONEC, NONEP)] + ([] if ctx.quick else [(0, 1, NONEC, NONEP), (1, 0, NONEC, NONEP)]))
    # the backend fires its timers late: a resubmitted branch may find its wait / retry unchanged and park again (BodyRepark)
    executor_sweep(ctx, STRICT["C07"], tag=f"exg_{ctx.pid}", lag=True,
                   scripts_sets=[[["tsusp", "step", "ok"], ["step", "ok"]], [["sfail", "sretry", "ok"], ["susp"]]]
                                + ([] if ctx.quick else [[["tsusp", "tsusp", "ok"], ["step", "fail"]]]),
                   configs=[(0, 0, NONEC, NONEP)] + ([] if ctx.quick else [(0, 1, NONEC, NONEP), (1, 0, NONEC, NONEP)]))
    from checks.executor_common import exec_mc as _mc
    from lib.tlcrun import MachineryError as _ME, require_ok as _rq, run_tlc as _run
    mod, cfg = _mc(f"exp_{ctx.pid}_underlock", [["tsusp", "tsusp", "ok"], ["step", "ok"]], 0, 0, NONEC, NONEP, ["NoHang"], resubmit_under_lock=True)
    res = _run(mod, cfg, f"exp_{ctx.pid}_underlock", timeout_s=900)
    _rq(res, "Executor.tla probe ResubmitUnderLock=TRUE")
    ctx.add_tlc(res, "probe: with TimerScheduler._lock held across the resubmission the inline done-callback deadlocks the timer thread (NoHang)")
    if res.ok or res.violated != "NoHang":
        raise _ME(f"probe ResubmitUnderLock=TRUE: expected NoHang to fail, got ok={res.ok} violated={res.violated}")
    executor_sweep(ctx, [], tag=f"exl_{ctx.pid}", liveness=True,
                   scripts_sets=[[["tsusp", "ok"], ["susp"]], [["step", "ok"], ["tsusp", "step", "ok"]]],
                   configs=[(0, 0, NONEC, NONEP), (1, 1, NONEC, NONEP)], budget=(1 if ctx.quick else None))
    rng = random.Random(ctx.seed + 77)
    names = ["m04_waits_retries", "m05_callbacks", "m12_park_then_decide", "m13_park_then_finish", "m14_park_then_fail",
             "m15_timed_and_indef", "m08_nested", "m02_first_successful", "m18_invoke_in_branch", "m19_invoke_and_wait"]
    progs = [CURATED_CONC[n] for n in names] + [gen_conc_program(rng) for _ in range(6 if ctx.quick else 80)]
    items = [(p, conc_scenario(rng, p)) for p in progs for _ in range(5 if ctx.quick else 14)]
    # timing sweep: a branch parked on a 1 s timer is resumed in-process while its sibling's function ends (or the sibling
    # parks) at every offset around the timer thread's refresh-checkpoint round trip
    grid = [round(0.1 * k, 2) for k in range(1, 22, (2 if ctx.quick else 1))]
    for d in grid:
        for lat in ((0.3,) if ctx.quick else (0.05, 0.3, 0.6)):
            for sib in ([{"k": "step", "dur": d}], [{"k": "step", "dur": d}, {"k": "cb", "between": []}]):
                p = {"nodes": [{"k": "par", "branches": [[{"k": "wait", "s": 1}, {"k": "step"}], sib]}, {"k": "step"}]}
                for rep in range(3 if ctx.quick else 8):
                    items.append((p, {"seed": rng.randrange(1 << 30), "max_inv": 16, "api_latency": lat,
                                      "strategy": "pct" if rep % 2 else "random"}))
    # late backend timers: a branch parked on a retry / wait timer is resumed by the LOCAL timer while the backend has not fired
    # its own yet (lag from a fraction of a second to longer than the sibling's work): it must park again on a timer (and poll),
    # never indefinitely
    late = [{"nodes": [{"k": "par", "branches": [[{"k": "step", "fail": 1, "max": 2, "delay": 1}, {"k": "step"}], [{"k": "step", "dur": 4.0}, {"k": "step"}]]}, {"k": "step"}]},
            {"nodes": [{"k": "map", "branches": [[{"k": "wait", "s": 1}, {"k": "step"}], [{"k": "wfc", "polls": 2}], [{"k": "step", "dur": 2.5}]]}]},
            CURATED_CONC["m04_waits_retries"], CURATED_CONC["m15_timed_and_indef"]]
    for p in late:
        for k, lag in enumerate((0.4, 3.0, 45.0) if ctx.quick else (0.1, 0.2, 0.4, 1.0, 3.0, 10.0, 45.0)):
            for rep in range(1 if ctx.quick else 4):
                items.append((p, {"seed": rng.randrange(1 << 30), "max_inv": 12, "api_latency": (0.05, 0.3)[(k + rep) % 2], "timer_lag": lag,
                                  "strategy": "pct" if rep % 2 else "random"}))
    # slow-holder schedules: for every lock the SDK creates, the thread holding it is descheduled (passed over while anybody else can
    # run; stalled for at most 0.5 virtual seconds in total) - lock-order inversions, done-callbacks running inline in the holder
    # and waiters piling up behind a long critical section are reached; a hang found this way is a real deadlock
    from harness import detsched as ds
    from harness.driver import Execution
    two_timed = lambda d: {"nodes": [{"k": "par", "branches": [[{"k": "wait", "s": 1}],   # noqa: E731
                                                            [{"k": "step", "dur": d}, {"k": "wait", "s": 1}, {"k": "step"}]]}, {"k": "step"}]}
    Execution(two_timed(1.0), {"seed": 1, "max_inv": 8}).run()
    sites = sorted(ds.LOCK_SITES)
    ctx.notes["lock_sites"] = sites
    twice = {"nodes": [{"k": "par", "branches": [[{"k": "wait", "s": 1}, {"k": "wait", "s": 1}, {"k": "step"}], [{"k": "step", "dur": 3.0}]]},
                       {"k": "step"}]}
    for site in sites:
        for rep in range(2 if ctx.quick else 16):
            items.append((twice, {"seed": rng.randrange(1 << 30), "max_inv": 8, "api_latency": 0.0, "batcher": {"time": 0.0},
                                  "slow_holder": site, "strategy": "pct" if rep % 2 else "random"}))
        for d in (0.9, 1.0, 1.1):
            for rep in range(3 if ctx.quick else 24):
                items.append((two_timed(d), {"seed": rng.randrange(1 << 30), "max_inv": 8, "api_latency": 0.0, "batcher": {"time": 0.0},
                                             "slow_holder": site, "strategy": "pct" if rep % 2 else "random"}))
    execs = run_campaign(ctx, items)
    ctx.notes["conc_executions"] = len(execs)
    for e in execs:
        oracles.c07(ctx, e)
    # probe of the model: with the reset moved behind the refresh checkpoint TLC must find the unsound suspension
    from checks.executor_common import exec_mc
    from lib.tlcrun import MachineryError, require_ok, run_tlc
    mod, cfg = exec_mc(f"exp_{ctx.pid}_resetlate", [["tsusp", "ok"], ["step", "ok"]], 0, 0, NONEC, NONEP, ["SuspendNotWhileResuming"],
                       reset_first=False)
    res = run_tlc(mod, cfg, f"exp_{ctx.pid}_resetlate", timeout_s=600)
    require_ok(res, "Executor.tla probe ResetFirst=FALSE")
    ctx.add_tlc(res, "probe: Executor.tla with reset_to_pending AFTER the refresh checkpoint violates SuspendNotWhileResuming")
    if res.ok or res.violated != "SuspendNotWhileResuming":
        raise MachineryError(f"probe ResetFirst=FALSE: expected SuspendNotWhileResuming to fail, got ok={res.ok} violated={res.violated}")
    # every recorded execution of the real executor is a behaviour of Executor.tla (timer thread: reset, then refresh, then submit)
    from checks.conc_check import validate_exec_traces
    validate_exec_traces(ctx, execs, STRICT["C07"], name=f"{ctx.pid.lower()}_susp_extrace")


def failstop_part(ctx):
    """C06 inside map/parallel: a checkpoint failure surfacing in a branch or in the timer thread terminates the invocation."""
    from checks.durable_check import fault_enumeration
    executor_sweep(ctx, STRICT["C06"], tag=f"exf_{ctx.pid}",
                   scripts_sets=[[["step", "bte"], ["step", "ok"]], [["bte"], ["susp"]], [["tsusp", "bte"], ["step", "ok"]]],
                   configs=[(0, 0, NONEC, NONEP), (0, 1, NONEC, NONEP), (1, 0, 0, 0)], budget=(6 if ctx.quick else None))
    # (the first program makes the timer thread's refresh checkpoint one of the enumerated calls while a sibling is still running)
    # (the sibling stays inside its user function far longer than the hang threshold: only the timer thread can wake the caller)
    resume_while_running = {"nodes": [{"k": "par", "branches": [[{"k": "wait", "s": 1}, {"k": "step"}], [{"k": "step", "dur": 30.0}]]}, {"k": "step"}]}
    progs = [CURATED_CONC[n] for n in ["m01_all_ok", "m04_waits_retries", "m02_first_successful", "m06_maxc1", "m15_timed_and_indef"]]
    ex = fault_enumeration(ctx, progs, [oracles.c06, oracles.c18], faults=["invalid_param", "throttle429"], seed_salt=707)
    # the same enumeration for the program whose sibling is busy for 30 virtual seconds; "terminates promptly": the invocation in which
    # a call failed ends within 5 virtual seconds of the failure (the caller waits in the executor, not inside user code)
    from checks.durable_common import run_campaign, scen_of
    from harness.driver import Execution
    # (second program: the failure surfaces INSIDE a branch of a call that tolerates one failure while the sibling is busy)
    tolerant = {"nodes": [{"k": "par", "cfg": {"tolc": 1}, "caught": True, "branches": [[{"k": "step"}, {"k": "step"}], [{"k": "step", "dur": 30.0}]]},
                          {"k": "step"}]}
    items = []
    for prog in (resume_while_running, tolerant):
        n0 = Execution(prog, {"seed": 1, "hang_after": 2000.0}).run().backend.api_calls
        items += [(prog, {"seed": 900 + 7 * k + j, "faults": {str(k): f}, "max_inv": 6, "api_latency": lat, "hang_after": 2000.0})
                  for k in range(1, n0 + 1) for j, (f, lat) in enumerate([("invalid_param", 0.0), ("throttle429", 0.3)])]
    slow = run_campaign(ctx, items)
    for e in slow:
        oracles.c06(ctx, e)
        for r in e.invocations:
            t_fail = next((x["t"] for x in r.events if x["ev"] == "ApiReturn" and not x["ok"]), None)
            t_end = next((x["t"] for x in r.events if x["ev"] == "WrapperReturn"), None)
            if t_fail is not None and (t_end is None or t_end - t_fail > 5.0):
                ctx.violation("not-prompt-after-failure",
                              f"invocation {r.inv}: a checkpoint call failed at t={t_fail}, the invocation "
                              + (f"ended {t_end - t_fail:.1f} virtual seconds later" if t_end is not None else "never ended")
                              + " (a branch was inside a 30 s user function; the caller was waiting in map/parallel)", scen_of(e))
                break
    ex = ex + slow
    from checks.conc_check import validate_exec_traces
    validate_exec_traces(ctx, ex, STRICT["C06"], name=f"{ctx.pid.lower()}_fail_extrace")
