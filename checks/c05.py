"""C05 - checkpoint stream: nothing lost, duplicated or reordered; limits respected; every sync caller released.

 (1) TLC, exhaustive: Batcher.tla (2 producers x 2 calls, sizes incl. oversize, any sync pattern, optional API failure,
     every window closing), safety + liveness under weak fairness.  The variant of the spec that models the code
     as it is now is selected by spec/variant.json; the pinned-original variant is kept as a regression of the model
     (TLC must still find the two historical deviations there).
 (2) Real ExecutionState pipeline under detsched: k producer threads, real serialized sizes around the limits, random / PCT /
     DFS schedules with adversarial window timing; direct oracles on order, tokens, limits, release rule, hang.
 (3) Every recorded execution validated as a behaviour of Batcher.tla (BatcherTrace).
"""
from __future__ import annotations

import json
import os
import random

from harness import detsched as ds
from harness.batch_harness import random_plan, run_batcher
from harness.explore import explore
from lib import tracecheck
from lib.tlcrun import SPEC_DIR, MachineryError, require_ok, run_tlc, vacuity_guard

VARIANT = json.load(open(os.path.join(SPEC_DIR, "variant.json")))

CFG_T = """SPECIFICATION {spec}
CONSTANTS
  Producers = {producers}
  NItems = {nitems}
  Sizes = {sizes}
  MaxOps = {maxops}
  MaxBytes = {maxbytes}
  MayFail = {mayfail}
  FixedOrder = {fo}
  FixedOversize = {fz}
{props}
CHECK_DEADLOCK FALSE
"""
SAFETY = ["DeliveredIsPrefixOfHanded", "SyncImpliesFlushed", "TokenChain", "CountLimit", "SizeLimit", "ReleaseSound",
          "NoStuckWaiter"]


def cfg_text(spec="FairSpec", producers="{p1, p2}", nitems=2, sizes="{1, 3}", maxops=2, maxbytes=2, mayfail=True,
             fo=None, fz=None, invariants=SAFETY, properties=("NoCallAfterFailure",), live=None, symmetry=False):
    fo = VARIANT["FixedOrder"] if fo is None else fo
    fz = VARIANT["FixedOversize"] if fz is None else fz
    props = "".join(f"INVARIANT {i}\n" for i in invariants) + "".join(f"PROPERTY {p}\n" for p in properties)
    if live is None:
        live = "EveryProducerReturns" if (fo and fz) else "EveryProducerReturnsUnlessKnown"
    if live:
        props += f"PROPERTY {live}\n"
    if symmetry:
        props += "SYMMETRY ProducerSymmetry\n"
    return CFG_T.format(spec=spec, producers=producers, nitems=nitems, sizes=sizes, maxops=maxops, maxbytes=maxbytes,
                        mayfail="TRUE" if mayfail else "FALSE", fo="TRUE" if fo else "FALSE", fz="TRUE" if fz else "FALSE",
                        props=props)


def tlc_cfg(ctx, name, text, label, timeout_s=1200, expect_violation=None, **kw):
    from lib.tlcrun import work_dir
    wd = work_dir(name)
    p = os.path.join(wd, "gen.cfg")
    open(p, "w").write(text)
    res = run_tlc("Batcher", p, name, timeout_s=timeout_s, **kw)
    require_ok(res, label)
    if expect_violation:
        ctx.add_tlc(res, label)
        if res.ok or res.violated != expect_violation:
            raise MachineryError(f"{label}: expected TLC to violate {expect_violation}, got ok={res.ok} violated={res.violated}")
        return res
    ctx.add_tlc(res, label, exhaustive=True)
    if not res.ok:
        ctx.violation("model-" + str(res.violated), f"TLC: {res.violated} violated ({label})",
                      {"kind": "tlc", "cfg": text, "trace": [(a, s[:1200]) for a, s in res.trace[-8:]]})
    return res


def run_probe_refine(ctx):
    """the pinned original does NOT refine Pipe.tla (an oversize update parked in the overflow queue is overtaken)"""
    from lib.tlcrun import work_dir
    wd = work_dir("c05-probe-refine")
    p = os.path.join(wd, "gen.cfg")
    open(p, "w").write(cfg_text(spec="Spec", live="", invariants=[], properties=("PipeRefinement",), fo=False, fz=False))
    res = run_tlc("Batcher", p, "c05-probe-refine", timeout_s=1800)
    require_ok(res, "probe refinement")
    ctx.add_tlc(res, "probe: the pinned original pipeline does not refine Pipe.tla")
    if res.ok:
        raise MachineryError("probe: expected the pinned original to violate PipeRefinement")
    return res


def model_part(ctx):
    cur = "current code (FixedOrder=%s, FixedOversize=%s)" % (VARIANT["FixedOrder"], VARIANT["FixedOversize"])
    acts = ["PCheck", "PPut", "PWait", "CFirstGet", "CWinGet", "CWinToOverflow", "CWinClose", "COvGet",
            "CApiOk", "CApiFail", "CRel", "CFailBatch", "CFailOv", "CFailMain", "Stop"]
    tlc_cfg(ctx, "c05-refine", cfg_text(spec="Spec", live="", invariants=[], properties=("PipeRefinement",)),
            f"refinement, {cur}: Batcher.tla implements Pipe.tla (the FIFO + Flush(k) + FlushFail abstraction Durable.tla uses for the "
            "pipeline): every step of the queues / overflow / window / failure path is a Put, a Flush of a prefix, a Fail, or invisible")
    r = tlc_cfg(ctx, "c05-cur-safety", cfg_text(spec="Spec", live="", symmetry=True),
                f"exhaustive safety, {cur}: 2 producers x 2 calls, sizes {{1,3}}, MaxOps=2, MaxBytes=2, API may fail (producer symmetry)")
    if r.ok:
        vacuity_guard(r, acts, "Batcher safety")
    r = tlc_cfg(ctx, "c05-cur-live", cfg_text(sizes="{3}"),
                f"exhaustive safety+liveness (WF), {cur}: 2 producers x 2 calls, every update oversize, API may fail")
    if not ctx.quick:
        tlc_cfg(ctx, "c05-cur-t0", cfg_text(), f"exhaustive safety+liveness, {cur}: sizes {{1,3}}", timeout_s=3000)
        tlc_cfg(ctx, "c05-cur-t1", cfg_text(sizes="{1, 2, 3}"), f"exhaustive safety+liveness, {cur}: sizes {{1,2,3}}", timeout_s=3000)
        tlc_cfg(ctx, "c05-cur-t2", cfg_text(producers="{p1, p2, p3}", nitems=1, sizes="{1, 2, 3}", maxops=1),
                f"exhaustive safety+liveness, {cur}: 3 producers x 1 call, MaxOps=1", timeout_s=3000)
        tlc_cfg(ctx, "c05-cur-t3", cfg_text(spec="Spec", nitems=3, sizes="{1, 3}", maxops=3, mayfail=False, live="", symmetry=True),
                f"exhaustive safety, {cur}: 2 producers x 3 calls, no failure", timeout_s=3000)
    # regression of the model: on the pinned original the two historical deviations must be reachable
    tlc_cfg(ctx, "c05-probe-late", cfg_text(spec="Spec", fo=False, fz=False, invariants=["NeverLatePut"], properties=(), live=""),
            "probe: pinned original reaches the put-after-drain state", expect_violation="NeverLatePut")
    if not ctx.quick:
        r = run_probe_refine(ctx)
    tlc_cfg(ctx, "c05-probe-over", cfg_text(spec="Spec", fo=False, fz=False, invariants=["NeverOversizeParked"], properties=(), live=""),
            "probe: pinned original parks an oversize update", expect_violation="NeverOversizeParked")


# ---- direct oracles on a real execution -----------------------------------------------------------------

def classify_known(r):
    """Signature of a historical deviation this execution exhibits, or None."""
    mb = r["plan"]["maxbytes"]
    over = {i for i, s in r["sizes"].items() if s > mb}
    parked = [e["i"] for e in r["evs"] if e["ev"] == "OvPut" and e["i"] in over]
    if parked:
        return "oversize-not-first"
    # put after the consumer finished draining on failure
    failed_at = next((k for k, e in enumerate(r["evs"]) if (e["ev"] == "ApiRet" and not e["ok"]) or e["ev"] == "PageFail"), None)
    if failed_at is not None:
        flag_at = next((k for k, e in enumerate(r["evs"]) if e["ev"] == "FlagSet"), None)
        for k, e in enumerate(r["evs"]):
            if e["ev"] == "Put" and k > failed_at:
                got = any(x["ev"] == "MainGet" and x["i"] == e["i"] for x in r["evs"][k:])
                if not got:
                    return "late-put-after-drain"
    return None


def check_run(ctx, r, scen):
    evs = r["evs"]
    known = classify_known(r)
    if r["verdict"] in ("hang", "deadlock", "steps"):
        ctx.violation(known or "wedged", f"a synchronous create_checkpoint caller never returns: {r['verdict_info']}", scen)
        return
    mb, mo = r["plan"]["maxbytes"], r["plan"]["maxops"]
    delivered = [i for c in r["calls"] if c["ok"] for i in c["items"]]
    if delivered != r["handed"][:len(delivered)]:
        ctx.violation(known or "reordered-or-lost", f"delivered {delivered} is not a prefix of handed {r['handed']}", scen)
        return
    for k, c in enumerate(r["calls"]):
        if c["tok"] != k:
            ctx.violation("token-chain", f"call {k + 1} carried token {c['tok']}, expected {k}", scen)
            return
        if len(c["items"]) > mo:
            ctx.violation("count-limit", f"call {k + 1} carries {len(c['items'])} > {mo} updates", scen)
            return
        b = sum(r["sizes"][i] for i in c["items"])
        if b > mb and len(c["items"]) != 1:
            ctx.violation("size-limit", f"call {k + 1} carries {b} > {mb} bytes in {len(c['items'])} updates", scen)
            return
    seen_ok = set()
    failed = False
    ok_calls = [c for c in r["calls"] if c["ok"]]
    nok = 0
    for e in evs:
        if e["ev"] == "ApiCall" and failed:
            ctx.violation("call-after-failure", "API call issued after a failed call", scen)
            return
        if e["ev"] == "PageFail":
            failed = True
        if e["ev"] == "ApiRet":
            if e["ok"]:
                seen_ok.update(ok_calls[nok]["items"])
                nok += 1
            else:
                failed = True
        if e["ev"] == "PRet" and e["o"] == "ok":
            pos = r["handed"].index(e["i"])
            missing = [j for j in r["handed"][:pos + 1] if j not in seen_ok]
            if missing:
                ctx.violation(known or "released-before-delivery",
                              f"sync call for item {e['i']} returned before items {missing} were delivered", scen)
                return


def impl_part(ctx):
    rng = random.Random(ctx.seed + 5)
    traces, scens = [], []

    def record(r, scen):
        ctx.case(("run", json.dumps(scen["plan"], sort_keys=True), tuple(r["choices"] or ())[:500]))
        check_run(ctx, r, scen)
        if r["verdict"] is None or True:
            traces.append({"maxops": r["plan"]["maxops"], "maxbytes": r["plan"]["maxbytes"], "evs": r["evs"],
                           "hung": r["verdict"] is not None})
            scens.append(scen)

    # (a) DFS on two tiny plans that contain the historically racy windows
    tiny = [
        {"producers": [[[300, False], [300, True]]], "maxops": 250, "maxbytes": 1000, "window": 0.0, "fail_at": 1},
        {"producers": [[[300, True]], [[300, True]]], "maxops": 2, "maxbytes": 1000, "window": 0.0, "fail_at": 1},
        {"producers": [[[300, False], [1150, True]]], "maxops": 250, "maxbytes": 1000, "window": 1.0, "fail_at": None},
        # non-ASCII payloads (escaped on the wire): three updates that fit only two at a time
        {"producers": [[[450, False], [450, False], [450, True]]], "maxops": 250, "maxbytes": 1000, "window": 1.0, "fail_at": None, "unicode": True},
        # the call succeeds, its answer is paginated, the page fetch fails (with another update queued / in the overflow queue)
        {"producers": [[[300, True]], [[300, True]]], "maxops": 1, "maxbytes": 1000, "window": 0.0, "fail_at": None, "page_fail_at": 1},
        {"producers": [[[600, False], [600, True]]], "maxops": 250, "maxbytes": 1000, "window": 1.0, "fail_at": None, "page_fail_at": 1},
    ]
    budget = 120 if ctx.quick else 3000
    for plan in tiny:
        for r, st in explore(lambda s, p=plan: run_batcher(p, s), max_preempt=2, max_runs=budget):
            record(r, {"kind": "batcher", "plan": plan, "choices": r["choices"], "mode": "dfs"})
    # (b) random / PCT with adversarial timing
    n = 150 if ctx.quick else 4000
    for k in range(n):
        plan = random_plan(rng)
        seed = rng.randrange(1 << 30)
        strat = ds.PCTStrategy(seed, depth=rng.choice([1, 2, 3]), est_steps=300, p_time=0.03) if k % 3 == 0 \
            else ds.RandomStrategy(seed, p_time=rng.choice([0.0, 0.02, 0.08]))
        r = run_batcher(plan, strat)
        record(r, {"kind": "batcher", "plan": plan, "choices": r["choices"], "mode": "random"})
    # (c) trace validation, one TLC run per batcher configuration
    groups = {}
    for t, s in zip(traces, scens):
        groups.setdefault((t["maxops"], t["maxbytes"]), []).append((t, s))
    for (mo, mb), lst in sorted(groups.items()):
        sizes = sorted({e["size"] for t, _ in lst for e in t["evs"] if e["ev"] == "Put"})
        text = cfg_text(spec="TraceSpec", producers='{"p1", "p2", "p3"}', nitems=4, sizes="{" + ", ".join(map(str, sizes)) + "}",
                        maxops=mo, maxbytes=mb, properties=("NoCallAfterFailure",), live="")
        text = text.replace("CHECK_DEADLOCK FALSE", "CONSTRAINT Progress\nCONSTRAINT Prune\nPOSTCONDITION Accepted\nCHECK_DEADLOCK FALSE")

        def classify(trace, scen, reached):
            return None
        tracecheck.validate(ctx, "BatcherTrace", "", [t for t, _ in lst], [s for _, s in lst], f"c05-trace-{mo}-{mb}",
                            cfg_text=text, classify=classify,
                            label=f"trace validation of {len(lst)} real pipeline executions (MaxOps={mo}, MaxBytes={mb})")
    if traces:
        ctx.sample({"plan": scens[-1]["plan"], "real_trace_excerpt": [{k: v for k, v in e.items() if v not in ("", 0, False, [])}
                                                                          for e in traces[-1]["evs"][:14]]})


def run(ctx):
    ctx.rule = ("model: all reachable states of Batcher.tla for the stated constants (every arrival interleaving, window closing, size and "
                "sync pattern, optional API failure); implementation: one case = one distinct (plan, schedule) execution of the real "
                "ExecutionState pipeline, distinct by plan and full choice sequence")
    ctx.assumptions += ["the service client is a stub that records calls and fails on request; detsched shims replace queue.Queue/Event/time",
                        "window timing: the virtual clock may advance while threads are runnable (superset of real timings, sound for safety)"]
    model_part(ctx)
    impl_part(ctx)
    from checks import batcher_replay
    batcher_replay.run_part(ctx)


def replay(d):
    sc = d["replay"]
    if sc.get("kind") == "batcher-replay":
        from checks import batcher_replay
        return batcher_replay.replay(d)
    if sc.get("kind") != "batcher":
        print(json.dumps(d, indent=1)[:5000])
        return 0
    r = run_batcher(sc["plan"], ds.ScriptedStrategy(sc["choices"]))
    print("verdict", r["verdict"], r["verdict_info"])
    print("handed", r["handed"], "calls", r["calls"], "outcomes", r["outcomes"])
    for e in r["evs"]:
        print({k: v for k, v in e.items() if v not in ("", 0, False, [])})
    return 0
