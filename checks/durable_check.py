"""Generic runner for the properties decided with Durable.tla (+ DurableTrace + direct oracles)."""
from __future__ import annotations

import json
import random

from checks import oracles
from checks.durable_common import (ALL_INV, ALL_PROPS, CURATED, gen_program, gen_scenario, model_check, run_campaign,
                                   scen_of, validate_executions)
from harness.driver import Execution

ASSUME = [
    "backend contract = spec/Backend section of Durable.tla / harness/backend.py (the real service is not available offline)",
    "detsched: time advances only when no thread is runnable (events at the same virtual instant interleave arbitrarily)",
    "slow-holder schedules assume that a thread may be descheduled for up to 0.5 s (in total) while it holds a lock",
    "bounded: programs of <= 6 operations, nesting depth <= 2; TLC constants as listed per run",
]


def crash_sweep(prog, base_sc, max_points=40, rng=None):
    """Fault enumeration: learn the number of scheduling steps of each invocation from a crash-free run, then crash
    each invocation at (a sample of) every step."""
    e0 = Execution(prog, dict(base_sc)).run()
    items = []
    for r in e0.invocations:
        steps = list(range(2, max(3, r.steps)))
        if len(steps) > max_points and rng is not None:
            steps = sorted(rng.sample(steps, max_points))
        for s in steps:
            sc = dict(base_sc)
            sc["crash"] = {str(r.inv): s}
            items.append((prog, sc))
    return e0, items


def run_durable(ctx, *, model, programs, oracle_fns, n_random_progs=(6, 60), n_scen=(4, 12), scen_kw=None, gen_kw=None,
                sweep=(), extra_rule="", liveness_on=(), post=None, model_kw=None):
    ctx.rule = ("model: every reachable state of Durable.tla for each listed program (every crash point, flush split, timer / external "
                "completion order, API failure position, within the stated budgets); implementation: one case = one distinct "
                "(program, scenario) multi-invocation execution of the real SDK against ModelBackend under detsched; each execution is "
                "checked by direct oracles and validated as a behaviour of Durable.tla. " + extra_rule)
    ctx.assumptions += ASSUME
    rng = random.Random(ctx.seed * 7919 + sum(map(ord, ctx.pid)))
    names = model if ctx.quick else sorted(set(model) | set(CURATED))
    model_check(ctx, names, **(model_kw or {}))
    for nm in liveness_on:
        model_check(ctx, [nm], liveness=True, tag="live", max_crashes=1, invariants=[], properties=[])
    # campaign
    progs = [CURATED[p] if isinstance(p, str) else p for p in programs]
    for _ in range(n_random_progs[0] if ctx.quick else n_random_progs[1]):
        progs.append(gen_program(rng, **(gen_kw or {})))
    items = []
    ns = n_scen[0] if ctx.quick else n_scen[1]
    for p in progs:
        items.append((p, {"seed": rng.randrange(1 << 30)}))                 # uninterrupted reference run
        for _ in range(ns):
            items.append((p, gen_scenario(rng, p, **(scen_kw or {}))))
    execs = run_campaign(ctx, items)
    for pname in sweep:
        e0, sw = crash_sweep(CURATED[pname], {"seed": rng.randrange(1 << 30)}, max_points=25 if ctx.quick else 400, rng=rng)
        execs.append(e0)
        execs.extend(run_campaign(ctx, sw))
    ctx.notes["executions"] = len(execs)
    ctx.notes["invocations"] = sum(len(e.invocations) for e in execs)
    ctx.notes["final_outcomes"] = {}
    for e in execs:
        ctx.notes["final_outcomes"][e.final] = ctx.notes["final_outcomes"].get(e.final, 0) + 1
    for e in execs:
        for fn in oracle_fns:
            fn(ctx, e)
    if post:
        more = post(ctx, execs)
        if more:
            execs.extend(more)
    validate_executions(ctx, execs, f"{ctx.pid.lower()}-trace")
    # programs with a map / parallel are outside Durable.tla: their executor invocations are validated against Executor.tla
    conc = [e for e in execs if any(n.get("k") in ("map", "par") for n in e.prog.get("nodes", []))]
    if conc:
        from checks.conc_check import validate_exec_traces
        validate_exec_traces(ctx, conc, [], name=f"{ctx.pid.lower()}_conc_extrace")
    return execs


def fault_enumeration(ctx, names, oracle_fns, faults=None, latencies=(0.0, 0.3), seed_salt=606):
    """every program x every checkpoint API call index x error class x API latency"""
    from harness.backend import FAULTS
    rng = random.Random(ctx.seed + seed_salt)
    faults = faults or (list(FAULTS) if not ctx.quick else ["throttle429", "invalid_param", "invalid_token"])
    items = []
    for nm in names:
        prog = CURATED[nm] if isinstance(nm, str) else nm
        e0 = Execution(prog, {"seed": 1}).run()
        ncalls = e0.backend.api_calls
        for k in range(1, ncalls + 1):
            for f in faults:
                for lat in latencies:
                    for rep in range(1 if ctx.quick else 3):
                        sc = {"seed": rng.randrange(1 << 30), "faults": {str(k): f},
                              "strategy": "pct" if rep else "random", "max_inv": 14, "api_latency": lat}
                        items.append((prog, sc))
                        # the same fault with the batch applied by the backend and only the answer lost
                        if not ctx.quick or (k + len(items)) % 3 == 0:
                            items.append((prog, dict(sc, faults_after_apply=[str(k)])))
        # the checkpoint call succeeds, its answer is paginated, and fetching the next page fails
        for k in range(1, min(ncalls, 6) + 1):
            for pg in (0, 1):
                items.append((prog, {"seed": rng.randrange(1 << 30), "resp_page": pg, "get_state_fault": k, "max_inv": 14,
                                     "api_latency": latencies[k % len(latencies)]}))
    ex = run_campaign(ctx, items)
    ctx.notes["fault_positions"] = ctx.notes.get("fault_positions", 0) + len(items)
    for e in ex:
        for fn in oracle_fns:
            fn(ctx, e)
    return ex


def batch_limit_sweep(ctx, names, oracle_fns, lo=90, hi=720, step=4, ops=(250,)):
    """every program x every byte limit of the checkpoint batcher in [lo, hi): each position at which an update stops fitting
    into the current batch (overflow path) is reached, with the asynchronous STARTs of nested contexts queued behind it"""
    items = []
    for nm in names:
        prog = CURATED[nm] if isinstance(nm, str) else nm
        for b in range(lo, hi, step):
            for o in ops:
                items.append((prog, {"seed": 11 + b, "batcher": {"bytes": b, "ops": o}, "max_inv": 14}))
    ex = run_campaign(ctx, items)
    ctx.notes["batch_limit_positions"] = ctx.notes.get("batch_limit_positions", 0) + len(items)
    for e in ex:
        for fn in oracle_fns:
            fn(ctx, e)
    return ex


def replay_execution(d):
    sc = d["replay"]
    if sc.get("kind") != "execution":
        print(json.dumps(d, indent=1)[:6000])
        return 0
    scen = dict(sc["scenario"])
    if sc.get("choices"):
        scen["scripts"] = sc["choices"]
    e = Execution(sc["prog"], scen).run()
    print("final:", e.final, [(i.inv, i.outcome, i.verdict) for i in e.invocations])
    for ev in e.trace:
        print({k: v for k, v in ev.items() if k not in ("seq",)})
    print("stream:", [(u["inv"], u["id"][:6], u["type"], u["action"], u["legal"]) for u in e.backend.stream])
    print("illegal:", e.backend.illegal)
    return 0
