"""The pipeline half of C06 (Batcher.tla FailStop properties + real pipeline runs with an injected failure)."""


def run_part(ctx):
    pass
