"""The pipeline half of C06: fail-stop of the checkpoint pipeline itself.

 (1) TLC on Batcher.tla with the API allowed to fail at any call: after the failing call no further call
     (NoCallAfterFailure), no caller released with success for an update that was not applied (ReleaseSound), no caller
     parked forever (NoStuckWaiter + EveryProducerReturns under weak fairness).
 (2) The real ExecutionState pipeline under detsched: every (plan, failing call number) of a family of plans, explored by
     preemption-bounded DFS and random/PCT schedules.  Direct fail-stop oracle per execution; every execution is also
     validated as a behaviour of Batcher.tla (BatcherTrace).
"""
from __future__ import annotations

import json
import random

from harness import detsched as ds
from harness.batch_harness import random_plan, run_batcher
from harness.explore import explore
from lib import tracecheck


def failstop_oracle(ctx, r, scen):
    """C06 on one pipeline execution with an injected API failure."""
    evs = r["evs"]
    if r["verdict"] in ("hang", "deadlock", "steps"):
        ctx.violation("pipeline-hang-after-failure", f"a create_checkpoint caller never returns after the failed call: {r['verdict_info']}", scen)
        return
    failed_k = next((k for k, e in enumerate(evs) if (e["ev"] == "ApiRet" and not e["ok"]) or e["ev"] == "PageFail"), None)
    if failed_k is None:
        return
    later_calls = [e for e in evs[failed_k + 1:] if e["ev"] == "ApiCall"]
    if later_calls:
        ctx.violation("call-after-failure", f"{len(later_calls)} checkpoint API call(s) issued after the failed call", scen)
        return
    delivered = {i for c in r["calls"] if c["ok"] for i in c["items"]}
    for i, o in r["outcomes"].items():
        if o == "ok" and i not in delivered:
            ctx.violation("sync-success-without-delivery", f"synchronous create_checkpoint for update {i} returned normally although the "
                          f"update never reached the backend (delivered={sorted(delivered)})", scen)
            return
    # every synchronous caller whose update was handed over and not delivered must have been released with the failure
    for i, sync in r["syncs"].items():
        if sync and i not in delivered and r["outcomes"].get(i) != "err":
            ctx.violation("sync-not-failed", f"synchronous caller of undelivered update {i} was released with {r['outcomes'].get(i)!r}", scen)
            return
    # a create_checkpoint that STARTS after the failure flag is visible must raise at once (no put)
    flag_k = next((k for k, e in enumerate(evs) if e["ev"] == "FlagSet"), None)
    if flag_k is not None:
        for k, e in enumerate(evs):
            if e["ev"] == "PCheck" and k > flag_k and not e["seen"]:
                ctx.violation("failure-flag-not-seen", "a caller read the failure flag as clear after it was set", scen)
                return


def run_part(ctx, scale=1.0):
    from checks import c05
    cur = "current code"
    if ctx.quick:
        c05.tlc_cfg(ctx, "c06-batcher-failstop", c05.cfg_text(spec="Spec", sizes="{1, 3}", mayfail=True, live="", symmetry=True),
                    f"Batcher.tla fail-stop ({cur}): 2 producers x 2 calls, sizes {{1,3}}, API may fail at any call; NoCallAfterFailure, "
                    "ReleaseSound, NoStuckWaiter (safety, producer symmetry)")
        c05.tlc_cfg(ctx, "c06-batcher-failstop-live", c05.cfg_text(sizes="{3}", mayfail=True),
                    f"Batcher.tla fail-stop liveness ({cur}): every update oversize, API may fail; EveryProducerReturns (WF)")
    else:
        c05.tlc_cfg(ctx, "c06-batcher-failstop", c05.cfg_text(sizes="{1, 3}", mayfail=True),
                    f"Batcher.tla fail-stop ({cur}): 2 producers x 2 calls, sizes {{1,3}}, API may fail at any call; NoCallAfterFailure, "
                    "ReleaseSound, NoStuckWaiter, EveryProducerReturns (WF)", timeout_s=3000)
    rng = random.Random(ctx.seed + 66)
    traces, scens = [], []

    def record(r, scen):
        ctx.case(("pipe", json.dumps(scen["plan"], sort_keys=True), tuple(r["choices"] or ())[:400]))
        failstop_oracle(ctx, r, scen)
        c05.check_run(ctx, r, scen)
        traces.append({"maxops": r["plan"]["maxops"], "maxbytes": r["plan"]["maxbytes"], "evs": r["evs"], "hung": r["verdict"] is not None})
        scens.append(scen)

    # (a) systematic: small plans x failing call number x preemption-bounded DFS
    fam = [
        {"producers": [[[300, True]], [[300, True]]], "maxops": 1, "maxbytes": 1000, "window": 0.0},
        {"producers": [[[300, False], [300, True]], [[300, True]]], "maxops": 2, "maxbytes": 1000, "window": 0.0},
        {"producers": [[[300, False], [300, False], [300, True]]], "maxops": 250, "maxbytes": 500, "window": 0.0},
        {"producers": [[[300, True], [300, True]], [["empty", True]]], "maxops": 250, "maxbytes": 1000, "window": 0.05},
    ]
    budget = int((60 if ctx.quick else 1500) * scale)
    for base in fam:
        for fail_at in (1, 2, 3):
            plan = dict(base, fail_at=fail_at)
            for r, _st in explore(lambda s, p=plan: run_batcher(p, s), max_preempt=2, max_runs=budget):
                record(r, {"kind": "batcher", "plan": plan, "choices": r["choices"], "mode": "dfs"})
        for page_fail_at in (1, 2):
            plan = dict(base, fail_at=None, page_fail_at=page_fail_at)
            for r, _st in explore(lambda s, p=plan: run_batcher(p, s), max_preempt=2, max_runs=budget // 2):
                record(r, {"kind": "batcher", "plan": plan, "choices": r["choices"], "mode": "dfs"})
    # (b) random plans, always with a failure
    for k in range(int((100 if ctx.quick else 3000) * scale)):
        plan = random_plan(rng)
        plan["fail_at"] = rng.choice([1, 1, 2, 3])
        seed = rng.randrange(1 << 30)
        strat = ds.PCTStrategy(seed, depth=rng.choice([1, 2, 3]), est_steps=300, p_time=0.03) if k % 2 else \
            ds.RandomStrategy(seed, p_time=rng.choice([0.0, 0.02, 0.08]))
        r = run_batcher(plan, strat)
        record(r, {"kind": "batcher", "plan": plan, "choices": r["choices"], "mode": "random"})
    ctx.notes["pipeline_failstop_runs"] = len(traces)
    # (c) trace validation against Batcher.tla
    groups = {}
    for t, s in zip(traces, scens):
        groups.setdefault((t["maxops"], t["maxbytes"]), []).append((t, s))
    for (mo, mb), lst in sorted(groups.items()):
        sizes = sorted({e["size"] for t, _ in lst for e in t["evs"] if e["ev"] == "Put"})
        text = c05.cfg_text(spec="TraceSpec", producers='{"p1", "p2", "p3"}', nitems=4, sizes="{" + ", ".join(map(str, sizes)) + "}",
                            maxops=mo, maxbytes=mb, properties=("NoCallAfterFailure",), live="")
        text = text.replace("CHECK_DEADLOCK FALSE", "CONSTRAINT Progress\nCONSTRAINT Prune\nPOSTCONDITION Accepted\nCHECK_DEADLOCK FALSE")
        tracecheck.validate(ctx, "BatcherTrace", "", [t for t, _ in lst], [s for _, s in lst], f"c06-pipe-trace-{mo}-{mb}",
                            cfg_text=text, classify=lambda trace, scen, reached: None,
                            label=f"trace validation of {len(lst)} failing pipeline executions (MaxOps={mo}, MaxBytes={mb})")


def replay(d):
    from checks import c05
    return c05.replay(d)
