"""C03 - write-ahead: no outcome is visible before the backend has accepted its record."""
from checks import oracles
from checks.durable_check import fault_enumeration, replay_execution, run_durable


def slow_api(ctx, execs):
    """checkpoint calls that take a long (virtual) time - seconds to minutes - with and without a failure at the end: a caller of a
    synchronous checkpoint must stay blocked for as long as the call is in flight"""
    from checks.durable_common import CURATED, run_campaign
    items = []
    for nm in ["s01_step_wait_retry", "s03_child_wfc", "s10_uncaught_failure"] + ([] if ctx.quick else ["s04_cb_invoke", "s12_wfc_three_polls"]):
        for lat in ((75.0,) if ctx.quick else (5.0, 75.0, 400.0)):
            items.append((CURATED[nm], {"seed": 77, "api_latency": lat, "hang_after": 4 * lat + 100, "max_inv": 14}))
            for k in (1, 2, 3):
                items.append((CURATED[nm], {"seed": 78 + k, "api_latency": lat, "hang_after": 4 * lat + 100, "max_inv": 14,
                                            "faults": {str(k): "invalid_param"}}))
    out = run_campaign(ctx, items)
    for e in out:
        for fn in (oracles.c03, oracles.c06, oracles.c07):
            fn(ctx, e)
    more = fault_enumeration(ctx, ["s01_step_wait_retry", "s03_child_wfc", "s12_wfc_three_polls", "s22_slow_steps", "s23_slow_caught"],
                             [oracles.c03, oracles.c06], faults=["invalid_param", "throttle429"])
    return out + more


def run(ctx):
    run_durable(ctx,
                model=["s01_step_wait_retry", "s03_child_wfc", "s04_cb_invoke", "s09_large_final"],
                programs=["s01_step_wait_retry", "s02_amo_retry_caughtfail", "s03_child_wfc", "s04_cb_invoke", "s09_large_final",
                          "s10_uncaught_failure", "s12_wfc_three_polls", "s16_wait_wait", "s22_slow_steps", "s23_slow_caught"],
                oracle_fns=[oracles.c03, oracles.c06, oracles.c07],
                scen_kw={"crash": 0.3, "faults": 0.5, "pct": 0.6},
                post=slow_api,
                extra_rule="Oracle: at every delivery the backend table (read in the same scheduling step) holds the terminal record; "
                           "PENDING only with something registered; the consumer thread is delayed arbitrarily by PCT/random schedules; "
                           "checkpoint API faults at random call positions.")


replay = replay_execution
