"""C03 - write-ahead: no outcome is visible before the backend has accepted its record."""
from checks import oracles
from checks.durable_check import fault_enumeration, replay_execution, run_durable


def run(ctx):
    run_durable(ctx,
                model=["s01_step_wait_retry", "s03_child_wfc", "s04_cb_invoke", "s09_large_final"],
                programs=["s01_step_wait_retry", "s02_amo_retry_caughtfail", "s03_child_wfc", "s04_cb_invoke", "s09_large_final",
                          "s10_uncaught_failure", "s12_wfc_three_polls", "s16_wait_wait", "s22_slow_steps", "s23_slow_caught"],
                oracle_fns=[oracles.c03, oracles.c06, oracles.c07],
                scen_kw={"crash": 0.3, "faults": 0.5, "pct": 0.6},
                post=lambda c, ex: fault_enumeration(c, ["s01_step_wait_retry", "s03_child_wfc", "s12_wfc_three_polls", "s22_slow_steps",
                                                        "s23_slow_caught"], [oracles.c03, oracles.c06], faults=["invalid_param", "throttle429"]),
                extra_rule="Oracle: at every delivery the backend table (read in the same scheduling step) holds the terminal record; "
                           "PENDING only with something registered; the consumer thread is delayed arbitrarily by PCT/random schedules; "
                           "checkpoint API faults at random call positions.")


replay = replay_execution
