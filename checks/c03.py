"""C03 - write-ahead: no outcome is visible before the backend has accepted its record."""
from checks import oracles
from checks.durable_check import fault_enumeration, replay_execution, run_durable


def slow_api(ctx, execs):
    """checkpoint calls that take a long (virtual) time - seconds to minutes - with and without a failure at the end: a caller of a
    synchronous checkpoint must stay blocked for as long as the call is in flight"""
    from checks.durable_common import CURATED, run_campaign
    items = []
    for nm in ["s01_step_wait_retry", "s03_child_wfc", "s10_uncaught_failure"] + ([] if ctx.quick else ["s04_cb_invoke", "s12_wfc_three_polls"]):
        for lat in ((75.0,) if ctx.quick else (5.0, 75.0, 400.0)):
            items.append((CURATED[nm], {"seed": 77, "api_latency": lat, "hang_after": 4 * lat + 100, "max_inv": 14}))
            for k in (1, 2, 3):
                items.append((CURATED[nm], {"seed": 78 + k, "api_latency": lat, "hang_after": 4 * lat + 100, "max_inv": 14,
                                            "faults": {str(k): "invalid_param"}}))
    # waits / step retries / condition polls inside a branch that is resumed IN-PROCESS by the local timer while a sibling keeps
    # the invocation alive: the branch may only go on once an answer of the backend shows the timer's effect - also when the
    # backend fires its timers late (`timer_lag`: its own latency, or a local clock that runs ahead)
    conc = [{"nodes": [{"k": "par", "branches": [[{"k": "wait", "s": 1}, {"k": "step"}], [{"k": "step", "dur": 3.0}, {"k": "step"}]]}, {"k": "step"}]},
            {"nodes": [{"k": "map", "branches": [[{"k": "step", "fail": 1, "max": 2}, {"k": "wait", "s": 2}], [{"k": "step", "dur": 2.5}, {"k": "step", "dur": 2.5}]]}]},
            {"nodes": [{"k": "par", "branches": [[{"k": "wfc", "polls": 2}], [{"k": "wait", "s": 1}, {"k": "wait", "s": 1}], [{"k": "step", "dur": 4.0}]]}, {"k": "step"}]}]
    for p in conc:
        for k, lag in enumerate((0.0, 0.4, 3.0, 45.0) if ctx.quick else (0.0, 0.0, 0.2, 0.4, 1.0, 3.0, 10.0, 45.0)):
            items.append((p, {"seed": 300 + k, "timer_lag": lag, "api_latency": (0.0, 0.05, 0.3)[k % 3], "max_inv": 14,
                              "strategy": "pct" if k % 2 else "random"}))
    # the same for sequential programs re-invoked (crash / Lambda retry) while a late timer is still outstanding
    for nm in ["s01_step_wait_retry", "s16_wait_wait"]:
        for k in range(3 if ctx.quick else 12):
            items.append((CURATED[nm], {"seed": 320 + k, "timer_lag": (3.0, 45.0)[k % 2], "crash_prob": 0.6, "crash_max_step": 150, "max_inv": 16}))
    # a helper thread of the handler is still inside a durable call (its synchronous record queued behind a call in flight) when the
    # handler returns: the call must not return a result for a record the backend never got
    helper = {"nodes": [{"k": "uthreads", "nojoin": True, "bodies": [[{"k": "step"}]]}]}
    helper2 = {"nodes": [{"k": "step"}, {"k": "uthreads", "nojoin": True, "bodies": [[{"k": "step"}, {"k": "step"}], [{"k": "step"}]]}]}
    for p in (helper, helper2):
        for k in range(24 if ctx.quick else 120):
            items.append((p, {"seed": 40 + k, "max_inv": 3, "api_latency": 75.0, "hang_after": 1000.0,
                              "strategy": "pct" if k % 2 else "random"}))
    out = run_campaign(ctx, items)
    for e in out:
        for fn in (oracles.c03, oracles.c03_parked_on_recorded_retry, oracles.c06, oracles.c07):
            fn(ctx, e)
    more = fault_enumeration(ctx, ["s01_step_wait_retry", "s03_child_wfc", "s12_wfc_three_polls", "s22_slow_steps", "s23_slow_caught"],
                             [oracles.c03, oracles.c06], faults=["invalid_param", "throttle429"])
    return out + more


def run(ctx):
    run_durable(ctx,
                model=["s01_step_wait_retry", "s03_child_wfc", "s04_cb_invoke", "s09_large_final"],
                programs=["s01_step_wait_retry", "s02_amo_retry_caughtfail", "s03_child_wfc", "s04_cb_invoke", "s09_large_final",
                          "s10_uncaught_failure", "s12_wfc_three_polls", "s16_wait_wait", "s22_slow_steps", "s23_slow_caught",
                          # final ERRORS raised to user code (caught there) by contexts whose failure comes from the SDK's own error
                          # classes: a failed / timed-out callback inside wait_for_callback, a failed invoke inside a child context
                          "s05_wfcb_childfail_wfcfail",
                          {"nodes": [{"k": "wfcb", "caught": True}, {"k": "step"}, {"k": "wait"}, {"k": "step"}]},
                          {"nodes": [{"k": "child", "caught": True, "body": [{"k": "step"}, {"k": "invoke"}]}, {"k": "step"}, {"k": "wait"}]},
                          {"nodes": [{"k": "child", "caught": True, "body": [{"k": "cb", "between": []}]}, {"k": "step"}]},
                          # a step that is retried twice IN PROCESS (a slow sibling keeps the invocation alive): every RETRY is durable
                          # before the branch parks on it, whenever the sibling ends
                          {"nodes": [{"k": "par", "branches": [[{"k": "step", "fail": 2, "max": 3}, {"k": "step"}], [{"k": "step", "dur": 1.5}]]}, {"k": "step"}]},
                          {"nodes": [{"k": "par", "branches": [[{"k": "step", "fail": 2, "max": 3}, {"k": "step"}], [{"k": "step", "dur": 2.5}]]}, {"k": "step"}]},
                          {"nodes": [{"k": "map", "branches": [[{"k": "step", "fail": 2, "max": 3}], [{"k": "step", "dur": 8.0}]]}, {"k": "step"}]}],
                oracle_fns=[oracles.c03, oracles.c03_parked_on_recorded_retry, oracles.c06, oracles.c07],
                scen_kw={"crash": 0.3, "faults": 0.5, "pct": 0.6, "ext_fail": 0.7},
                post=slow_api,
                extra_rule="Oracle: at every delivery the backend table (read in the same scheduling step) holds the terminal record; "
                           "PENDING only with something registered; the consumer thread is delayed arbitrarily by PCT/random schedules; "
                           "checkpoint API faults at random call positions.")


replay = replay_execution
