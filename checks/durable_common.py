"""Shared machinery of the checks decided with Durable.tla: curated program family, program / scenario generators,
TLC model checking of the family, execution campaigns of the real SDK, trace validation with event binding."""
from __future__ import annotations

import json
from harness import detsched as ds
import os
import random

from harness.driver import Execution
from harness.durable_trace import Unsupported, convert
from harness.progspec import flatten, write_mc
from lib import tracecheck
from lib.tlcrun import MachineryError, require_ok, run_tlc, work_dir

# ---- curated sequential programs (every node kind, nesting, caught/uncaught, large/small) ---------------
CURATED = {
    "s01_step_wait_retry": {"nodes": [{"k": "step"}, {"k": "wait", "s": 1}, {"k": "step", "fail": 1, "max": 2}]},
    "s02_amo_retry_caughtfail": {"nodes": [{"k": "step", "sem": "AMO", "fail": 1, "max": 2},
                                           {"k": "step", "caught": True, "fail": -1, "max": 1}]},
    "s03_child_wfc": {"nodes": [{"k": "child", "body": [{"k": "step"}, {"k": "wait"}]}, {"k": "wfc", "polls": 2}]},
    "s04_cb_invoke": {"nodes": [{"k": "cb", "between": [{"k": "step"}], "caught": True}, {"k": "invoke", "caught": True}]},
    "s05_wfcb_childfail_wfcfail": {"nodes": [{"k": "wfcb"}, {"k": "child", "body": [{"k": "step", "fail": -1, "max": 1}], "caught": True},
                                             {"k": "wfc", "polls": 2, "fail_at": 2, "caught": True}]},
    "s06_amo_three_attempts": {"nodes": [{"k": "step", "sem": "AMO", "fail": 2, "max": 3}, {"k": "step"}]},
    "s07_nested_children": {"nodes": [{"k": "child", "body": [{"k": "child", "body": [{"k": "step"}]}, {"k": "step"}]}, {"k": "step"}]},
    "s08_large_child": {"nodes": [{"k": "child", "large": True, "body": [{"k": "step"}, {"k": "step", "sem": "AMO"}]}, {"k": "wait"}, {"k": "step"}]},
    "s09_large_final": {"nodes": [{"k": "step"}, {"k": "wait"}], "final_large": True},
    "s10_uncaught_failure": {"nodes": [{"k": "step"}, {"k": "step", "fail": -1, "max": 2}]},
    "s11_invoke_uncaught": {"nodes": [{"k": "invoke"}, {"k": "step"}]},
    "s12_wfc_three_polls": {"nodes": [{"k": "wfc", "polls": 3}, {"k": "step"}]},
    "s13_child_raises_caught": {"nodes": [{"k": "child", "raises": True, "caught": True, "body": [{"k": "step"}]}, {"k": "step"}]},
    "s14_amo_exhaust": {"nodes": [{"k": "step", "sem": "AMO", "fail": -1, "max": 2, "caught": True}, {"k": "step"}]},
    "s15_cb_uncaught": {"nodes": [{"k": "step"}, {"k": "cb", "between": []}, {"k": "step"}]},
    "s16_wait_wait": {"nodes": [{"k": "wait"}, {"k": "wait"}, {"k": "step", "sem": "AMO"}]},
    "s17_child_wfc_inside": {"nodes": [{"k": "child", "body": [{"k": "wfc", "polls": 2}, {"k": "step", "fail": 1, "max": 2}]}]},
    "s18_wfcb_retry_submit": {"nodes": [{"k": "wfcb", "fail": 1, "max": 2}, {"k": "step"}]},
    "s19_wfcfail_then_wait": {"nodes": [{"k": "wfc", "polls": 2, "fail_at": 1, "caught": True}, {"k": "wait"}, {"k": "step"}]},
    "s21_step_then_amo": {"nodes": [{"k": "step"}, {"k": "step", "sem": "AMO", "fail": 1, "max": 2}, {"k": "step"}]},
    "s22_slow_steps": {"nodes": [{"k": "step", "dur": 0.3}, {"k": "step", "dur": 0.25, "sem": "AMO"}, {"k": "wfc", "polls": 1}]},
    "s23_slow_caught": {"nodes": [{"k": "step", "dur": 0.3, "caught": True}, {"k": "step", "dur": 0.25, "caught": True},
                                  {"k": "child", "caught": True, "body": [{"k": "step", "dur": 0.3}]}]},
    "s24_blanket_except": {"nodes": [{"k": "step", "dur": 0.3, "caught": "all"}, {"k": "step", "dur": 0.25, "caught": "all"},
                                     {"k": "child", "caught": "all", "body": [{"k": "step", "dur": 0.3}]},
                                     {"k": "wfc", "polls": 1, "caught": "all"}]},
    "s25_sync_start_behind_async": {"nodes": [{"k": "child", "body": [{"k": "wait"}, {"k": "step"}]},
                                              {"k": "child", "body": [{"k": "cb", "between": []}, {"k": "step", "sem": "AMO"}]},
                                              {"k": "child", "body": [{"k": "invoke"}]}]},
    "s20_handler_raises": {"nodes": [{"k": "step"}, {"k": "wait"}], "final_raise": True},
}

QUICK_MODEL = ["s01_step_wait_retry", "s02_amo_retry_caughtfail", "s03_child_wfc", "s04_cb_invoke", "s06_amo_three_attempts",
               "s08_large_child", "s09_large_final", "s13_child_raises_caught"]

ALL_INV = ["C01_NoReexecution", "C02_SameObservation", "C03_WriteAhead", "C04_AtMostOnce", "C11_ValidHistory",
           "C12_StrategyArg", "C13_StateThreading", "C16_LargeFinal", "C12_RetryBound", "C12_ExactRuns",
           "C07_PendingIsWakeable"]
ALL_PROPS = ["TerminalStable", "C06_NoSuccessAfterFailure"]

VARIANT = json.load(open(os.path.join(os.path.dirname(os.path.dirname(os.path.abspath(__file__))), "spec", "variant.json")))


def ext_for_model(prog):
    """external outcomes explored by TLC for callbacks / invokes of a program"""
    def walk(nodes):
        for n in nodes:
            if n["k"] == "cb":
                n.setdefault("ext", ["SUCCEEDED", "FAILED", "TIMED_OUT", "CANCELLED"])
                walk(n.get("between", []))
            elif n["k"] == "invoke":
                n.setdefault("ext", ["SUCCEEDED", "FAILED", "STOPPED"])
            elif n["k"] == "wfcb":
                n.setdefault("ext", ["SUCCEEDED", "FAILED"])
            elif n["k"] == "child":
                walk(n.get("body", []))
    p = json.loads(json.dumps(prog))
    walk(p["nodes"])
    return p


def model_check(ctx, names, *, invariants=ALL_INV, properties=ALL_PROPS, max_crashes=None, max_api_fails=1, max_inv=None,
                liveness=False, tag="dur", timeout_s=1500, immediate_ext=True, with_paging=False):
    """TLC on Durable.tla for each named curated program. Returns {name: TlcResult}."""
    out = {}
    for name in names:
        prog = ext_for_model(CURATED[name]) if isinstance(name, str) else name
        label = name if isinstance(name, str) else "generated"
        ins = flatten(prog)
        mc = max_crashes if max_crashes is not None else (1 if ctx.quick else 2)
        mi = max_inv if max_inv is not None else (6 if ctx.quick else 8)
        wd = work_dir(f"{tag}-{ctx.pid}-{label}")
        props = list(properties) + (["C07_EventuallyTerminal"] if liveness else [])
        mod, cfg = write_mc(wd, label, ins, spec="FairSpec" if liveness else "Spec", max_crashes=mc, max_api_fails=max_api_fails,
                            max_inv=mi, immediate_ext=immediate_ext, amo_ready_start=VARIANT.get("AmoReadyStart", False), with_paging=with_paging,
                            invariants=invariants, properties=props)
        res = run_tlc(mod, cfg, f"{tag}-{ctx.pid}-{label}", timeout_s=timeout_s)
        require_ok(res, f"model checking Durable.tla on {label}")
        ctx.add_tlc(res, f"Durable.tla exhaustive: program {label} ({len(ins)} instr), crashes<={mc}, api failures<={max_api_fails}, "
                         f"invocations<={mi}{', liveness' if liveness else ''}", exhaustive=True)
        if not res.ok:
            ctx.violation(f"model-{res.violated}", f"TLC: {res.violated} violated on program {label}",
                          {"kind": "tlc", "program": prog, "trace": [(a.split(' line')[0], s[:700]) for a, s in res.trace[-10:]]})
        out[label] = res
    return out


# ---- generators -----------------------------------------------------------------------------------------

def gen_program(rng: random.Random, max_nodes=5, depth=2, kinds=None):
    kinds = kinds or ["step", "step", "step", "wait", "cb", "invoke", "wfc", "child", "wfcb"]

    def node(d):
        k = rng.choice(kinds if d < depth else [x for x in kinds if x not in ("child",)])
        if k == "step":
            n = {"k": "step"}
            if rng.random() < 0.4:
                n["sem"] = "AMO"
            r = rng.random()
            if r < 0.35:
                n["fail"] = rng.choice([1, 1, 2, -1])
                n["max"] = rng.choice([1, 2, 3])
            if rng.random() < 0.3:
                n["caught"] = True
            if rng.random() < 0.4:
                n["val"] = rng.randrange(10)
            if rng.random() < 0.3:
                n["dur"] = rng.choice([0.05, 0.25, 0.3, 1.2])     # the user function takes virtual time (batch window is 1 s)
            return n
        if k == "wait":
            return {"k": "wait", "s": rng.choice([1, 2])}
        if k == "cb":
            n = {"k": "cb", "between": [node(d + 1)] if rng.random() < 0.5 and d < depth else []}
            n["between"] = [b for b in n["between"] if b["k"] in ("step", "wait")]
            if rng.random() < 0.5:
                n["caught"] = True
            return n
        if k == "invoke":
            return {"k": "invoke", "caught": rng.random() < 0.5}
        if k == "wfc":
            n = {"k": "wfc", "polls": rng.choice([1, 2, 3])}
            if rng.random() < 0.25:
                n["fail_at"] = rng.choice([1, 2])
                n["caught"] = rng.random() < 0.6
            return n
        if k == "child":
            n = {"k": "child", "body": [node(d + 1) for _ in range(rng.choice([1, 2]))]}
            if rng.random() < 0.2:
                n["large"] = True
            if rng.random() < 0.2:
                n["raises"] = True
                n["caught"] = rng.random() < 0.7
            return n
        if k == "wfcb":
            n = {"k": "wfcb"}
            if rng.random() < 0.3:
                n["fail"] = 1
                n["max"] = 2
            return n
        raise AssertionError(k)
    return {"nodes": [node(0) for _ in range(rng.randrange(1, max_nodes + 1))]}


def ext_paths(prog):
    """paths of callback / invoke operations of a program (for scenario external outcomes)"""
    out = []

    def walk(nodes, prefix):
        i = 0
        for n in nodes:
            if n["k"] == "log":
                continue
            i += 1
            p = f"{prefix}{i}"
            if n["k"] == "cb":
                out.append((p, "cb"))
                extra = [b for b in n.get("between", []) if b["k"] != "log"]
                i += len(extra)
            elif n["k"] == "invoke":
                out.append((p, "invoke"))
            elif n["k"] == "wfcb":
                out.append((p + "/1", "cb"))
            elif n["k"] == "child":
                walk(n.get("body", []), p + "/")
    walk(prog["nodes"], "")
    return out


def gen_scenario(rng: random.Random, prog, *, crash=0.5, faults=0.0, paging=0.5, ext_fail=0.4, pct=0.3, small_batch=0.3):
    sc = {"seed": rng.randrange(1 << 30)}
    if rng.random() < small_batch:
        # batch limits around the size of one or two updates: every split / overflow position of the pipeline is reached
        sc["batcher"] = {"bytes": rng.choice([120, 200, 260, 320, 400, 520, 700, 1000]), "ops": rng.choice([1, 2, 3, 250, 250])}
    if rng.random() < crash:
        sc["crash_prob"] = rng.choice([0.3, 0.6, 0.9])
        sc["crash_max_step"] = rng.choice([60, 150, 300])
    if rng.random() < faults:
        sc["faults"] = {str(rng.randrange(1, 7)): rng.choice(["throttle429", "service500", "invalid_token", "invalid_param",
                                                             "notfound404", "conflict409"])}
        if rng.random() < 0.4:
            sc["faults_after_apply"] = list(sc["faults"])       # the call is applied, only its answer is lost
    if rng.random() < paging:
        sc["paging"] = "random"
        if rng.random() < 0.15:
            sc["get_state_fault"] = rng.randrange(1, 5)     # one page fetch (of the initial history or of an answer) fails
    if rng.random() < paging * 0.6:
        sc["resp_page"] = rng.choice([0, 1, 1, 2])      # checkpoint RESPONSES are paginated too (inline page + NextMarker)
    if rng.random() < pct:
        sc["strategy"] = "pct"
    ext = {}
    for p, kind in ext_paths(prog):
        if rng.random() < ext_fail:
            outs = ["FAILED", "TIMED_OUT", "STOPPED"] + (["CANCELLED"] if kind == "cb" else [])
            ext[p] = [rng.choice(outs), "boom-" + p]
            how = random.Random(sc["seed"] ^ (sum(map(ord, p)) * 131)).choice([None, None, "noerr", "nomsg"])    # derived generator
            if how:
                ext[p].append(how)      # service-generated failures: a status without an error object / an error type without a message
        elif kind == "cb" and rng.random() < 0.35:
            ext[p] = ["SUCCEEDED", rng.choice(["", "0", "null", " ", "false"])]     # payloads that are falsy / look like JSON
    if ext:
        sc["ext"] = ext
    sc["api_latency"] = rng.choice([0.0, 0.0, 0.05, 0.3])
    sc["ext_order"] = rng.choice(["random", "timers_first", "ext_first"])
    sc["max_inv"] = 14
    # the backend fires its timers late (its own latency, or a Lambda clock ahead of the backend's): derived generator, so that
    # the draws of the scenarios that follow are unchanged
    r2 = random.Random(sc["seed"] ^ 0x5A17)
    if r2.random() < 0.25:
        sc["timer_lag"] = r2.choice([0.4, 3.0, 45.0])
    if (sc.get("paging") or "resp_page" in sc) and r2.random() < 0.5:
        # listings with empty pages: somewhere in the middle (still followed by operations) and / or at the very end
        sc["empty_pages"] = sorted({r2.randrange(1, 5) for _ in range(r2.choice([1, 1, 2]))})
        sc["trailing_empty_page"] = r2.random() < 0.4
    return sc


def run_campaign(ctx, items):
    """items: iterable of (prog, scenario). Returns list of finished Execution objects."""
    out = []
    for prog, sc in items:
        try:
            e = Execution(prog, sc).run()
        except ds.SchedulerError as ex:
            if "wall-clock watchdog" not in str(ex):
                raise
            # a thread of the SDK ran for a minute of real time without reaching any synchronisation primitive, clock read or API call:
            # the invocation spins without ever blocking.  The process cannot be used any further (the thread is still running).
            ctx.violation("invocation-spins-without-blocking",
                          f"an invocation keeps a thread busy forever without reaching a scheduling point: {str(ex)[:200]}",
                          {"kind": "execution", "prog": prog, "scenario": sc, "outcomes": [], "final": "SPIN", "choices": None})
            raise StopCheck() from None
        ctx.case(("exec", json.dumps(prog, sort_keys=True), json.dumps(sc, sort_keys=True)))
        out.append(e)
    return out


class StopCheck(Exception):
    """the check cannot go on (a violation was recorded); lib/common.main_for finishes with the verdict"""


def scen_of(e):
    return {"kind": "execution", "prog": e.prog, "scenario": e.sc,
            "outcomes": [i.outcome for i in e.invocations], "final": e.final,
            "choices": {str(i.inv): i.choices for i in e.invocations} if sum(len(i.choices or []) for i in e.invocations) < 6000 else None}


# which properties an unmatched event kind is evidence against (a rejection elsewhere is only reported as a note)
BOUND = {
    "FnEnter": {"C01", "C04", "C12", "C13", "C06"},
    "Api": {"C11", "C03", "C12", "C13", "C16", "C06", "C14"},
    "Deliver": {"C01", "C02", "C14", "C13", "C03", "C16"},
    "InvEnd": {"C18", "C07", "C06", "C03", "C14", "C13", "C12"},
    "InvStart": {"C07"},
    "EnvTimer": {"C07", "C12"},
    "EnvExt": {"C14"},
    "Log": {"C17"},
}


def validate_executions(ctx, execs, name, cfg="DurableTrace.cfg"):
    traces, scens, skipped = [], [], 0
    for e in execs:
        if e.final == "HANG" or any(i.outcome in ("HANG",) for i in e.invocations):
            skipped += 1
            continue
        try:
            t = convert(e)
        except Unsupported:
            skipped += 1
            continue
        traces.append(t)
        scens.append(scen_of(e))
    ctx.notes["traces_skipped_unsupported"] = ctx.notes.get("traces_skipped_unsupported", 0) + skipped
    if not traces:
        raise MachineryError("no trace to validate")

    def classify(trace, scen, reached):
        evs = trace["evs"]
        nxt = evs[reached - 1] if 0 <= reached - 1 < len(evs) else {"ev": "?"}
        if ctx.pid in BOUND.get(nxt["ev"], set()):
            return f"conformance-{nxt['ev']}"
        ctx.notes.setdefault("conformance_mismatch_outside_property", []).append(
            {"event": nxt, "matched": reached - 1, "program": scen["prog"]}) if len(ctx.notes.get("conformance_mismatch_outside_property", [])) < 5 else None
        return "__note__"

    # run validation with a private context so that notes do not become violations
    class Shim:
        pass
    before = len(ctx.violations)
    known_before = dict(ctx.known_seen)
    cfg_text = open(os.path.join(os.path.dirname(os.path.dirname(os.path.abspath(__file__))), "spec", cfg)).read()
    cfg_text = cfg_text.replace("AmoReadyStart = FALSE", "AmoReadyStart = " + ("TRUE" if VARIANT.get("AmoReadyStart") else "FALSE"))
    rej = tracecheck.validate(ctx, "DurableTrace", cfg, traces, scens, name, classify=classify, cfg_text=cfg_text,
                              label=f"trace validation of {len(traces)} real multi-invocation executions against Durable.tla")
    # drop the "__note__" pseudo violations
    ctx.violations = [v for v in ctx.violations if v[0] != "__note__"]
    if traces:
        ctx.sample({"program": scens[0]["prog"], "scenario": scens[0]["scenario"], "trace_excerpt":
                    [{k: v for k, v in e.items() if v not in ("", 0, [], True)} for e in traces[0]["evs"][:16]]})
    return rej
