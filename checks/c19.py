"""C19 - ordered lock and counter: FIFO, exclusive, gap-free, never wedged.

 (1) TLC, exhaustive: OrderedLock.tla (3 threads x 1 round, every breaker; 2 threads x 2 rounds with
     liveness under weak fairness; thorough: 3 x 2).
 (2) Real code under detsched: preemption-bounded DFS over schedules (small) + random/PCT (bigger),
     with an exception injected in any one critical section; hang = detsched verdict; outcomes and
     counter values checked against the arrival order.
 (3) Every recorded execution is validated as a behaviour of OrderedLock.tla (OrderedLockTrace, one TLC batch),
     all invariants evaluated at every step.
"""
from __future__ import annotations

import json
import os
import random
import re

from harness import detsched as ds
from harness.explore import explore
from harness.lock_harness import run_lock
from lib.tlcrun import MachineryError, require_ok, run_tlc, vacuity_guard, work_dir

ACTIONS = ["A1", "A2", "A2s", "A3", "A3x", "A4", "A5", "CS", "E1", "E2", "E2s", "E3", "R1", "R2", "R2s", "R3"]
INVS = ["MutualExclusion", "FIFO", "HolderIsHead", "CounterGapFree", "BreakSemantics", "FinalOutcomes",
        "NoEntryAfterBreak", "Termination", "TypeOK"]


def model_part(ctx):
    runs = [("OrderedLock_small.cfg", "exhaustive 3 threads x 1 round, any breaker", 300),
            ("OrderedLock_live.cfg", "liveness (WF per thread) 2 threads x 2 rounds, any breaker", 300)]
    if not ctx.quick:
        runs.append(("OrderedLock_big.cfg", "exhaustive 3 threads x 2 rounds, any breaker", 1800))
    for cfg, label, to in runs:
        res = run_tlc("OrderedLock", cfg, "c19-" + cfg[:-4], timeout_s=to)
        require_ok(res, label)
        ctx.add_tlc(res, label, exhaustive=True)
        if not res.ok:
            ctx.violation("model-" + str(res.violated), f"TLC: {res.violated} violated in {cfg}",
                          {"kind": "tlc", "cfg": cfg, "trace": res.trace[-12:]})
        else:
            vacuity_guard(res, ACTIONS, cfg)


def expected_outcomes(r):
    """FinalOutcomes recomputed from the recorded arrival order (independent of TLC)."""
    arrival = []
    rounds_seen = {}
    for e in r["evs"]:
        if e["ev"] == "EvNew":
            rounds_seen[e["t"]] = rounds_seen.get(e["t"], 0)
    # arrival order = order of EvNew; the round of a call = number of rounds the thread finished + 1: recompute from AcqRet/InnerRel
    # simpler: use the harness' own cur_round bookkeeping via EvSet targets is not complete -> derive from outcomes
    return arrival


def check_run(ctx, r, scen):
    """Direct oracles on one real execution."""
    if r["verdict"] in ("hang", "deadlock", "steps"):
        ctx.violation("wedged", f"real OrderedLock execution never finishes: {r['verdict_info']}", scen)
        return False
    n, rounds = r["n_threads"], r["rounds"]
    calls = [f"t{i + 1}:{k}" for i in range(n) for k in range(1, rounds + 1)]
    missing = [c for c in calls if c not in r["outcomes"]]
    if missing:
        ctx.violation("no-outcome", f"calls without outcome {missing}", scen)
        return False
    br = None if r["breaker"][0] == "NoCall" else f"{r['breaker'][0]}:{r['breaker'][1]}"
    oc = r["outcomes"]
    if br is None:
        bad = [c for c in calls if oc[c] != "ok"]
        if bad:
            ctx.violation("spurious-error", f"no exception injected but {bad} did not succeed", scen)
            return False
    else:
        if oc[br] not in ("own_exception", "lock_error"):
            ctx.violation("breaker-outcome", f"raising holder got {oc[br]}", scen)
            return False
    vals = sorted(r["got"].values())
    if vals != list(range(1, len(vals) + 1)):
        ctx.violation("counter-gap", f"counter values {vals} are not 1..n", scen)
        return False
    return True


def impl_part(ctx):
    rng = random.Random(ctx.seed)
    traces, scens = [], []

    def record(r, scen):
        ctx.case(("run", scen["n"], scen["rounds"], str(scen["breaker"]), scen["mode"], tuple(r["choices"] or [])[:400]))
        ok = check_run(ctx, r, scen)
        if r["verdict"] is None:
            traces.append({"breaker": r["breaker"], "cm": bool(r["counter_mode"]), "evs": r["evs"]})
            scens.append(scen)
        return ok

    # (a) systematic: 2 threads, 1 round, every breaker, preemption bound 2
    budget = 250 if ctx.quick else 4000
    for breaker in [None, ("t1", 1), ("t2", 1)]:
        cnt = 0
        for r, st in explore(lambda s, b=breaker: run_lock(2, 1, b, s), max_preempt=2, max_runs=budget):
            cnt += 1
            record(r, {"kind": "lock", "n": 2, "rounds": 1, "breaker": breaker, "mode": "dfs",
                       "counter_mode": False, "choices": r["choices"]})
        ctx.notes.setdefault("dfs_runs", {})[str(breaker)] = cnt
    # (b) random / PCT: 3-4 threads x 2 rounds, any breaker; counter mode too
    nrand = 120 if ctx.quick else 3000
    for i in range(nrand):
        n = rng.choice([2, 3, 3, 4])
        rounds = rng.choice([1, 2, 2])
        calls = [(f"t{a + 1}", b) for a in range(n) for b in range(1, rounds + 1)]
        counter_mode = rng.random() < 0.25
        breaker = None if (counter_mode or rng.random() < 0.25) else rng.choice(calls)
        seed = rng.randrange(1 << 30)
        strat = ds.PCTStrategy(seed, depth=rng.choice([1, 2, 3]), est_steps=120) if i % 2 else ds.RandomStrategy(seed)
        r = run_lock(n, rounds, breaker, strat, counter_mode=counter_mode)
        record(r, {"kind": "lock", "n": n, "rounds": rounds, "breaker": breaker, "mode": "pct" if i % 2 else "random",
                   "counter_mode": counter_mode, "choices": r["choices"]})
    validate_traces(ctx, traces, scens)
    if traces:
        ctx.sample({"real_trace_excerpt": traces[-1]["evs"][:12], "breaker": traces[-1]["breaker"]})


def parse_rejects(out_path):
    txt = open(out_path, errors="replace").read()
    rejected = {}
    i = txt.find('"REJECT"')
    if i >= 0:
        j = txt.find("Error:", i)
        for m in re.finditer(r"<<(\d+), (\d+)>>", txt[i:j if j > 0 else len(txt)]):
            rejected[int(m.group(1))] = int(m.group(2))
    return rejected


def validate_traces(ctx, traces, scens, name="c19-trace"):
    if not traces:
        raise MachineryError("no traces recorded")
    wd = work_dir(name)
    path = os.path.join(wd, "batch.json")
    with open(path, "w") as f:
        json.dump(traces, f)
    res = run_tlc("OrderedLockTrace", "OrderedLockTrace.cfg", name, workers=1, timeout_s=1800, coverage=False,
                  env={"TRACE_FILE": path}, dfs=True)
    ctx.add_tlc(res, f"trace validation of {len(traces)} real executions")
    rejected = parse_rejects(res.out_path)
    if res.ok:
        ctx.traces_validated += len(traces)
        return
    if res.error_kind in ("invariant", "property"):
        ctx.traces_validated += len(traces)
        ctx.violation("trace-" + str(res.violated),
                      f"a recorded execution of the real OrderedLock violates {res.violated}",
                      {"kind": "tlc-trace", "trace": res.trace[-10:]})
        return
    if rejected:
        ctx.traces_validated += len(traces) - len(rejected)
        for tid, reached in sorted(rejected.items())[:5]:
            tr = traces[tid - 1]["evs"]
            nxt = tr[reached - 1] if reached - 1 < len(tr) else None
            ctx.violation("trace-rejected",
                          f"recorded execution is not a behaviour of OrderedLock.tla: matched {reached - 1} of {len(tr)} events; "
                          f"next event {nxt}", scens[tid - 1])
        return
    require_ok(res, "trace validation")
    raise MachineryError(f"trace validation failed without verdict; see {res.out_path}")


def run(ctx):
    ctx.rule = ("model: every reachable state of OrderedLock.tla for the stated constants; implementation: one case = one "
                "distinct (threads, rounds, breaker, schedule) execution of the real OrderedLock/OrderedCounter under detsched, "
                "distinct by its full choice sequence; each is checked directly and validated as a TLA+ behaviour")
    ctx.assumptions += ["detsched shims stand in for threading.Lock/Event (preemption at every primitive operation and after every wake-up-causing one)",
                        "bounded: <= 4 threads, <= 2 rounds, at most one raising critical section"]
    model_part(ctx)
    impl_part(ctx)


def replay(d):
    sc = d["replay"]
    if sc.get("kind") != "lock":
        print(json.dumps(d, indent=1)[:4000])
        return 0
    br = tuple(sc["breaker"]) if sc.get("breaker") else None
    r = run_lock(sc["n"], sc["rounds"], br, ds.ScriptedStrategy(sc["choices"]), counter_mode=sc.get("counter_mode", False))
    print("verdict", r["verdict"], r["verdict_info"])
    print("outcomes", r["outcomes"], "got", r["got"])
    for e in r["evs"]:
        print(e)
    return 0
