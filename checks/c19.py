"""C19 - ordered lock and counter: FIFO, exclusive, gap-free, never wedged.

 (1) TLC, exhaustive: OrderedLock.tla (3 threads x 1 round, every breaker; 2 threads x 2 rounds with
     liveness under weak fairness; thorough: 3 x 2); the same with reset() called at any moment by one more caller;
     probe: a reset() that drops a broken lock's queue entries must violate the model.
 (2) Real code under detsched: preemption-bounded DFS over schedules (small) + random/PCT (bigger),
     with an exception injected in any one critical section; hang = detsched verdict; outcomes and
     counter values checked against the arrival order.
 (3) Every recorded execution is validated as a behaviour of OrderedLock.tla (OrderedLockTrace, one TLC batch),
     all invariants evaluated at every step.
 (4) Spec -> code: the complete behaviours of OrderedLockGen.tla (OrderedLock.tla at code grain, with a labelled history;
     enumerated exhaustively by TLC for the small constants, sampled with -simulate for larger ones) are forced onto the real
     lock by a guided scheduler; the code must follow each, event by event and with the model's final outcomes.
"""
from __future__ import annotations

import json
import os
import random
import re

from harness import detsched as ds
from harness.explore import explore
from harness.lock_harness import run_lock
from lib.tlcrun import MachineryError, require_ok, run_tlc, vacuity_guard, work_dir

ACTIONS = ["A1", "A2", "A2s", "A3", "A3x", "A4", "A5", "CS", "E1", "E2", "E2s", "E3", "R1", "R2", "R2s", "R3"]
INVS = ["MutualExclusion", "FIFO", "HolderIsHead", "CounterGapFree", "BreakSemantics", "FinalOutcomes",
        "NoEntryAfterBreak", "Termination", "TypeOK"]


def model_part(ctx):
    runs = [("OrderedLock_small.cfg", "exhaustive 3 threads x 1 round, any breaker", 300),
            ("OrderedLock_live.cfg", "liveness (WF per thread) 2 threads x 2 rounds, any breaker", 300)]
    if not ctx.quick:
        runs.append(("OrderedLock_big.cfg", "exhaustive 3 threads x 2 rounds, any breaker", 1800))
    runs += [("OrderedLock_reset.cfg", "exhaustive 3 threads x 1 round, any breaker, reset() called up to 2 times at any moment", 600),
             ("OrderedLock_resetlive.cfg", "liveness with one reset() at any moment, 2 threads x 2 rounds", 600)]
    # probe: a reset() that drops the entries of a broken lock's deque (instead of refusing) must break the model
    res = run_tlc("OrderedLock", "OrderedLock_resetprobe.cfg", "c19-resetprobe", timeout_s=600)
    require_ok(res, "reset probe")
    ctx.add_tlc(res, "probe: reset() that drops a broken lock's queue entries lets a queued caller in (must be violated)")
    if res.ok or res.error_kind not in ("invariant", "property"):
        raise MachineryError("probe: expected OrderedLock_resetprobe.cfg to violate an invariant")
    for cfg, label, to in runs:
        res = run_tlc("OrderedLock", cfg, "c19-" + cfg[:-4], timeout_s=to)
        require_ok(res, label)
        ctx.add_tlc(res, label, exhaustive=True)
        if not res.ok:
            ctx.violation("model-" + str(res.violated), f"TLC: {res.violated} violated in {cfg}",
                          {"kind": "tlc", "cfg": cfg, "trace": res.trace[-12:]})
        else:
            vacuity_guard(res, ACTIONS + (["X1", "X2", "X3"] if "reset" in cfg else []), cfg)


def expected_outcomes(r):
    """FinalOutcomes recomputed from the recorded arrival order (independent of TLC)."""
    arrival = []
    rounds_seen = {}
    for e in r["evs"]:
        if e["ev"] == "EvNew":
            rounds_seen[e["t"]] = rounds_seen.get(e["t"], 0)
    # arrival order = order of EvNew; the round of a call = number of rounds the thread finished + 1: recompute from AcqRet/InnerRel
    # simpler: use the harness' own cur_round bookkeeping via EvSet targets is not complete -> derive from outcomes
    return arrival


def check_run(ctx, r, scen):
    """Direct oracles on one real execution."""
    if r["verdict"] in ("hang", "deadlock", "steps"):
        ctx.violation("wedged", f"real OrderedLock execution never finishes: {r['verdict_info']}", scen)
        return False
    n, rounds = r["n_threads"], r["rounds"]
    calls = [f"t{i + 1}:{k}" for i in range(n) for k in range(1, rounds + 1)]
    missing = [c for c in calls if c not in r["outcomes"]]
    if missing:
        ctx.violation("no-outcome", f"calls without outcome {missing}", scen)
        return False
    br = None if r["breaker"][0] == "NoCall" else f"{r['breaker'][0]}:{r['breaker'][1]}"
    oc = r["outcomes"]
    odd = {c: o for c, o in oc.items() if o.startswith("unexpected:")}
    if odd:
        ctx.violation("neither-own-exception-nor-lock-error", f"callers left the lock with something else: {odd} (the holder raised a "
                      f"{r.get('exc_kind')} exception)", scen)
        return False
    if br is None:
        bad = [c for c in calls if oc[c] != "ok"]
        if bad:
            ctx.violation("spurious-error", f"no exception injected but {bad} did not succeed", scen)
            return False
    else:
        if oc[br] not in ("own_exception", "lock_error"):
            ctx.violation("breaker-outcome", f"raising holder got {oc[br]}", scen)
            return False
    # "every current acquirer gets an ordered-lock error": the calls queued behind the holder when the lock broke
    evs = r["evs"]
    bk = next((k for k, e in enumerate(evs) if e["b"]), None)
    if bk is not None and not r["counter_mode"]:
        rnd = {}
        queued = {}
        for e in evs[:bk]:
            if e["ev"] == "EvNew":
                rnd[e["t"]] = rnd.get(e["t"], 0) + 1
                queued[e["t"]] = rnd[e["t"]]
            elif e["ev"] == "AcqRet":
                queued.pop(e["t"], None)
        for t, k in queued.items():
            c = f"{t}:{k}"
            if c != br and oc.get(c) != "lock_error":
                ctx.violation("queued-caller-not-failed", f"{c} was queued when the lock broke and finished with {oc.get(c)!r} "
                              f"(resets: {r.get('reset_results')})", scen)
                return False
    vals = sorted(r["got"].values())
    if vals != list(range(1, len(vals) + 1)):
        ctx.violation("counter-gap", f"counter values {vals} are not 1..n", scen)
        return False
    return True


def impl_part(ctx):
    rng = random.Random(ctx.seed)
    traces, scens = [], []

    def record(r, scen):
        ctx.case(("run", scen["n"], scen["rounds"], str(scen["breaker"]), scen["mode"], scen.get("resets", 0), tuple(r["choices"] or [])[:400]))
        ok = check_run(ctx, r, scen)
        if r["verdict"] is None:
            traces.append({"breaker": r["breaker"], "cm": bool(r["counter_mode"]), "evs": r["evs"]})
            scens.append(scen)
        return ok

    # (a) systematic: 2 threads, 1 round, every breaker, preemption bound 2
    budget = 250 if ctx.quick else 4000
    for breaker in [None, ("t1", 1), ("t2", 1)]:
        cnt = 0
        for r, st in explore(lambda s, b=breaker: run_lock(2, 1, b, s), max_preempt=2, max_runs=budget):
            cnt += 1
            record(r, {"kind": "lock", "n": 2, "rounds": 1, "breaker": breaker, "mode": "dfs",
                       "counter_mode": False, "choices": r["choices"]})
        ctx.notes.setdefault("dfs_runs", {})[str(breaker)] = cnt
    # (a') the same with one reset() call at any moment (also 3 threads: one holder raising, one queued, one arriving later)
    for n, breaker, nres in [(2, ("t1", 1), 1), (2, ("t2", 1), 1), (2, None, 1), (3, ("t1", 1), 2)]:
        cnt = 0
        for r, st in explore(lambda s, b=breaker, n=n, k=nres: run_lock(n, 1, b, s, resets=k), max_preempt=2, max_runs=budget):
            cnt += 1
            record(r, {"kind": "lock", "n": n, "rounds": 1, "breaker": breaker, "mode": "dfs", "resets": nres,
                       "counter_mode": False, "choices": r["choices"]})
        ctx.notes.setdefault("dfs_runs_reset", {})[f"{n}/{breaker}/{nres}"] = cnt
    # (b) random / PCT: 3-4 threads x 2 rounds, any breaker; counter mode too
    nrand = 120 if ctx.quick else 3000
    for i in range(nrand):
        n = rng.choice([2, 3, 3, 4])
        rounds = rng.choice([1, 2, 2])
        calls = [(f"t{a + 1}", b) for a in range(n) for b in range(1, rounds + 1)]
        counter_mode = rng.random() < 0.25
        breaker = None if (counter_mode or rng.random() < 0.25) else rng.choice(calls)
        seed = rng.randrange(1 << 30)
        strat = ds.PCTStrategy(seed, depth=rng.choice([1, 2, 3]), est_steps=120) if i % 2 else ds.RandomStrategy(seed)
        nres = 0 if counter_mode else rng.choice([0, 0, 1, 2, 3])
        ek = ("msg", "bare", "base")[i % 3]      # the holder's exception: with a message / without arguments / a BaseException
        r = run_lock(n, rounds, breaker, strat, counter_mode=counter_mode, resets=nres, exc_kind=ek)
        record(r, {"kind": "lock", "n": n, "rounds": rounds, "breaker": breaker, "mode": "pct" if i % 2 else "random",
                   "counter_mode": counter_mode, "resets": nres, "exc_kind": ek, "choices": r["choices"]})
    # (c) long queues: 40 callers on one lock / counter (direct oracles only; the trace specification is configured for 4 threads)
    for i in range(2 if ctx.quick else 10):
        for cm in (False, True):
            seed = rng.randrange(1 << 30)
            r = run_lock(40, 1, None if cm else ("t1", 1) if i % 2 else None, ds.RandomStrategy(seed), counter_mode=cm, max_steps=200000)
            ctx.case(("run-long-queue", cm, seed))
            check_run(ctx, r, {"kind": "lock", "n": 40, "rounds": 1, "breaker": ("t1", 1) if (i % 2 and not cm) else None, "mode": "random",
                               "counter_mode": cm, "choices": r["choices"] if len(r["choices"] or []) < 6000 else None})
    validate_traces(ctx, traces, scens)
    if traces:
        ctx.sample({"real_trace_excerpt": traces[-1]["evs"][:12], "breaker": traces[-1]["breaker"]})


def gen_behaviours(ctx, cfg, name, label, simulate=None, depth=None, timeout_s=900):
    """Labelled complete behaviours of OrderedLockGen.tla (code-grain restriction of OrderedLock.tla), as printed by TLC."""
    res = run_tlc("OrderedLockGen", cfg, name, workers=1, timeout_s=timeout_s, coverage=False, simulate=simulate, depth=depth)
    if not (res.ok or (simulate and res.error_kind in (None, "timeout"))):
        require_ok(res, label)
        if res.error_kind in ("invariant", "property"):
            ctx.violation("model-" + str(res.violated), f"TLC: {res.violated} violated in {cfg}", {"kind": "tlc", "cfg": cfg, "trace": res.trace[-12:]})
            return []
        raise MachineryError(f"behaviour generation failed: {res.error_kind}; see {res.out_path}")
    ctx.add_tlc(res, label, exhaustive=simulate is None)
    out, seen = [], set()
    for line in open(res.out_path, errors="replace"):
        if not line.startswith('<<"BEHAVIOUR", "'):
            continue
        body = line.strip()[len('<<"BEHAVIOUR", '):-2]
        d = json.loads(json.loads(body))
        key = json.dumps(d["hist"], sort_keys=True) + json.dumps(d["breaker"])
        if key in seen:
            continue
        seen.add(key)
        fix = lambda m: {"%s:%s" % tuple(re.match(r'<<"(\w+)", (\d+)>>', k).groups()): v for k, v in m.items()}
        d["outcome"], d["got"] = fix(d["outcome"]), fix(d["got"])
        out.append(d)
    if not out:
        raise MachineryError(f"no behaviour generated by {cfg}; see {res.out_path}")
    return out


def replay_part(ctx):
    """Spec -> code: every complete code-grain behaviour of the model (exhaustive for 2 threads x 1 round with one reset();
    sampled by TLC -simulate for bigger constants) is forced onto the real OrderedLock; the real execution must follow it
    event for event (each with queue length and broken flag) and end with the model's outcomes and counter values."""
    from harness.lock_harness import GuidedStrategy, UNLOGGED, expected_events
    sets = [("OrderedLockGen_2x1.cfg", "all complete code-grain behaviours: 2 threads x 1 round, any breaker, <= 1 reset()", None, None, 2, 1, 1)]
    nsim = 400 if ctx.quick else 6000
    sets.append(("OrderedLockGen_3x2.cfg", f"{nsim} simulated behaviours: 3 threads x 2 rounds, any breaker, <= 2 reset()",
                 f"num={nsim}", 400, 3, 2, 2))
    if not ctx.quick:
        sets.append(("OrderedLockGen_3x1.cfg", "all complete code-grain behaviours: 3 threads x 1 round, any breaker, no reset()", None, None, 3, 1, 0))
    actions = set()
    total = 0
    for cfg, label, sim, depth, n, rounds, nres in sets:
        behs = gen_behaviours(ctx, cfg, "c19-gen-" + cfg[:-4], label, simulate=sim, depth=depth)
        for b in behs:
            exp = expected_events(b["hist"])
            actions |= {h["a"] for h in b["hist"]}
            breaker = None if b["breaker"][0] == "NoCall" else tuple(b["breaker"])
            k = sum(1 for h in b["hist"] if h["a"] == "X1")
            strat = GuidedStrategy(exp)
            r = run_lock(n, rounds, breaker, strat, resets=k)
            total += 1
            scen = {"kind": "lock-replay", "n": n, "rounds": rounds, "breaker": breaker, "resets": k, "hist": b["hist"],
                    "outcome": b["outcome"], "got": b["got"]}
            ctx.case(("replay", cfg, json.dumps(b["hist"], sort_keys=True), str(breaker)))
            verdict = replay_verdict(r, strat, exp, b)
            if verdict:
                ctx.violation("spec-behaviour-not-followed", verdict, scen)
    # the binding binds: a behaviour with one corrupted field (queue length of its last event) must be rejected
    exp = [dict(e) for e in expected_events(behs[0]["hist"])]
    exp[-1]["q"] += 1
    strat = GuidedStrategy(exp)
    r = run_lock(n, rounds, None if behs[0]["breaker"][0] == "NoCall" else tuple(behs[0]["breaker"]), strat,
                 resets=sum(1 for h in behs[0]["hist"] if h["a"] == "X1"))
    if replay_verdict(r, strat, exp, behs[0]) is None:
        raise MachineryError("replay self-test: a corrupted model behaviour was accepted")
    ctx.notes["replayed_spec_behaviours"] = total
    ctx.notes["replayed_actions"] = sorted(actions)
    missing = set(["A1", "A2", "A2b", "A2s", "A3", "A3x", "A4", "A5", "CS", "E1", "E2", "E2s", "E2e", "E3", "R1", "R2", "R2s", "R3",
                   "X1", "X2", "X3"]) - actions
    if missing:
        raise MachineryError(f"replayed behaviours never take actions {sorted(missing)}")


def replay_verdict(r, strat, exp, b):
    from harness.lock_harness import UNLOGGED
    if strat.diverged is not None:
        return f"the real OrderedLock cannot follow a behaviour of the model: at event {strat.diverged['at_event']} the model lets " \
               f"{strat.diverged['want']} happen, enabled threads {strat.diverged['enabled']}" + (" (thread runs without producing it)" if strat.diverged["stalled"] else "")
    if r["verdict"] is not None:
        return f"forced execution did not finish: {r['verdict']} {r['verdict_info']}"
    got = [e for e in r["evs"] if e["ev"] not in UNLOGGED]
    for i, (g, e) in enumerate(zip(got, exp)):
        for k, v in e.items():
            if g.get(k) != v:
                return f"event {i}: the model expects {e}, the code logged {({k2: g.get(k2) for k2 in e})}"
    if len(got) != len(exp):
        return f"the code logged {len(got)} events, the model behaviour has {len(exp)}; first extra: {(got + exp)[min(len(got), len(exp))]}"
    for c, o in b["outcome"].items():
        if r["outcomes"].get(c) != o:
            return f"call {c}: model outcome {o}, code outcome {r['outcomes'].get(c)}"
    for c, v in b["got"].items():
        if r["got"].get(c, 0) != v:
            return f"call {c}: model counter value {v}, code {r['got'].get(c, 0)}"
    return None


def parse_rejects(out_path):
    txt = open(out_path, errors="replace").read()
    rejected = {}
    i = txt.find('"REJECT"')
    if i >= 0:
        j = txt.find("Error:", i)
        for m in re.finditer(r"<<(\d+), (\d+)>>", txt[i:j if j > 0 else len(txt)]):
            rejected[int(m.group(1))] = int(m.group(2))
    return rejected


def validate_traces(ctx, traces, scens, name="c19-trace"):
    if not traces:
        raise MachineryError("no traces recorded")
    wd = work_dir(name)
    path = os.path.join(wd, "batch.json")
    with open(path, "w") as f:
        json.dump(traces, f)
    res = run_tlc("OrderedLockTrace", "OrderedLockTrace.cfg", name, workers=1, timeout_s=1800, coverage=False,
                  env={"TRACE_FILE": path}, dfs=True)
    ctx.add_tlc(res, f"trace validation of {len(traces)} real executions")
    rejected = parse_rejects(res.out_path)
    if res.ok:
        ctx.traces_validated += len(traces)
        return
    if res.error_kind in ("invariant", "property"):
        ctx.traces_validated += len(traces)
        ctx.violation("trace-" + str(res.violated),
                      f"a recorded execution of the real OrderedLock violates {res.violated}",
                      {"kind": "tlc-trace", "trace": res.trace[-10:]})
        return
    if rejected:
        ctx.traces_validated += len(traces) - len(rejected)
        for tid, reached in sorted(rejected.items())[:5]:
            tr = traces[tid - 1]["evs"]
            nxt = tr[reached - 1] if reached - 1 < len(tr) else None
            ctx.violation("trace-rejected",
                          f"recorded execution is not a behaviour of OrderedLock.tla: matched {reached - 1} of {len(tr)} events; "
                          f"next event {nxt}", scens[tid - 1])
        return
    require_ok(res, "trace validation")
    raise MachineryError(f"trace validation failed without verdict; see {res.out_path}")


def run(ctx):
    ctx.rule = ("model: every reachable state of OrderedLock.tla for the stated constants; implementation: one case = one "
                "distinct (threads, rounds, breaker, schedule) execution of the real OrderedLock/OrderedCounter under detsched, "
                "distinct by its full choice sequence; each is checked directly and validated as a TLA+ behaviour")
    ctx.assumptions += ["detsched shims stand in for threading.Lock/Event (preemption at every primitive operation and after every wake-up-causing one)",
                        "bounded: <= 4 threads, <= 2 rounds, at most one raising critical section, <= 3 reset() calls by one more thread"]
    model_part(ctx)
    impl_part(ctx)
    replay_part(ctx)


def replay(d):
    sc = d["replay"]
    if sc.get("kind") != "lock":
        print(json.dumps(d, indent=1)[:4000])
        return 0
    br = tuple(sc["breaker"]) if sc.get("breaker") else None
    r = run_lock(sc["n"], sc["rounds"], br, ds.ScriptedStrategy(sc["choices"]), counter_mode=sc.get("counter_mode", False),
                 resets=sc.get("resets", 0), exc_kind=sc.get("exc_kind", "msg"))
    print("verdict", r["verdict"], r["verdict_info"])
    print("outcomes", r["outcomes"], "got", r["got"])
    for e in r["evs"]:
        print(e)
    return 0
