SPECIFICATION Spec
CONSTANTS
  Threads = {t1, t2, t3}
  Rounds = 1
  NoCall = NoCall
  None = None
  RX = RX
  ResetDropsStale = TRUE
  MaxResets = 2
INVARIANT TypeOK
INVARIANT MutualExclusion
INVARIANT FIFO
INVARIANT HolderIsHead
INVARIANT CounterGapFree
INVARIANT BreakSemantics
INVARIANT FinalOutcomes
PROPERTY NoEntryAfterBreak
PROPERTY ResetOnlyWhenIdle
