\* C15 probe (pinned original, FixKeys = FALSE): WITHOUT the known-defect escape the key-coercion scenario must be reachable (expected: violated)
SPECIFICATION Spec
CONSTANTS
  D = 1
  Leaves = {"int"}
  Keys = {"a", "#int"}
  MaxW = 1
  MaxK = 1
  MaxB = 0
  ErrKinds = {"full"}
  FixKeys = FALSE
INVARIANT InvRoundTripNoEscape
