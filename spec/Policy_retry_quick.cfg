SPECIFICATION Spec
CONSTANTS
  Table = "retry"
  Tier = "quick"
INVARIANTS
  RetryBounded
  RetryFilter
  RetryOtherwise
  DelayWithinBounds
  DelayNoneExact
  BackoffMonotone
  BackoffFirst
  Dump
