SPECIFICATION GenSpec
CONSTANTS
  Producers = {"p1", "p2"}
  NItems = 3
  Sizes = {400, 500, 700}
  MaxOps = 3
  MaxBytes = 1000
  MayFail = FALSE
  FixedOrder = TRUE
  FixedOversize = TRUE
INVARIANT Emit
INVARIANT ReleaseSound
CHECK_DEADLOCK FALSE
