SPECIFICATION Spec
CONSTANTS
  Table = "completion"
  Tier = "full"
INVARIANTS
  ReasonConsistentStrict
