\* C15 quick+thorough: depth 1, every leaf kind, every key kind (string, coerced, tuple, bytes), width 2; dumps vectors with wire trees
SPECIFICATION Spec
CONSTANTS
  D = 1
  Leaves = {"none", "bool", "int", "float", "str", "tagstr", "bytes", "uuid", "decimal", "datetime", "date", "unsupported"}
  Keys = {"1", "a", "t", "v", "#int", "#bool", "#none", "#float", "#tuple", "#bytes"}
  MaxW = 2
  MaxK = 2
  MaxB = 2
  ErrKinds = {"full"}
  FixKeys = TRUE
INVARIANT DumpWireInv
INVARIANT InvRoundTripOrKnown
INVARIANT InvNoSilentOrKnown
INVARIANT InvLookAlikeSafe
INVARIANT InvRejectExact
INVARIANT InvNoDecodeError
INVARIANT InvPlainIffPrimitive
INVARIANT InvEveryNestedWrapped
INVARIANT InvKnownIsReal
INVARIANT InvKnownOnlyKeys
