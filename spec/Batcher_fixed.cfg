\* the code with both repairs
SPECIFICATION FairSpec
CONSTANTS
  Producers = {p1, p2}
  NItems = 2
  Sizes = {1, 2, 3}
  MaxOps = 2
  MaxBytes = 2
  MayFail = TRUE
  FixedOrder = TRUE
  FixedOversize = TRUE
INVARIANT DeliveredIsPrefixOfHanded
INVARIANT SyncImpliesFlushed
INVARIANT TokenChain
INVARIANT CountLimit
INVARIANT SizeLimit
INVARIANT ReleaseSound
INVARIANT NoStuckWaiter
PROPERTY NoCallAfterFailure
PROPERTY EveryProducerReturns
CHECK_DEADLOCK FALSE
