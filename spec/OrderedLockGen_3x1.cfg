SPECIFICATION GenSpec
CONSTANTS
  Threads = {"t1", "t2", "t3"}
  Rounds = 1
  NoCall <- NoCallG
  None = "None"
  RX = "rx"
  ResetDropsStale = FALSE
  MaxResets = 0
INVARIANT Emit
INVARIANT MutualExclusion
INVARIANT BreakSemantics
CHECK_DEADLOCK FALSE
