\* C15: batch items whose ErrorObject has every field None (to_dict() = {} is falsy in BatchItem.from_dict); run with -continue
SPECIFICATION Spec
CONSTANTS
  D = 1
  Leaves = {"int", "date"}
  Keys = {"a"}
  MaxW = 1
  MaxK = 1
  MaxB = 2
  ErrKinds = {"full", "empty"}
  FixKeys = TRUE
INVARIANT DumpWireInv
INVARIANT InvEmptyErrorRoundTrip
INVARIANT InvRejectExact
INVARIANT InvNoDecodeError
INVARIANT InvEveryNestedWrapped
