--------------------------- MODULE BatcherTrace ---------------------------
(***************************************************************************)
(* Trace validation for the checkpoint pipeline: every recorded execution  *)
(* of the real ExecutionState.create_checkpoint / checkpoint_batches_forever*)
(* (under detsched, observed at the shim queues / events / service client) *)
(* must be a behaviour of Batcher.tla; all invariants are evaluated at     *)
(* every step.                                                             *)
(*                                                                         *)
(* Batch file: [ {maxops, maxbytes, evs: <<...>>} ].  Events:               *)
(*   PCheck  p, seen          read of the failed flag                      *)
(*   Put     p, i, size, sync main-queue put                               *)
(*   PRet    p, i, o          create_checkpoint returned ("ok"/"async") or raised ("err") *)
(*   MainGet i                consumer took item i from the main queue     *)
(*   OvGet i / OvPut i        overflow-queue get / put                     *)
(*   ApiCall tok, items       service call issued                          *)
(*   ApiRet  ok               service call returned / raised               *)
(*   EvSet   i, o             completion event of item i set ("ok"/"err")  *)
(*   FlagSet                  _checkpointing_failed set                    *)
(*   StopSet                  stop_checkpointing()                         *)
(*   CExit                    consumer thread left checkpoint_batches_forever *)
(* Silent (unlogged) consumer steps: CTop, COvEnd, CFirstStopped,          *)
(* CWinClose, loop exits and non-sync elements of the release loops.       *)
(***************************************************************************)
EXTENDS Batcher, Json, IOUtils, TLC, TLCExt

Traces == JsonDeserialize(IOEnv.TRACE_FILE)
NT == Len(Traces)

VARIABLES tid, l          \* MaxOps / MaxBytes / Sizes are literal constants of the generated cfg (one TLC run per batcher configuration)

tvars == <<vars, tid, l>>

Tr == Traces[tid].evs
Ev == Tr[l]

TraceInit ==
  /\ tid \in 1..NT
  /\ l = 1
  /\ Traces[tid].maxops = MaxOps /\ Traces[tid].maxbytes = MaxBytes
  /\ Init
  /\ TLCSet(tid, 1)

IsEv(name) == l <= Len(Tr) /\ Ev.ev = name
Consume == l' = l + 1 /\ UNCHANGED tid
Silent == UNCHANGED <<tid, l>>
NoOp == UNCHANGED vars

\* ---- producers -----------------------------------------------------------
TPCheck == /\ IsEv("PCheck") /\ PCheck(Ev.p) /\ failedFlag = Ev.seen /\ Consume

TPut == /\ IsEv("Put")
        /\ PPut(Ev.p)
        /\ nextId = Ev.i /\ size'[Ev.i] = Ev.size /\ sync'[Ev.i] = Ev.sync
        /\ Consume

TPRecheck == /\ IsEv("PRecheck") /\ PRecheck(Ev.p) /\ failedFlag = Ev.seen /\ Consume

TPRet == /\ IsEv("PRet")
         /\ \/ (Ev.o \in {"ok", "err"} /\ ppc[Ev.p] = "Wait" /\ pcur[Ev.p] = Ev.i /\ PWait(Ev.p) /\ outcome'[Ev.i] = Ev.o)
            \/ (Ev.o = "async" /\ outcome[Ev.i] = "async" /\ NoOp)
            \/ (Ev.o = "err" /\ Ev.i = 0 /\ NoOp)                 \* raised at the flag check: PCheck already finished the call
            \/ (Ev.o = "err" /\ Ev.i # 0 /\ outcome[Ev.i] = "err" /\ NoOp)   \* raised at the re-check after the put
         /\ Consume

\* stop_checkpointing(): the harness calls it after joining the producers (which may have made fewer than NItems calls)
TStop == /\ IsEv("StopSet") /\ ~stopped /\ stopped' = TRUE
         /\ \A p \in Producers : ppc[p] \in {"Check", "Done"}
         /\ UNCHANGED <<mainQ, overflowQ, size, sync, nextId, cpc, batch, total, ci, token, beTok, failedFlag,
                        ppc, pdone, pcur, evState, handed, calls, outcome, apiFailed, oversizeParked, latePut>>
         /\ Consume

\* ---- consumer --------------------------------------------------------------
TMainGet == /\ IsEv("MainGet")
            /\ mainQ # <<>> /\ Head(mainQ) = Ev.i
            /\ (CFirstGet \/ CWinGet \/ CWinToOverflow \/ (cpc = "FailMain" /\ CFailMain))
            /\ Consume

TOvGet == /\ IsEv("OvGet")
          /\ overflowQ # <<>> /\ Head(overflowQ) = Ev.i
          /\ (COvGet \/ COvPutBack \/ (cpc = "FailOv" /\ CFailOv))
          /\ Consume

\* the put that follows a "does not fit" get: already part of CWinToOverflow / COvPutBack
TOvPut == /\ IsEv("OvPut")
          /\ overflowQ # <<>> /\ Last(overflowQ) = Ev.i
          /\ NoOp /\ Consume

TApiCall == /\ IsEv("ApiCall")
            /\ cpc = "Call" /\ token = Ev.tok /\ batch = Ev.items
            /\ NoOp /\ Consume

TApiRet == /\ IsEv("ApiRet")
           /\ IF Ev.ok THEN CApiOk ELSE CApiFail
           /\ Consume

TPageFail == IsEv("PageFail") /\ CPageFail /\ Consume

TEvSet == /\ IsEv("EvSet")
          /\ \/ (cpc = "Rel" /\ ci <= Len(batch) /\ batch[ci] = Ev.i /\ sync[Ev.i] /\ Ev.o = "ok" /\ CRel)
             \/ (cpc = "FailBatch" /\ ci <= Len(batch) /\ batch[ci] = Ev.i /\ sync[Ev.i] /\ Ev.o = "err" /\ CFailBatch)
             \/ (cpc \in {"FailOv", "FailMain"} /\ evState[Ev.i] = "err" /\ Ev.o = "err" /\ NoOp)
          /\ Consume

TFlagSet == /\ IsEv("FlagSet") /\ (CSetFailed \/ CSetFailedFirst) /\ Consume

TCExit == /\ IsEv("CExit") /\ cpc = "Exited" /\ NoOp /\ Consume

\* silent consumer steps
SilentC ==
  /\ l <= Len(Tr)
  /\ \/ CTop
     \/ COvEnd
     \/ CFirstStopped
     \/ CWinClose
     \/ (cpc = "Rel" /\ (IF ci > Len(batch) THEN TRUE ELSE ~sync[batch[ci]]) /\ CRel)
     \/ (cpc = "FailBatch" /\ (IF ci > Len(batch) THEN TRUE ELSE ~sync[batch[ci]]) /\ CFailBatch)
     \/ (cpc = "FailOv" /\ overflowQ = <<>> /\ CFailOv)
     \/ (cpc = "FailMain" /\ mainQ = <<>> /\ CFailMain)
  /\ Silent

TraceDone == l = Len(Tr) + 1 /\ UNCHANGED tvars

TraceNext == TPCheck \/ TPut \/ TPRecheck \/ TPRet \/ TStop \/ TMainGet \/ TOvGet \/ TOvPut \/ TApiCall \/ TApiRet \/ TPageFail
             \/ TEvSet \/ TFlagSet \/ TCExit \/ SilentC \/ TraceDone

TraceSpec == TraceInit /\ [][TraceNext]_tvars

Progress == TLCSet(tid, IF TLCGet(tid) < l THEN l ELSE TLCGet(tid))
\* once some path has consumed the whole trace, the remaining search for this trace is cut off (depth-first queue)
Prune == ~(TLCGet(tid) = Len(Tr) + 1 /\ l < Len(Tr) + 1)

Accepted ==
  LET bad == {i \in 1..NT : TLCGet(i) # Len(Traces[i].evs) + 1}
  IN  bad = {} \/ (PrintT(<<"REJECT", {<<i, TLCGet(i)>> : i \in bad}>>) /\ FALSE)

=============================================================================
