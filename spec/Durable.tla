------------------------------ MODULE Durable ------------------------------
(***************************************************************************)
(* The replay engine of aws-durable-execution-sdk-python for SEQUENTIAL    *)
(* programs with nested child contexts, run across invocations against the *)
(* durable backend (Backend contract inlined: Legal / Apply), with crashes *)
(* at every point, suspension, timers, external completions, checkpoint    *)
(* API failures and every batch boundary of the checkpoint pipeline        *)
(* (abstracted as a FIFO + Flush(k): the guarantees of Batcher.tla).       *)
(*                                                                         *)
(* The program is a constant: a flattened instruction sequence generated   *)
(* from the same JSON program the real interpreter (harness/interp.py)     *)
(* runs.  Instruction i defines operation i (its structural path is        *)
(* Prog[i].path).  User-function outcomes are scripted by (op, attempt).   *)
(*                                                                         *)
(* Handler control flow mirrors operation/*.py: check_result_status case   *)
(* splits, START/RETRY/SUCCEED/FAIL checkpoints with their sync/async mode,*)
(* the double check after a synchronous START, execute(), retry_handler.   *)
(* Deviations of the code are modelled faithfully and named (ghost set     *)
(* `known`), e.g. an at-most-once step found READY runs without START.     *)
(***************************************************************************)
EXTENDS Naturals, Sequences, FiniteSets, TLC

CONSTANTS
  MaxCrashes,    \* bound on injected crashes
  MaxApiFails,   \* bound on failing checkpoint API calls
  MaxInv,        \* bound on invocations
  ImmediateExt,  \* BOOLEAN: an invoke/callback may complete within the API call that starts it
  WithPaging,    \* BOOLEAN: the history may be split so that the invocation payload holds at most the EXECUTION operation
  AmoReadyStart  \* BOOLEAN: TRUE = code as fixed (START recorded for a READY at-most-once attempt); FALSE = pinned original

\* The program: a sequence of instruction records (see harness/progspec.py).  It is a *variable that never
\* changes* (prog' = prog) rather than a constant, so that one TLC run can validate traces of many programs.
VARIABLE prog
Prog == prog
InSeq(x, sq) == \E k \in 1..Len(sq) : sq[k] = x

N == Len(Prog)
Instr == 1..N
OpKinds == {"STEP", "WAIT", "CBCREATE", "INVOKE", "WFC", "CHILD_BEGIN"}
OpIdx == {i \in Instr : Prog[i].kind \in OpKinds}
TERMINAL == {"SUCCEEDED", "FAILED", "TIMED_OUT", "STOPPED", "CANCELLED"}
NoErr == [cls |-> "none", sym |-> 0]
Absent == [st |-> "ABSENT", att |-> 0, res |-> 0, rc |-> FALSE]

VARIABLES
  be, armed, chg, execRes, wake,          \* backend: operation table, armed timers, changed-since-last-response, execution result, wake flag
  inv, ist, outcome,                      \* invocation number, state (Idle/Running), last outcome
  loc, q, pfail,                          \* SDK: local operations view, unsent updates (FIFO), pipeline failure class
  pc, ph, nph, cur, att, err, rcmode, val,\* user thread
  crashes, apifails,                      \* budgets
  fnCount, obs, bad, known, midAmo,       \* monitors (history)
  lg,                                     \* replay-aware logger: [rs, visited, comp (ops complete when the invocation began), small (first page <= 1 op)]
  last, nobs                              \* last observation (delivery / function entry) and their count (history; trace binding)

vars == <<be, armed, chg, execRes, wake, inv, ist, outcome, loc, q, pfail, pc, ph, nph, cur, att, err, rcmode, val,
          crashes, apifails, fnCount, obs, bad, known, midAmo, last, nobs, lg>>

\* (lg is carried in bevars: like the backend variables it is left unchanged by almost every user-thread action)
bevars == <<be, armed, chg, execRes, wake, lg>>
monvars == <<fnCount, obs, bad, known, midAmo, last, nobs>>

MaxAtt == 3

Init ==
  /\ be = [i \in OpIdx |-> Absent] /\ armed = {} /\ chg = {} /\ execRes = "none" /\ wake = FALSE
  /\ inv = 0 /\ ist = "Idle" /\ outcome = "none"
  /\ loc = [i \in OpIdx |-> Absent] /\ q = <<>> /\ pfail = "no"
  /\ pc = 1 /\ ph = "Check" /\ nph = "Check" /\ cur = Absent /\ att = 0 /\ err = NoErr /\ rcmode = {} /\ val = 0
  /\ crashes = 0 /\ apifails = 0
  /\ fnCount = [i \in OpIdx |-> [a \in 1..MaxAtt |-> 0]]
  /\ obs = [i \in Instr |-> <<"none", 0>>]
  /\ bad = {} /\ known = {} /\ midAmo = FALSE
  /\ last = <<0, "none", 0>> /\ nobs = 0
  /\ lg = [rs |-> "NEW", visited |-> {}, comp |-> {}, small |-> FALSE]

\* the execution is over when an invocation reported a final status, or an execution-level result record was accepted
ExecTerminal == outcome \in {"SUCCEEDED", "FAILED"} \/ execRes = "recorded"

---------------------------------------------------------------------------
\* Backend contract (mirror of harness/backend.py ModelBackend.legal / apply)

Legal(b, u) ==
  LET st == b[u.op].st  k == Prog[u.op].kind IN
  /\ st \notin TERMINAL
  /\ (st = "ABSENT" /\ Prog[u.op].parent # 0) => b[Prog[u.op].parent].st # "ABSENT"     \* parent context started first
  /\ CASE k \in {"STEP", "WFC"} ->
            CASE u.act = "START" -> st \in {"ABSENT", "READY"}
              [] u.act = "RETRY" -> st \in {"STARTED", "READY"}
              [] u.act \in {"SUCCEED", "FAIL"} -> st \in {"STARTED", "READY"}
              [] OTHER -> FALSE
       [] k \in {"WAIT", "CBCREATE", "INVOKE"} -> u.act = "START" /\ st = "ABSENT"
       [] k = "CHILD_BEGIN" ->
            CASE u.act = "START" -> st = "ABSENT"
              [] u.act \in {"SUCCEED", "FAIL"} -> st = "STARTED"
              [] OTHER -> FALSE
       [] OTHER -> FALSE

\* monitoring apply: an illegal update is applied best-effort (terminal records are immutable)
ApplyOne(b, u) ==
  LET o == u.op  r == b[o] IN
  IF r.st \in TERMINAL THEN b
  ELSE CASE u.act = "START" -> [b EXCEPT ![o] = [r EXCEPT !.st = "STARTED"]]
         [] u.act = "RETRY" -> [b EXCEPT ![o] = [st |-> "PENDING", att |-> r.att + 1, res |-> u.res, rc |-> FALSE]]
         [] u.act = "SUCCEED" -> [b EXCEPT ![o] = [st |-> "SUCCEEDED", att |-> r.att, res |-> u.res, rc |-> u.rc]]
         [] u.act = "FAIL" -> [b EXCEPT ![o] = [st |-> "FAILED", att |-> r.att, res |-> u.res, rc |-> FALSE]]
         [] OTHER -> b

RECURSIVE ApplyAll(_, _), AllLegal(_, _)
ApplyAll(b, us) == IF us = <<>> THEN b ELSE ApplyAll(ApplyOne(b, us[1]), Tail(us))
AllLegal(b, us) == IF us = <<>> THEN TRUE
                   ELSE (us[1].op = 0 \/ Legal(b, us[1])) /\ AllLegal(IF us[1].op = 0 THEN b ELSE ApplyOne(b, us[1]), Tail(us))

OpsOf(us) == {us[k].op : k \in 1..Len(us)} \ {0}

\* a timer fires: wait completes / retry becomes READY
FireTimer(i) ==
  /\ i \in armed
  /\ armed' = armed \ {i}
  /\ be' = [be EXCEPT ![i] = IF Prog[i].kind = "WAIT" THEN [@ EXCEPT !.st = "SUCCEEDED"] ELSE [@ EXCEPT !.st = "READY"]]
  /\ chg' = chg \cup {i} /\ wake' = TRUE
  /\ UNCHANGED <<execRes, inv, ist, outcome, loc, q, pfail, pc, ph, nph, cur, att, err, rcmode, val, crashes, apifails, lg>>
  /\ UNCHANGED monvars

\* the external party completes a callback / invoke
ExtOutcomes(i) == IF Prog[i].kind = "CBCREATE" THEN {"SUCCEEDED", "FAILED", "TIMED_OUT", "STOPPED", "CANCELLED"}
                  ELSE {"SUCCEEDED", "FAILED", "TIMED_OUT", "STOPPED"}
CompleteExt(i, o) ==
  /\ Prog[i].kind \in {"CBCREATE", "INVOKE"} /\ be[i].st = "STARTED"
  /\ o \in ExtOutcomes(i) /\ InSeq(o, Prog[i].ext)
  /\ be' = [be EXCEPT ![i] = [st |-> o, att |-> 0, res |-> i, rc |-> FALSE]]
  /\ chg' = chg \cup {i} /\ wake' = TRUE
  /\ UNCHANGED <<armed, execRes, inv, ist, outcome, loc, q, pfail, pc, ph, nph, cur, att, err, rcmode, val, crashes, apifails, lg>>
  /\ UNCHANGED monvars

---------------------------------------------------------------------------
\* Invocations

StartInvocation ==
  /\ ist = "Idle" /\ ~ExecTerminal /\ inv < MaxInv
  /\ outcome \in {"none", "CRASHED", "RAISED"} \/ (outcome = "PENDING" /\ wake)
  /\ inv' = inv + 1 /\ ist' = "Running" /\ wake' = FALSE /\ chg' = {}
  /\ loc' = be /\ q' = <<>> /\ pfail' = "no"
  /\ pc' = 1 /\ ph' = "Check" /\ nph' = "Check" /\ cur' = Absent /\ att' = 0 /\ err' = NoErr /\ rcmode' = {} /\ val' = 0
  /\ midAmo' = FALSE
  \* replay status is decided from the FIRST page only: REPLAY iff it holds more than the EXECUTION operation (faithful)
  /\ \E small \in (IF WithPaging THEN BOOLEAN ELSE {FALSE}) :
       lg' = [rs |-> IF (\E i \in OpIdx : be[i].st # "ABSENT") /\ ~small THEN "REPLAY" ELSE "NEW",
              visited |-> {}, comp |-> {i \in OpIdx : be[i].st \in TERMINAL}, small |-> small]
  /\ UNCHANGED <<be, armed, execRes, outcome, crashes, apifails, fnCount, obs, bad, known, last, nobs>>

\* the invocation cannot even load its history: fetching a further page of the initial state fails, the wrapper raises (Lambda retries)
StartInvocationLoadFail ==
  /\ ist = "Idle" /\ ~ExecTerminal /\ inv < MaxInv /\ WithPaging /\ apifails < MaxApiFails
  /\ outcome \in {"none", "CRASHED", "RAISED"} \/ (outcome = "PENDING" /\ wake)
  \* (also with an empty history: the backend may announce a further page that turns out to be empty)
  /\ inv' = inv + 1 /\ outcome' = "RAISED" /\ apifails' = apifails + 1 /\ wake' = FALSE /\ chg' = {}
  /\ UNCHANGED <<be, armed, execRes, ist, loc, q, pfail, pc, ph, nph, cur, att, err, rcmode, val, crashes, lg>>
  /\ UNCHANGED monvars

EndWith(o) ==
  /\ ist' = "Idle" /\ outcome' = o
  /\ q' = <<>>                      \* unsent async updates are abandoned when the batcher is stopped
  /\ UNCHANGED <<inv, loc, pfail, pc, ph, nph, cur, att, err, rcmode, val>>

\* kill -9 at any point of a running invocation
Crash ==
  /\ ist = "Running" /\ crashes < MaxCrashes
  /\ crashes' = crashes + 1
  /\ EndWith("CRASHED")
  /\ known' = IF midAmo THEN known \cup {<<"amo-crash", pc>>} ELSE known
  /\ UNCHANGED <<bevars, apifails, fnCount, obs, bad, midAmo, last, nobs>>

\* the consumer sends the first k queued updates in one API call; the response is merged; sync waiters released
Flush(k) ==
  /\ ist = "Running" /\ pfail = "no" /\ k \in 1..Len(q)
  /\ LET us == SubSeq(q, 1, k)
         b1 == ApplyAll(be, SelectSeq(us, LAMBDA u : u.op # 0))
         imm == {i \in OpsOf(us) : ImmediateExt /\ Prog[i].kind = "INVOKE" /\ be[i].st = "ABSENT" /\ InSeq("FAILED", Prog[i].ext)}
     IN
     \E im \in SUBSET imm :
       LET b2 == [i \in OpIdx |-> IF i \in im THEN [st |-> "FAILED", att |-> 0, res |-> i, rc |-> FALSE] ELSE b1[i]]
           touched == OpsOf(us) \cup chg
       IN /\ be' = b2
          /\ armed' = armed \cup {i \in OpsOf(us) : b2[i].st = "PENDING" \/ (Prog[i].kind = "WAIT" /\ b2[i].st = "STARTED")}
          /\ execRes' = IF \E j \in 1..k : us[j].op = 0 /\ us[j].act # "EMPTY" THEN "recorded" ELSE execRes
          /\ loc' = [i \in OpIdx |-> IF i \in touched THEN b2[i] ELSE loc[i]]
          /\ chg' = {}
          /\ bad' = bad \cup (IF AllLegal(be, us) THEN {} ELSE {"C11-illegal"})
                        \cup (IF execRes # "none" THEN {"C11-after-exec-result"} ELSE {})
  /\ q' = SubSeq(q, k + 1, Len(q))
  /\ UNCHANGED <<wake, inv, ist, outcome, pfail, pc, ph, nph, cur, att, err, rcmode, val, crashes, apifails, fnCount, obs, known, midAmo, last, nobs, lg>>

\* the API call fails: every queued update is dropped, waiters get BackgroundThreadError, no further call
FlushFail(cls) ==
  /\ ist = "Running" /\ pfail = "no" /\ q # <<>> /\ apifails < MaxApiFails
  /\ cls \in {"retriable", "fatal"}
  /\ pfail' = cls /\ q' = <<>> /\ apifails' = apifails + 1
  /\ UNCHANGED <<bevars, inv, ist, outcome, loc, pc, ph, nph, cur, att, err, rcmode, val, crashes>>
  /\ UNCHANGED monvars

\* ... or the call is APPLIED by the backend but its answer is lost (timeout, connection reset): the backend moves on exactly as in
\* Flush(k), the SDK sees a failed call exactly as in FlushFail (nothing merged, waiters get BackgroundThreadError)
FlushFailApplied(k, cls) ==
  /\ ist = "Running" /\ pfail = "no" /\ k \in 1..Len(q) /\ apifails < MaxApiFails
  /\ cls \in {"retriable", "fatal"}
  /\ LET us == SubSeq(q, 1, k)
         b1 == ApplyAll(be, SelectSeq(us, LAMBDA u : u.op # 0))
     IN /\ be' = b1
        /\ armed' = armed \cup {i \in OpsOf(us) : b1[i].st = "PENDING" \/ (Prog[i].kind = "WAIT" /\ b1[i].st = "STARTED")}
        /\ execRes' = IF \E j \in 1..k : us[j].op = 0 /\ us[j].act # "EMPTY" THEN "recorded" ELSE execRes
        /\ chg' = chg \cup OpsOf(us)
        /\ bad' = bad \cup (IF AllLegal(be, us) THEN {} ELSE {"C11-illegal"})
                      \cup (IF execRes # "none" THEN {"C11-after-exec-result"} ELSE {})
  /\ pfail' = cls /\ q' = <<>> /\ apifails' = apifails + 1
  /\ UNCHANGED <<wake, inv, ist, outcome, loc, pc, ph, nph, cur, att, err, rcmode, val, crashes, fnCount, obs, known, midAmo, last, nobs, lg>>

---------------------------------------------------------------------------
\* User thread helpers

I == Prog[pc]
Upd(o, a, s, r, c) == [op |-> o, act |-> a, sync |-> s, res |-> r, rc |-> c]

UserUnch == UNCHANGED <<bevars, inv, ist, outcome, loc, pfail, crashes, apifails>>

\* enqueue an update; a sync one parks the thread until the queue is flushed (it is the last element)
Enq(u, nextPh) ==
  IF pfail # "no"
    THEN /\ ph' = "EnqBlocked" /\ UNCHANGED <<q, nph>>     \* create_checkpoint raises BackgroundThreadError at once
    ELSE /\ q' = Append(q, u)
         \* sync: park until flushed.  async: the failure flag is re-checked right after the put (PostPut)
         /\ ph' = (IF u.sync THEN "WaitFlush" ELSE "PostPut") /\ nph' = nextPh

HandlerOf(i) == IF Prog[i].parent = 0 THEN N ELSE Prog[Prog[i].parent].endIdx
NextOf(i) == IF Prog[i].kind = "CHILD_BEGIN" THEN Prog[i].endIdx + 1 ELSE i + 1

Note(i, c, sy) == last' = <<i, c, sy>> /\ nobs' = nobs + 1
NoNote == UNCHANGED <<last, nobs>>

\* what a call delivers to user code (value or error) is compared with the first completed delivery (C02)
Div(i, o) == IF obs[i][1] # "none" /\ obs[i] # o THEN {"C02-diverged"} ELSE {}
ObsSet(i, o) == obs' = [obs EXCEPT ![i] = IF @[1] = "none" THEN o ELSE @]

\* a call returns value symbol v to user code (xbad: extra violated clauses detected at this point)
DeliverVal(i, v, xbad) ==
  /\ ObsSet(i, <<"val", v>>)
  /\ bad' = bad \cup Div(i, <<"val", v>>) \cup xbad
  /\ pc' = pc /\ ph' = "Track" /\ nph' = nph       \* the operation returned normally: context.py calls state.track_replay next
  /\ Note(i, "val", v)
  /\ UNCHANGED <<q, cur, att, err, rcmode, val, fnCount, known, midAmo>>

\* a call raises error e in user code: caught by the program (unless invocation-level) or propagated
RaiseErr(i, e, xbad) ==
  \* an invocation-level error (StepInterruptedError) tears the invocation down: user code must let it propagate,
  \* so it is not an observation that user control flow can depend on (C02 compares completed deliveries only)
  /\ IF e.cls = "Interrupted" THEN UNCHANGED obs /\ bad' = bad \cup xbad
                               ELSE ObsSet(i, <<e.cls, e.sym>>) /\ bad' = bad \cup Div(i, <<e.cls, e.sym>>) \cup xbad
  /\ IF Prog[i].caught /\ e.cls # "Interrupted"
       THEN pc' = NextOf(i) /\ ph' = "Check" /\ err' = NoErr
       ELSE pc' = HandlerOf(i) /\ ph' = "Unwind" /\ err' = e
  /\ nph' = nph
  /\ Note(i, e.cls, e.sym)
  /\ UNCHANGED <<q, cur, att, rcmode, val, fnCount, known, midAmo>>

Suspend == /\ EndWith("PENDING") /\ UNCHANGED <<bevars, crashes, apifails>> /\ UNCHANGED monvars

\* the thread was parked on a sync checkpoint and the queue has been flushed
Resume ==
  /\ ist = "Running" /\ ph = "WaitFlush" /\ q = <<>> /\ pfail = "no"
  /\ ph' = nph
  /\ UNCHANGED <<bevars, inv, ist, outcome, loc, q, pfail, pc, nph, cur, att, err, rcmode, val, crashes, apifails>>
  /\ UNCHANGED monvars

\* after an asynchronous put: "if self._checkpointing_failed.is_set(): raise"
PostPut ==
  /\ ist = "Running" /\ ph = "PostPut"
  /\ ph' = (IF pfail # "no" THEN "EnqBlocked" ELSE nph)
  /\ UNCHANGED <<bevars, inv, ist, outcome, loc, q, pfail, pc, nph, cur, att, err, rcmode, val, crashes, apifails>>
  /\ UNCHANGED monvars

\* BackgroundThreadError reaches the wrapper: retriable checkpoint error -> raise (Lambda retry), else FAILED
BteEnd ==
  /\ ist = "Running" /\ pfail # "no" /\ ph \in {"WaitFlush", "EnqBlocked"}
  /\ EndWith(IF pfail = "retriable" THEN "RAISED" ELSE "FAILED")
  /\ UNCHANGED <<bevars, crashes, apifails>> /\ UNCHANGED monvars

Running(k, p) == ist = "Running" /\ I.kind = k /\ ph = p

---------------------------------------------------------------------------
\* STEP  (operation/step.py)

StepCheck ==
  /\ Running("STEP", "Check")
  /\ LET c == loc[pc] IN
     CASE c.st = "SUCCEEDED" ->
            /\ DeliverVal(pc, c.res, {}) /\ UserUnch
       [] c.st = "FAILED" ->
            /\ RaiseErr(pc, [cls |-> "Callable", sym |-> c.res], {}) /\ UserUnch
       [] c.st = "PENDING" -> Suspend
       [] c.st = "STARTED" /\ I.sem = "AMO" ->
            \* interrupted at-most-once attempt: retry handler with StepInterruptedError
            /\ cur' = c /\ att' = c.att + 1 /\ ph' = "Interrupted"
            /\ UNCHANGED <<q, pc, nph, err, rcmode, val>> /\ UserUnch /\ UNCHANGED monvars
       [] c.st = "STARTED" /\ I.sem = "ALO" ->
            /\ cur' = c /\ att' = c.att + 1 /\ ph' = "Fn"
            /\ UNCHANGED <<q, pc, nph, err, rcmode, val>> /\ UserUnch /\ UNCHANGED monvars
       [] c.st = "ABSENT" \/ (c.st = "READY" /\ I.sem = "AMO" /\ AmoReadyStart) ->
            /\ cur' = c /\ att' = c.att + 1
            /\ Enq(Upd(pc, "START", I.sem = "AMO", 0, FALSE), IF I.sem = "AMO" THEN "Recheck" ELSE "Fn")
            /\ UNCHANGED <<pc, err, rcmode, val>> /\ UserUnch /\ UNCHANGED monvars
       [] OTHER ->   \* READY (or anything else): ready to execute WITHOUT a START record (faithful)
            /\ cur' = c /\ att' = c.att + 1 /\ ph' = "Fn"
            /\ known' = IF I.sem = "AMO" THEN known \cup {<<"amo-ready-no-start", pc>>} ELSE known
            /\ UNCHANGED <<q, pc, nph, err, rcmode, val, fnCount, obs, bad, midAmo>> /\ NoNote /\ UserUnch

\* after the synchronous START: the refreshed status must be STARTED
StepRecheck ==
  /\ Running("STEP", "Recheck")
  /\ IF loc[pc].st = "STARTED"
       THEN /\ cur' = loc[pc] /\ ph' = "Fn" /\ UNCHANGED <<pc, err>>
       ELSE /\ err' = [cls |-> "InvalidState", sym |-> pc] /\ pc' = HandlerOf(pc) /\ ph' = "Unwind" /\ UNCHANGED cur
  /\ UNCHANGED <<q, nph, att, rcmode, val>> /\ UserUnch /\ UNCHANGED monvars

\* the user function is entered
StepFnEnter ==
  /\ Running("STEP", "Fn")
  /\ ph' = "FnRun"
  /\ fnCount' = [fnCount EXCEPT ![pc][att] = IF @ < 2 THEN @ + 1 ELSE @]
  /\ midAmo' = (I.sem = "AMO")
  /\ bad' = bad \cup (IF be[pc].st \in TERMINAL THEN {"C01-reexecuted"} ELSE {})
                \cup (IF I.sem = "AMO" /\ fnCount[pc][att] >= 1 /\ <<"amo-ready-no-start", pc>> \notin known THEN {"C04-twice"} ELSE {})
                \cup (IF I.sem = "AMO" /\ ~(be[pc].st = "STARTED" /\ be[pc].att = att - 1) /\ <<"amo-ready-no-start", pc>> \notin known
                        THEN {"C04-no-start"} ELSE {})
  /\ Note(pc, "fn", att)
  /\ UNCHANGED <<q, pc, nph, cur, att, err, rcmode, val, obs, known>> /\ UserUnch

\* ... and returns or raises according to the script (fails on the first I.failFirst attempts)
StepFnExit ==
  /\ Running("STEP", "FnRun")
  /\ midAmo' = FALSE
  /\ IF att <= I.failFirst
       THEN ph' = "Retry" /\ UNCHANGED q /\ nph' = nph
       ELSE Enq(Upd(pc, "SUCCEED", TRUE, att, FALSE), "Done")
  /\ UNCHANGED <<pc, cur, att, err, rcmode, val, fnCount, obs, bad, known>> /\ NoNote /\ UserUnch

StepDone ==
  /\ Running("STEP", "Done")
  /\ DeliverVal(pc, att, IF be[pc].st = "SUCCEEDED" /\ be[pc].res = att THEN {} ELSE {"C03-unrecorded"})
  /\ UserUnch

\* retry_handler: the strategy is consulted with (recorded attempts + 1)
StepRetry ==
  /\ ist = "Running" /\ I.kind = "STEP" /\ ph \in {"Retry", "Interrupted"}
  /\ LET made == cur.att + 1 IN
     /\ bad' = bad \cup (IF made # att THEN {"C12-strategy-arg"} ELSE {})
     /\ IF made < I.maxAtt
          THEN Enq(Upd(pc, "RETRY", TRUE, att, FALSE), "Suspend")
          ELSE Enq(Upd(pc, "FAIL", TRUE, att, FALSE), IF ph = "Interrupted" THEN "RaiseInterrupted" ELSE "RaiseFail")
  /\ UNCHANGED <<pc, cur, att, err, rcmode, val, fnCount, obs, known, midAmo>> /\ NoNote /\ UserUnch

StepSuspend ==
  /\ ist = "Running" /\ I.kind \in {"STEP", "WFC", "WAIT", "INVOKE"} /\ ph = "Suspend"
  /\ bad' = bad \cup (IF I.kind \in {"STEP", "WFC"} /\ ~(be[pc].st \in {"PENDING", "READY"}) THEN {"C03-pending-unregistered"} ELSE {})
                \cup (IF I.kind \in {"WAIT", "INVOKE"} /\ be[pc].st = "ABSENT" THEN {"C03-pending-unregistered"} ELSE {})
  /\ EndWith("PENDING") /\ UNCHANGED <<bevars, crashes, apifails, fnCount, obs, known, midAmo, last, nobs>>

StepRaise ==
  /\ ist = "Running" /\ I.kind = "STEP" /\ ph \in {"RaiseFail", "RaiseInterrupted"}
  /\ RaiseErr(pc, [cls |-> IF ph = "RaiseInterrupted" THEN "Interrupted" ELSE "Callable", sym |-> att],
              IF be[pc].st = "FAILED" THEN {} ELSE {"C03-unrecorded"})
  /\ UserUnch

---------------------------------------------------------------------------
\* WAIT (operation/wait.py), INVOKE (operation/invoke.py)

WaitCheck ==
  /\ Running("WAIT", "Check")
  /\ LET c == loc[pc] IN
     CASE c.st = "SUCCEEDED" -> /\ DeliverVal(pc, 0, {}) /\ UserUnch
       [] c.st = "ABSENT" ->
            /\ Enq(Upd(pc, "START", TRUE, 0, FALSE), "Check")
            /\ UNCHANGED <<pc, cur, att, err, rcmode, val>> /\ UserUnch /\ UNCHANGED monvars
       [] OTHER -> /\ ph' = "Suspend" /\ UNCHANGED <<q, pc, nph, cur, att, err, rcmode, val>> /\ UserUnch /\ UNCHANGED monvars

InvokeCheck ==
  /\ Running("INVOKE", "Check")
  /\ LET c == loc[pc] IN
     CASE c.st = "SUCCEEDED" -> /\ DeliverVal(pc, c.res, {}) /\ UserUnch
       [] c.st \in {"FAILED", "TIMED_OUT", "STOPPED"} -> /\ RaiseErr(pc, [cls |-> "Callable", sym |-> c.res], {}) /\ UserUnch
       [] c.st = "ABSENT" ->
            /\ Enq(Upd(pc, "START", TRUE, 0, FALSE), "Check")
            /\ UNCHANGED <<pc, cur, att, err, rcmode, val>> /\ UserUnch /\ UNCHANGED monvars
       [] OTHER -> /\ ph' = "Suspend" /\ UNCHANGED <<q, pc, nph, cur, att, err, rcmode, val>> /\ UserUnch /\ UNCHANGED monvars

---------------------------------------------------------------------------
\* CALLBACK: create_callback (operation/callback.py) and Callback.result() (context.py)

CbCreate ==
  /\ Running("CBCREATE", "Check")
  /\ IF loc[pc].st = "ABSENT"
       THEN /\ Enq(Upd(pc, "START", TRUE, 0, FALSE), "Check")
            /\ UNCHANGED <<pc, cur, att, err, rcmode, val>> /\ UNCHANGED monvars
       ELSE \* any existing status (including failed ones) returns the callback id: errors are deferred to result()
            /\ DeliverVal(pc, pc, {})
  /\ UserUnch

CbResult ==
  /\ Running("CBRESULT", "Check")
  /\ LET c == loc[I.cb] IN
     CASE c.st = "SUCCEEDED" -> /\ DeliverVal(pc, c.res, {}) /\ UserUnch
       [] c.st \in {"FAILED", "TIMED_OUT", "STOPPED", "CANCELLED"} ->
            /\ RaiseErr(pc, [cls |-> "Callback", sym |-> c.res], {}) /\ UserUnch
       [] c.st = "ABSENT" -> /\ RaiseErr(pc, [cls |-> "Callback", sym |-> 0], {}) /\ UserUnch
       [] OTHER -> Suspend

---------------------------------------------------------------------------
\* WAIT_FOR_CONDITION (operation/wait_for_condition.py)

WfcCheck ==
  /\ Running("WFC", "Check")
  /\ LET c == loc[pc] IN
     CASE c.st = "SUCCEEDED" -> /\ DeliverVal(pc, c.res, {}) /\ UserUnch
       [] c.st = "FAILED" -> /\ RaiseErr(pc, [cls |-> "Callable", sym |-> c.res], {}) /\ UserUnch
       [] c.st = "PENDING" -> Suspend
       [] c.st = "STARTED" ->
            /\ cur' = c /\ att' = c.att + 1 /\ ph' = "Fn"
            /\ UNCHANGED <<q, pc, nph, err, rcmode, val>> /\ UserUnch /\ UNCHANGED monvars
       [] OTHER ->   \* ABSENT or READY: asynchronous START, then poll with the data read BEFORE the START
            /\ cur' = c /\ att' = c.att + 1
            /\ Enq(Upd(pc, "START", FALSE, c.res, FALSE), "Fn")
            /\ UNCHANGED <<pc, err, rcmode, val>> /\ UserUnch /\ UNCHANGED monvars

\* the check function is entered with the restored state (the result recorded by the previous poll, 0 = initial state)
WfcPollEnter ==
  /\ Running("WFC", "Fn")
  /\ ph' = "FnRun"
  /\ fnCount' = [fnCount EXCEPT ![pc][att] = IF @ < 2 THEN @ + 1 ELSE @]
  /\ val' = IF cur.st \in {"STARTED", "READY"} THEN cur.res ELSE 0
  /\ bad' = bad \cup (IF be[pc].st \in TERMINAL THEN {"C01-reexecuted"} ELSE {})
                \cup (IF (IF cur.st \in {"STARTED", "READY"} THEN cur.res ELSE 0) # att - 1 THEN {"C13-state-threading"} ELSE {})
  /\ Note(pc, "fn", att)
  /\ UNCHANGED <<q, pc, nph, cur, att, err, rcmode, obs, known, midAmo>> /\ UserUnch

\* poll number att returns state symbol att, or raises at poll I.failAt; the strategy stops at poll I.polls
WfcPollExit ==
  /\ Running("WFC", "FnRun")
  /\ IF att = I.failAt
       THEN Enq(Upd(pc, "FAIL", TRUE, att, FALSE), "RaiseOrig")
       ELSE IF att < I.polls
              THEN Enq(Upd(pc, "RETRY", TRUE, att, FALSE), "Suspend")
              ELSE Enq(Upd(pc, "SUCCEED", TRUE, att, FALSE), "Done")
  /\ UNCHANGED <<pc, cur, att, err, rcmode, val>> /\ UserUnch /\ UNCHANGED monvars

WfcDone ==
  /\ Running("WFC", "Done")
  /\ DeliverVal(pc, att, IF be[pc].st = "SUCCEEDED" /\ be[pc].res = att THEN {} ELSE {"C03-unrecorded"})
  /\ UserUnch

\* the ORIGINAL exception is re-raised on the failing run (replay raises the reconstructed CallableRuntimeError): faithful
WfcRaiseOrig ==
  /\ Running("WFC", "RaiseOrig")
  /\ known' = known \cup {<<"wfc-original-exception", pc>>}
  /\ obs' = [obs EXCEPT ![pc] = IF @[1] = "none" THEN <<"Orig", att>> ELSE @]
  /\ bad' = bad \cup (IF be[pc].st = "FAILED" THEN {} ELSE {"C03-unrecorded"})
  /\ IF I.caught THEN pc' = NextOf(pc) /\ ph' = "Check" /\ err' = NoErr
                 ELSE pc' = HandlerOf(pc) /\ ph' = "Unwind" /\ err' = [cls |-> "Orig", sym |-> att]
  /\ Note(pc, "Orig", att)
  /\ UNCHANGED <<q, nph, cur, att, rcmode, val, fnCount, midAmo>> /\ UserUnch

---------------------------------------------------------------------------
\* CHILD CONTEXT (operation/child.py)

ChildBegin ==
  /\ Running("CHILD_BEGIN", "Check")
  /\ LET c == loc[pc] IN
     CASE c.st = "SUCCEEDED" /\ ~c.rc -> /\ DeliverVal(pc, c.res, {}) /\ UserUnch
       [] c.st = "SUCCEEDED" /\ c.rc ->
            /\ rcmode' = rcmode \cup {pc} /\ pc' = pc + 1 /\ ph' = "Check"
            /\ UNCHANGED <<q, nph, cur, att, err, val>> /\ UserUnch /\ UNCHANGED monvars
       [] c.st = "FAILED" -> /\ RaiseErr(pc, [cls |-> "Callable", sym |-> c.res], {}) /\ UserUnch
       [] c.st = "ABSENT" ->
            /\ Enq(Upd(pc, "START", FALSE, 0, FALSE), "EnterBody")
            /\ UNCHANGED <<pc, cur, att, err, rcmode, val>> /\ UserUnch /\ UNCHANGED monvars
       [] OTHER ->
            /\ pc' = pc + 1 /\ ph' = "Check"
            /\ UNCHANGED <<q, nph, cur, att, err, rcmode, val>> /\ UserUnch /\ UNCHANGED monvars

ChildEnter ==
  /\ Running("CHILD_BEGIN", "EnterBody")
  /\ pc' = pc + 1 /\ ph' = "Check"
  /\ UNCHANGED <<q, nph, cur, att, err, rcmode, val>> /\ UserUnch /\ UNCHANGED monvars

\* the body returned normally
ChildEnd ==
  /\ Running("CHILD_END", "Check")
  /\ LET b == I.begin IN
     IF Prog[b].raises
       THEN \* the body itself raises at its end (scripted)
            /\ err' = [cls |-> "Orig", sym |-> b] /\ ph' = "Unwind"
            /\ UNCHANGED <<q, pc, nph, cur, att, rcmode, val>> /\ UserUnch /\ UNCHANGED monvars
       ELSE IF b \in rcmode
         THEN \* ReplayChildren: return the recomputed value without another checkpoint
              /\ rcmode' = rcmode \ {b}
              /\ ObsSet(b, <<"val", b>>) /\ bad' = bad \cup Div(b, <<"val", b>>)
              /\ pc' = pc /\ ph' = "Track"
              /\ Note(b, "val", b)
              /\ UNCHANGED <<q, nph, cur, att, err, val, fnCount, known, midAmo>> /\ UserUnch
         ELSE /\ Enq(Upd(b, "SUCCEED", TRUE, b, Prog[b].large), "Done")
              /\ UNCHANGED <<pc, cur, att, err, rcmode, val>> /\ UserUnch /\ UNCHANGED monvars

ChildDone ==
  /\ Running("CHILD_END", "Done")
  /\ LET b == I.begin IN
     /\ ObsSet(b, <<"val", b>>)
     /\ bad' = bad \cup Div(b, <<"val", b>>) \cup (IF be[b].st = "SUCCEEDED" THEN {} ELSE {"C03-unrecorded"})
     /\ pc' = pc /\ ph' = "Track"
     /\ Note(b, "val", b)
  /\ UNCHANGED <<q, nph, cur, att, err, rcmode, val, fnCount, known, midAmo>> /\ UserUnch

\* an exception leaves the body: FAIL checkpoint, then invocation-level errors re-raised as they are, others wrapped
ChildUnwind ==
  /\ Running("CHILD_END", "Unwind")
  /\ Enq(Upd(I.begin, "FAIL", TRUE, I.begin, FALSE), "Reraise")
  /\ UNCHANGED <<pc, cur, att, err, rcmode, val>> /\ UserUnch /\ UNCHANGED monvars

ChildReraise ==
  /\ Running("CHILD_END", "Reraise")
  /\ LET b == I.begin
         e == IF err.cls = "Interrupted" THEN err ELSE [cls |-> "Callable", sym |-> b] IN
     /\ IF e.cls = "Interrupted"
          THEN UNCHANGED obs /\ bad' = bad \cup (IF be[b].st = "FAILED" THEN {} ELSE {"C03-unrecorded"})
          ELSE ObsSet(b, <<e.cls, e.sym>>)
               /\ bad' = bad \cup Div(b, <<e.cls, e.sym>>) \cup (IF be[b].st = "FAILED" THEN {} ELSE {"C03-unrecorded"})
     /\ rcmode' = rcmode \ {b}
     /\ IF Prog[b].caught /\ e.cls # "Interrupted"
          THEN pc' = pc + 1 /\ ph' = "Check" /\ err' = NoErr
          ELSE pc' = HandlerOf(b) /\ ph' = "Unwind" /\ err' = e
     /\ Note(b, e.cls, e.sym)
  /\ UNCHANGED <<q, nph, cur, att, val, fnCount, known, midAmo>> /\ UserUnch

---------------------------------------------------------------------------
\* Replay tracking and the replay-aware logger (state.py track_replay, logger.py)

TrackedOp == IF I.kind = "CHILD_END" THEN I.begin ELSE IF I.kind = "CBRESULT" THEN 0 ELSE pc
CompletedNow == {i \in OpIdx : loc[i].st \in TERMINAL}

\* state.track_replay(op): called by context.py after an operation RETURNED (not when it raised, not when it suspended)
Track ==
  /\ ist = "Running" /\ ph = "Track"
  /\ LET o == TrackedOp
         v2 == IF o = 0 \/ lg.rs # "REPLAY" THEN lg.visited ELSE lg.visited \cup {o}
     IN lg' = [lg EXCEPT !.visited = v2,
                         !.rs = IF o # 0 /\ lg.rs = "REPLAY" /\ CompletedNow \subseteq v2 THEN "NEW" ELSE lg.rs]
  /\ pc' = (IF I.kind = "CHILD_END" THEN pc + 1 ELSE NextOf(pc)) /\ ph' = "Check"
  /\ UNCHANGED <<be, armed, chg, execRes, wake, inv, ist, outcome, loc, q, pfail, nph, cur, att, err, rcmode, val, crashes, apifails>>
  /\ UNCHANGED monvars

\* is instruction j (an operation) inside a context that is short-circuited / completed in the local view?
NestedInCompleted(j) == Prog[j].parent # 0 /\ loc[Prog[j].parent].st \in TERMINAL

\* a context.logger call between operations: emitted iff the execution state is not replaying
LogStep ==
  /\ Running("LOG", "Check")
  /\ LET emitted == lg.rs = "NEW"
         \* no operation completed before this invocation began lies ahead; a child context completes at the END of its body
         \* (log calls inside a body that is run again - oversized result replaced by a summary - precede that point)
         expected == ~(\E i \in lg.comp : (IF Prog[i].kind = "CHILD_BEGIN" THEN Prog[i].endIdx ELSE i) > pc)
         unvisited == {i \in CompletedNow : i \notin lg.visited}
         cause == IF expected /\ ~emitted
                    THEN (IF \E i \in unvisited : NestedInCompleted(i) THEN {<<"log-silent-nested-completed", pc>>}
                          ELSE IF \E i \in unvisited : loc[i].st # "SUCCEEDED" \/ obs[i][1] \notin {"val", "none"}
                                 THEN {<<"log-silent-after-failure", pc>>}
                          \* nothing completed is unvisited, but REPLAY is only left inside track_replay, i.e. after the first
                          \* operation of the invocation returned: log calls before that are suppressed
                          ELSE IF unvisited = {} THEN {<<"log-silent-until-first-return", pc>>}
                          ELSE {})
                    ELSE IF ~expected /\ emitted
                      THEN (IF lg.small THEN {<<"log-first-page", pc>>} ELSE {})
                      ELSE {}
     IN /\ known' = known \cup cause
        /\ bad' = bad \cup (IF expected /\ ~emitted /\ cause = {} THEN {"C17-missing"} ELSE {})
                      \cup (IF ~expected /\ emitted /\ cause = {} THEN {"C17-duplicate"} ELSE {})
        /\ last' = <<pc, IF emitted THEN "log" ELSE "nolog", 0>> /\ nobs' = nobs + 1
  /\ pc' = pc + 1 /\ ph' = "Check"
  /\ UNCHANGED <<q, nph, cur, att, err, rcmode, val, fnCount, obs, midAmo>> /\ UserUnch

---------------------------------------------------------------------------
\* Handler end (execution.py wrapper)

\* the handler returned: small result -> SUCCEEDED; large result -> EXECUTION SUCCEED checkpoint first
HandlerReturn ==
  /\ Running("END", "Check")
  /\ IF I.raises /\ I.large
       THEN \* an oversized error: EXECUTION FAIL is checkpointed first, then FAILED without payload
            /\ Enq([op |-> 0, act |-> "FAIL", sync |-> TRUE, res |-> 0, rc |-> FALSE], "DoneFail")
            /\ UNCHANGED <<pc, cur, att, err, rcmode, val, bevars, inv, ist, outcome, loc, pfail, crashes, apifails>>
            /\ UNCHANGED monvars
       ELSE IF I.raises
       THEN \* the handler itself raises an ordinary exception at its end: FAILED with the error object
            /\ EndWith("FAILED") /\ UNCHANGED <<bevars, crashes, apifails>> /\ UNCHANGED monvars
       ELSE IF I.large
       THEN /\ Enq([op |-> 0, act |-> "SUCCEED", sync |-> TRUE, res |-> 0, rc |-> FALSE], "Done")
            /\ UNCHANGED <<pc, cur, att, err, rcmode, val, bevars, inv, ist, outcome, loc, pfail, crashes, apifails>>
            /\ UNCHANGED monvars
       ELSE /\ EndWith("SUCCEEDED") /\ UNCHANGED <<bevars, crashes, apifails>> /\ UNCHANGED monvars

HandlerLargeFailDone ==
  /\ Running("END", "DoneFail")
  /\ bad' = bad \cup (IF execRes = "recorded" THEN {} ELSE {"C16-final-not-recorded"})
  /\ EndWith("FAILED") /\ UNCHANGED <<bevars, crashes, apifails, fnCount, obs, known, midAmo, last, nobs>>

HandlerLargeDone ==
  /\ Running("END", "Done")
  /\ bad' = bad \cup (IF execRes = "recorded" THEN {} ELSE {"C16-final-not-recorded"})
  /\ EndWith("SUCCEEDED") /\ UNCHANGED <<bevars, crashes, apifails, fnCount, obs, known, midAmo, last, nobs>>

\* an exception reaches the wrapper: invocation errors are raised (Lambda retry), everything else is FAILED
HandlerRaise ==
  /\ Running("END", "Unwind")
  /\ EndWith(IF err.cls = "Interrupted" THEN "RAISED" ELSE "FAILED")
  /\ UNCHANGED <<bevars, crashes, apifails>> /\ UNCHANGED monvars

---------------------------------------------------------------------------
UserStep == StepCheck \/ StepRecheck \/ StepFnEnter \/ StepFnExit \/ StepDone \/ StepRetry \/ StepSuspend \/ StepRaise
            \/ WaitCheck \/ InvokeCheck \/ CbCreate \/ CbResult
            \/ WfcCheck \/ WfcPollEnter \/ WfcPollExit \/ WfcDone \/ WfcRaiseOrig
            \/ ChildBegin \/ ChildEnter \/ ChildEnd \/ ChildDone \/ ChildUnwind \/ ChildReraise
            \/ HandlerReturn \/ HandlerLargeDone \/ HandlerLargeFailDone \/ HandlerRaise
            \/ Track \/ LogStep \/ Resume \/ PostPut \/ BteEnd

EnvStep == (\E i \in OpIdx : FireTimer(i)) \/ (\E i \in OpIdx, o \in TERMINAL : CompleteExt(i, o))
PipeStep == \/ (\E k \in 1..Len(q) : Flush(k)) \/ (\E c \in {"retriable", "fatal"} : FlushFail(c))
            \/ (\E k \in 1..Len(q), c \in {"retriable", "fatal"} : FlushFailApplied(k, c))

Stuck == ist = "Idle" /\ ~ExecTerminal /\ ~ENABLED StartInvocation
Done == ist = "Idle" /\ (ExecTerminal \/ Stuck \/ inv >= MaxInv)

Next == UserStep \/ EnvStep \/ PipeStep \/ StartInvocation \/ StartInvocationLoadFail \/ Crash \/ (Done /\ UNCHANGED vars)

NextP == Next /\ UNCHANGED prog
Spec == Init /\ [][NextP]_<<vars, prog>>
FairSpec == Spec /\ WF_vars(UserStep) /\ WF_vars(PipeStep) /\ WF_vars(EnvStep) /\ WF_vars(StartInvocation)

---------------------------------------------------------------------------
\* Properties

\* the monitors: no clause of C01/C02/C03/C04/C11/C12/C13/C16 was violated, unless a named known deviation applies
KnownExcuses ==
  IF \E k \in known : k[1] = "wfc-original-exception" THEN {"C02-diverged"} ELSE {}

NoViolation == bad \subseteq KnownExcuses
NoViolationStrict == bad = {}

C01_NoReexecution == "C01-reexecuted" \notin bad
C02_SameObservation == "C02-diverged" \notin bad \/ "C02-diverged" \in KnownExcuses
C03_WriteAhead == bad \cap {"C03-unrecorded", "C03-pending-unregistered"} = {}
C04_AtMostOnce == bad \cap {"C04-twice", "C04-no-start"} = {}
C11_ValidHistory == bad \cap {"C11-illegal", "C11-after-exec-result"} = {}
C12_StrategyArg == "C12-strategy-arg" \notin bad
C13_StateThreading == "C13-state-threading" \notin bad
C16_LargeFinal == "C16-final-not-recorded" \notin bad
C17_LoggerExact == bad \cap {"C17-missing", "C17-duplicate"} = {}

\* retries are bounded by the strategy: never more RETRY records than maxAtt - 1
C12_RetryBound == \A i \in OpIdx : Prog[i].kind = "STEP" => be[i].att <= Prog[i].maxAtt - 1
\* exact number of runs when no crash hit the middle of an attempt
C12_ExactRuns == (crashes = 0 /\ ExecTerminal /\ apifails = 0) =>
  \A i \in OpIdx : Prog[i].kind = "STEP" /\ be[i].st \in TERMINAL =>
      \A a \in 1..MaxAtt : fnCount[i][a] = (IF a <= be[i].att + 1 THEN 1 ELSE 0)
\* a recorded terminal outcome never changes
TerminalStable == [][\A i \in OpIdx : be[i].st \in TERMINAL => be'[i] = be[i]]_<<vars, prog>>
\* PENDING only when the backend can wake the execution again
C07_PendingIsWakeable == (ist = "Idle" /\ outcome = "PENDING") =>
  (wake \/ armed # {} \/ \E i \in OpIdx : Prog[i].kind \in {"CBCREATE", "INVOKE"} /\ be[i].st = "STARTED")
\* after a failed checkpoint call the invocation never reports SUCCEEDED or PENDING
C06_NoSuccessAfterFailure == [][(pfail # "no" /\ ist = "Running" /\ ist' = "Idle") => outcome' \in {"RAISED", "FAILED", "CRASHED"}]_<<vars, prog>>
\* liveness: with fair timers / external completions / re-invocations every execution terminates
C07_EventuallyTerminal == <>(ExecTerminal \/ inv >= MaxInv)

=============================================================================
