\* C15 quick+thorough: depth 3, width 1, five leaf kinds, five key kinds
SPECIFICATION Spec
CONSTANTS
  D = 3
  Leaves = {"int", "bool", "str", "date", "bytes"}
  Keys = {"a", "t", "#int", "#tuple", "#bool"}
  MaxW = 1
  MaxK = 1
  MaxB = 1
  ErrKinds = {"full"}
  FixKeys = TRUE
INVARIANT DumpWireInv
INVARIANT InvRoundTripOrKnown
INVARIANT InvNoSilentOrKnown
INVARIANT InvLookAlikeSafe
INVARIANT InvRejectExact
INVARIANT InvNoDecodeError
INVARIANT InvPlainIffPrimitive
INVARIANT InvEveryNestedWrapped
INVARIANT InvKnownIsReal
INVARIANT InvKnownOnlyKeys
