\* C20: table generation - one JSON line per abstract instance (no invariant: the rows carry the prediction)
CONSTANT Slices = {"err", "opts", "upd_enum", "upd_err", "upd_pres", "op_enum", "op_head", "op_det", "op_combo", "out", "inp", "decode", "factory"}
CONSTANT Fixed = TRUE        \* default; checks/c20.py substitutes spec/variant.json "WireFixed"
INIT InitDump
NEXT Next
