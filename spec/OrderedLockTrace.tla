------------------------ MODULE OrderedLockTrace ------------------------
(***************************************************************************)
(* Trace validation for OrderedLock: every recorded execution of the real  *)
(* OrderedLock / OrderedCounter (under detsched) must be a behaviour of    *)
(* OrderedLock.tla, with all its invariants evaluated at every step.       *)
(*                                                                         *)
(* A batch file holds many traces: [ {breaker: <<t,r>>, evs: <<...>>} ].   *)
(* Logged events (observed at the shim primitives, no source hooks):       *)
(*   InnerAcq   t                 _lock acquired              A1 | E1 | R1 *)
(*   EvNew      t                 Event() created + appended  A2 (not broken)*)
(*   EvSet      t, c              Event of call c set         A2s | E2s | R2s*)
(*   InnerRel   t                 _lock released              A3|A3x|E3|R3 *)
(*   EvWake     t                 event.wait() returned       A4           *)
(*   AcqRet     t, o              acquire() returned/raised   A5           *)
(*   Body       t, v              critical section ran        CS           *)
(*   InnerAcq/InnerRel of the reset() caller "rx"                  X1 / X3   *)
(*   ResetRet   v = number of successful reset() calls so far               *)
(* Unlogged (silent) steps: A2 when broken, E2, end of E2s loop, R2, X2.   *)
(* Every event carries q = len(_waiters) and b = _is_broken after the step.*)
(***************************************************************************)
EXTENDS OrderedLock, Json, IOUtils, TLC, TLCExt

Traces == JsonDeserialize(IOEnv.TRACE_FILE)
NT == Len(Traces)

VARIABLES tid, l

NoCallT == <<"NoCall", 0>>

tvars == <<vars, tid, l>>

Tr == Traces[tid].evs
Ev == Tr[l]

TraceInit ==
  /\ tid \in 1..NT
  /\ l = 1
  /\ Init
  /\ breaker = <<Traces[tid].breaker[1], Traces[tid].breaker[2]>>
  /\ TLCSet(tid, 1)

IsEv(name) == l <= Len(Tr) /\ Ev.ev = name

\* projected state logged with every event
Proj == Len(waiters') = Ev.q /\ broken' = Ev.b

Consume == l' = l + 1 /\ tid' = tid
Silent == l' = l /\ tid' = tid

TInnerAcq == /\ IsEv("InnerAcq")
             /\ IF Ev.t = RX THEN X1 ELSE (A1(Ev.t) \/ E1(Ev.t) \/ R1(Ev.t))
             /\ Proj /\ Consume

TEvNew == /\ IsEv("EvNew")
          /\ A2(Ev.t) /\ ~broken
          /\ Proj /\ Consume

TEvSet == /\ IsEv("EvSet")
          /\ LET c == <<Ev.c[1], Ev.c[2]>> IN
             \/ (A2s(Ev.t) /\ c = cur(Ev.t))
             \/ (pc[Ev.t] = "E2s" /\ idx[Ev.t] <= Len(waiters) /\ waiters[idx[Ev.t]] = c /\ E2s(Ev.t))
             \/ (R2s(Ev.t) /\ c = Head(waiters))
          /\ Proj /\ Consume

TInnerRel == /\ IsEv("InnerRel")
             /\ IF Ev.t = RX THEN X3 ELSE (A3(Ev.t) \/ A3x(Ev.t) \/ E3(Ev.t) \/ R3(Ev.t))
             /\ Proj /\ Consume

TEvWake == /\ IsEv("EvWake")
           /\ A4(Ev.t)
           /\ Proj /\ Consume

TAcqRet == /\ IsEv("AcqRet")
           /\ A5(Ev.t)
           /\ (Ev.o = "ok") = (pc'[Ev.t] = "CS")
           /\ Proj /\ Consume

TBody == /\ IsEv("Body")
         /\ CS(Ev.t)
         /\ (IF Ev.v = 0 THEN pc'[Ev.t] = "E1" ELSE counter' = Ev.v)
         /\ Proj /\ Consume

\* silent steps (of any thread: e.g. the holder's popleft may precede another thread's logged wake-up)
SilentStep ==
  /\ l <= Len(Tr)
  /\ \/ X2
     \/ \E t \in Threads :
       \/ (pc[t] = "A2" /\ broken /\ A2(t))
       \/ E2(t)
       \/ (pc[t] = "E2s" /\ idx[t] > Len(waiters) /\ E2s(t))
       \/ R2(t)
       \/ (Traces[tid].cm /\ (A5(t) \/ CS(t)))     \* OrderedCounter.increment(): not observable from outside
  /\ Silent

\* OrderedCounter.increment() returned v for call c: no step of the lock, but the value must be the model's
TIncRet == /\ IsEv("IncRet")
           /\ got[<<Ev.c[1], Ev.c[2]>>] = Ev.v
           /\ UNCHANGED vars /\ Consume

\* reset() returned (o = "ok") or raised OrderedLockError (o = "refused"): no step of the lock; the result must be the model's
TResetRet == /\ IsEv("ResetRet")
             /\ rpc = "idle" /\ resetOk = Ev.v
             /\ UNCHANGED vars /\ Consume

TraceDone == l = Len(Tr) + 1 /\ UNCHANGED tvars

TraceNext == TIncRet \/ TResetRet \/ TInnerAcq \/ TEvNew \/ TEvSet \/ TInnerRel \/ TEvWake \/ TAcqRet \/ TBody \/ SilentStep \/ TraceDone

TraceSpec == TraceInit /\ [][TraceNext]_tvars

\* furthest position reached per trace (register tid), updated from a state constraint
Progress == TLCSet(tid, IF TLCGet(tid) < l THEN l ELSE TLCGet(tid))
\* once some path has consumed the whole trace, the remaining search for this trace is cut off (depth-first queue)
Prune == ~(TLCGet(tid) = Len(Tr) + 1 /\ l < Len(Tr) + 1)

Accepted ==
  LET bad == {i \in 1..NT : TLCGet(i) # Len(Traces[i].evs) + 1}
  IN  bad = {} \/ (PrintT(<<"REJECT", {<<i, TLCGet(i)>> : i \in bad}>>) /\ FALSE)

\* at the end of an accepted trace everybody the trace says finished has the logged outcome
=============================================================================
