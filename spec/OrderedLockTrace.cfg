SPECIFICATION TraceSpec
CONSTANTS
  Threads = {"t1", "t2", "t3", "t4"}
  Rounds = 2
  NoCall <- NoCallT
  None = "None"
CONSTRAINT Progress
CONSTRAINT Prune
INVARIANT MutualExclusion
INVARIANT FIFO
INVARIANT HolderIsHead
INVARIANT CounterGapFree
INVARIANT BreakSemantics
PROPERTY NoEntryAfterBreak
POSTCONDITION Accepted
CHECK_DEADLOCK FALSE
