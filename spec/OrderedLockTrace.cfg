SPECIFICATION TraceSpec
CONSTANTS
  Threads = {"t1", "t2", "t3", "t4"}
  Rounds = 2
  NoCall <- NoCallT
  None = "None"
  RX = "rx"
  ResetDropsStale = FALSE
  MaxResets = 3
CONSTRAINT Progress
CONSTRAINT Prune
INVARIANT MutualExclusion
INVARIANT FIFO
INVARIANT HolderIsHead
INVARIANT CounterGapFree
INVARIANT BreakSemantics
PROPERTY NoEntryAfterBreak
PROPERTY ResetOnlyWhenIdle
POSTCONDITION Accepted
CHECK_DEADLOCK FALSE
