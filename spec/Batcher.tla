------------------------------ MODULE Batcher ------------------------------
(***************************************************************************)
(* Model of the checkpoint pipeline of state.py:                           *)
(*   producers : ExecutionState.create_checkpoint(update, is_sync)         *)
(*   consumer  : checkpoint_batches_forever / _collect_checkpoint_batch    *)
(*                                                                         *)
(* One action per queue / event / API operation of the code.  Deviations   *)
(* of the code from the property are modelled faithfully and named:        *)
(*   OvPutBack on an empty batch (oversize starvation),                    *)
(*   producer CheckFailed and Put being separate steps while the consumer  *)
(*   drains the queue *before* it sets the failed flag (lost wake-up).     *)
(* Ghost flags (`oversizeParked`, `latePut`) characterise exactly those    *)
(* scenarios so that properties can be stated as  P \/ KnownScenario.      *)
(***************************************************************************)
EXTENDS Naturals, Sequences, FiniteSets, SequencesExt, FiniteSetsExt, TLC

CONSTANTS
  Producers,     \* set of producer threads
  NItems,        \* number of create_checkpoint calls per producer
  Sizes,         \* possible serialized sizes of one update
  MaxOps,        \* max_batch_operations
  MaxBytes,      \* max_batch_size_bytes
  MayFail,       \* BOOLEAN: the checkpoint API may fail (once)
  FixedOrder,    \* BOOLEAN: TRUE = failure path as fixed (flag set before drain, re-check after put); FALSE = pinned original
  FixedOversize  \* BOOLEAN: TRUE = overflow drain as fixed (an item is never put back into an empty batch); FALSE = pinned original

None == 0
ProducerSymmetry == Permutations(Producers)

VARIABLES
  mainQ, overflowQ,        \* sequences of item ids
  size, sync,              \* size[i], sync[i] : attributes of item i (chosen at Put)
  nextId,                  \* next item id
  cpc,                     \* consumer pc
  batch, total,            \* consumer locals
  ci,                      \* consumer loop index (release / fail loops)
  token,                   \* consumer's local token
  beTok,                   \* token the backend expects
  failedFlag,              \* _checkpointing_failed
  stopped,                 \* _checkpointing_stopped
  ppc, pdone, pcur,        \* producers: pc, number of finished calls, current item id
  evState,                 \* evState[i] \in {"unset","ok","err"} : CompletionEvent of item i
  \* ---- history ------------------------------------------------------------
  handed,                  \* item ids in the order they were put
  calls,                   \* sequence of [tok |-> , items |-> seq of ids]
  outcome,                 \* outcome[i] \in {"none","ok","err","async"} : what create_checkpoint returned/raised
  apiFailed,               \* an API call has failed
  oversizeParked,          \* ghost: an item larger than MaxBytes was put (back) into the overflow queue
  latePut                  \* ghost: a producer enqueued after the consumer finished draining on failure

vars == <<mainQ, overflowQ, size, sync, nextId, cpc, batch, total, ci, token, beTok, failedFlag, stopped,
          ppc, pdone, pcur, evState, handed, calls, outcome, apiFailed, oversizeParked, latePut>>

MaxItems == Cardinality(Producers) * NItems
Ids == 1..MaxItems

Sum(s) == FoldSeq(LAMBDA i, acc : acc + size[i], 0, s)

Init ==
  /\ mainQ = <<>> /\ overflowQ = <<>>
  /\ size = [i \in Ids |-> 0] /\ sync = [i \in Ids |-> FALSE]
  /\ nextId = 1
  /\ cpc = "Top" /\ batch = <<>> /\ total = 0 /\ ci = 0
  /\ token = 0 /\ beTok = 0
  /\ failedFlag = FALSE /\ stopped = FALSE
  /\ ppc = [p \in Producers |-> "Check"] /\ pdone = [p \in Producers |-> 0] /\ pcur = [p \in Producers |-> None]
  /\ evState = [i \in Ids |-> "unset"]
  /\ handed = <<>> /\ calls = <<>>
  /\ outcome = [i \in Ids |-> "none"]
  /\ apiFailed = FALSE /\ oversizeParked = FALSE /\ latePut = FALSE

---------------------------------------------------------------------------
\* Producers: create_checkpoint

PFinish(p) == /\ pdone' = [pdone EXCEPT ![p] = @ + 1]
              /\ ppc' = [ppc EXCEPT ![p] = IF pdone[p] + 1 < NItems THEN "Check" ELSE "Done"]

\* "if self._checkpointing_failed.is_set(): self._checkpointing_failed.wait()"  (read of the flag)
PCheck(p) ==
  /\ ppc[p] = "Check"
  /\ IF failedFlag
       THEN /\ PFinish(p) /\ UNCHANGED <<pcur>>       \* raises BackgroundThreadError: the call ends with err
       ELSE /\ ppc' = [ppc EXCEPT ![p] = "Put"] /\ UNCHANGED <<pdone, pcur>>
  /\ UNCHANGED <<mainQ, overflowQ, size, sync, nextId, cpc, batch, total, ci, token, beTok, failedFlag, stopped,
                 evState, handed, calls, outcome, apiFailed, oversizeParked, latePut>>

\* self._checkpoint_queue.put(queued_op)
PPut(p) ==
  /\ ppc[p] = "Put"
  /\ \E sz \in Sizes, sy \in BOOLEAN :
       /\ size' = [size EXCEPT ![nextId] = sz]
       /\ sync' = [sync EXCEPT ![nextId] = sy]
       /\ mainQ' = Append(mainQ, nextId)
       /\ handed' = Append(handed, nextId)
       /\ pcur' = [pcur EXCEPT ![p] = nextId]
       /\ nextId' = nextId + 1
       /\ IF sy THEN /\ ppc' = [ppc EXCEPT ![p] = IF FixedOrder THEN "Recheck" ELSE "Wait"]
                     /\ UNCHANGED <<pdone, outcome>>
                ELSE IF FixedOrder
                  THEN /\ ppc' = [ppc EXCEPT ![p] = "Recheck"] /\ UNCHANGED <<pdone, outcome>>
                  ELSE /\ outcome' = [outcome EXCEPT ![nextId] = "async"] /\ PFinish(p)
       /\ latePut' = (latePut \/ (apiFailed /\ cpc \in {"SetFailed", "Exited"}))
  /\ UNCHANGED <<overflowQ, cpc, batch, total, ci, token, beTok, failedFlag, stopped, evState, calls, apiFailed,
                 oversizeParked>>

\* (fixed code only) re-check of the failed flag after the put
PRecheck(p) ==
  /\ ppc[p] = "Recheck"
  /\ IF failedFlag
       THEN /\ outcome' = [outcome EXCEPT ![pcur[p]] = "err"] /\ PFinish(p)
       ELSE IF sync[pcur[p]]
              THEN /\ ppc' = [ppc EXCEPT ![p] = "Wait"] /\ UNCHANGED <<pdone, outcome>>
              ELSE /\ outcome' = [outcome EXCEPT ![pcur[p]] = "async"] /\ PFinish(p)
  /\ UNCHANGED <<mainQ, overflowQ, size, sync, nextId, cpc, batch, total, ci, token, beTok, failedFlag, stopped,
                 pcur, evState, handed, calls, apiFailed, oversizeParked, latePut>>

\* completion_event.wait()
PWait(p) ==
  /\ ppc[p] = "Wait"
  /\ evState[pcur[p]] # "unset"
  /\ outcome' = [outcome EXCEPT ![pcur[p]] = evState[pcur[p]]]
  /\ PFinish(p)
  /\ UNCHANGED <<mainQ, overflowQ, size, sync, nextId, cpc, batch, total, ci, token, beTok, failedFlag, stopped,
                 pcur, evState, handed, calls, apiFailed, oversizeParked, latePut>>

PStep(p) == PCheck(p) \/ PPut(p) \/ PRecheck(p) \/ PWait(p)

AllProducersDone == \A p \in Producers : ppc[p] = "Done"

\* stop_checkpointing(): only at the end of the invocation, i.e. when no producer is inside create_checkpoint
Stop == /\ ~stopped /\ AllProducersDone
        /\ stopped' = TRUE
        /\ UNCHANGED <<mainQ, overflowQ, size, sync, nextId, cpc, batch, total, ci, token, beTok, failedFlag,
                       ppc, pdone, pcur, evState, handed, calls, outcome, apiFailed, oversizeParked, latePut>>

---------------------------------------------------------------------------
\* Consumer: checkpoint_batches_forever + _collect_checkpoint_batch

CUnch == UNCHANGED <<size, sync, nextId, ppc, pdone, pcur, handed, outcome, stopped, latePut>>

\* while not stopped: batch = [] ...
CTop == /\ cpc = "Top"
        /\ IF stopped THEN cpc' = "Exited" ELSE cpc' = "OvLoop"
        /\ batch' = <<>> /\ total' = 0 /\ ci' = 0
        /\ UNCHANGED <<mainQ, overflowQ, token, beTok, failedFlag, evState, calls, apiFailed, oversizeParked>> /\ CUnch

\* overflow drain: get_nowait succeeded and the item fits
COvGet == /\ cpc = "OvLoop" /\ Len(batch) < MaxOps /\ overflowQ # <<>>
          /\ (total + size[Head(overflowQ)] <= MaxBytes \/ (FixedOversize /\ batch = <<>>))
          /\ batch' = Append(batch, Head(overflowQ)) /\ total' = total + size[Head(overflowQ)]
          /\ overflowQ' = Tail(overflowQ)
          /\ UNCHANGED <<mainQ, cpc, ci, token, beTok, failedFlag, evState, calls, apiFailed, oversizeParked>> /\ CUnch

\* overflow drain: the item does not fit: put back (AT THE END of the overflow queue - faithful) and stop draining
COvPutBack == /\ cpc = "OvLoop" /\ Len(batch) < MaxOps /\ overflowQ # <<>>
              /\ total + size[Head(overflowQ)] > MaxBytes
              /\ ~(FixedOversize /\ batch = <<>>)
              /\ overflowQ' = Append(Tail(overflowQ), Head(overflowQ))
              /\ oversizeParked' = (oversizeParked \/ size[Head(overflowQ)] > MaxBytes)
              /\ cpc' = (IF batch = <<>> THEN "First" ELSE "Win")
              /\ UNCHANGED <<mainQ, batch, total, ci, token, beTok, failedFlag, evState, calls, apiFailed>> /\ CUnch

\* overflow queue empty (queue.Empty) or batch full
COvEnd == /\ cpc = "OvLoop" /\ (overflowQ = <<>> \/ Len(batch) >= MaxOps)
          /\ cpc' = (IF batch = <<>> THEN "First" ELSE "Win")
          /\ UNCHANGED <<mainQ, overflowQ, batch, total, ci, token, beTok, failedFlag, evState, calls, apiFailed,
                         oversizeParked>> /\ CUnch

\* blocking get for the first operation (no size check - faithful)
CFirstGet == /\ cpc = "First" /\ ~stopped /\ mainQ # <<>>
             /\ batch' = <<Head(mainQ)>> /\ total' = size[Head(mainQ)]
             /\ mainQ' = Tail(mainQ) /\ cpc' = "Win"
             /\ UNCHANGED <<overflowQ, ci, token, beTok, failedFlag, evState, calls, apiFailed, oversizeParked>> /\ CUnch

\* stopped while waiting for the first operation: return the empty batch
CFirstStopped == /\ cpc = "First" /\ stopped
                 /\ cpc' = "Top"
                 /\ UNCHANGED <<mainQ, overflowQ, batch, total, ci, token, beTok, failedFlag, evState, calls, apiFailed,
                                oversizeParked>> /\ CUnch

\* batching window: another operation that fits
CWinGet == /\ cpc = "Win" /\ Len(batch) < MaxOps /\ ~stopped /\ mainQ # <<>>
           /\ total + size[Head(mainQ)] <= MaxBytes
           /\ batch' = Append(batch, Head(mainQ)) /\ total' = total + size[Head(mainQ)]
           /\ mainQ' = Tail(mainQ)
           /\ UNCHANGED <<overflowQ, cpc, ci, token, beTok, failedFlag, evState, calls, apiFailed, oversizeParked>> /\ CUnch

\* batching window: the next operation does not fit: overflow queue, close the window
CWinToOverflow == /\ cpc = "Win" /\ Len(batch) < MaxOps /\ ~stopped /\ mainQ # <<>>
                  /\ total + size[Head(mainQ)] > MaxBytes
                  /\ overflowQ' = Append(overflowQ, Head(mainQ))
                  /\ oversizeParked' = (oversizeParked \/ size[Head(mainQ)] > MaxBytes)
                  /\ mainQ' = Tail(mainQ) /\ cpc' = "Call"
                  /\ UNCHANGED <<batch, total, ci, token, beTok, failedFlag, evState, calls, apiFailed>> /\ CUnch

\* window closes: deadline reached, 100 ms without an arrival, batch full, or stop signalled
CWinClose == /\ cpc = "Win"
             /\ cpc' = "Call"
             /\ UNCHANGED <<mainQ, overflowQ, batch, total, ci, token, beTok, failedFlag, evState, calls, apiFailed,
                            oversizeParked>> /\ CUnch

\* service_client.checkpoint(token, updates) succeeds
CApiOk == /\ cpc = "Call"
          /\ calls' = Append(calls, [tok |-> token, items |-> batch])
          /\ beTok' = beTok + 1
          /\ token' = beTok + 1
          /\ cpc' = "Rel" /\ ci' = 1
          /\ UNCHANGED <<mainQ, overflowQ, batch, total, failedFlag, evState, apiFailed, oversizeParked>> /\ CUnch

\* ... or raises
CApiFail == /\ cpc = "Call" /\ MayFail
            /\ apiFailed' = TRUE
            /\ cpc' = (IF FixedOrder THEN "SetFailedFirst" ELSE "FailBatch") /\ ci' = 1
            /\ UNCHANGED <<mainQ, overflowQ, batch, total, token, beTok, failedFlag, evState, calls, oversizeParked>> /\ CUnch

\* the call succeeded but its answer is paginated and fetching the next page fails: the backend has applied the batch, the
\* consumer nevertheless takes the failure path (nobody of this batch has been released yet)
CPageFail == /\ cpc = "Rel" /\ ci = 1 /\ MayFail /\ ~apiFailed
             /\ apiFailed' = TRUE
             /\ cpc' = (IF FixedOrder THEN "SetFailedFirst" ELSE "FailBatch")
             /\ UNCHANGED <<mainQ, overflowQ, batch, total, ci, token, beTok, failedFlag, evState, calls, oversizeParked>> /\ CUnch

\* after the response was merged: completion_event.set() for each element of the batch
CRel == /\ cpc = "Rel"
        /\ IF ci <= Len(batch)
             THEN /\ evState' = [evState EXCEPT ![batch[ci]] = IF sync[batch[ci]] /\ @ = "unset" THEN "ok" ELSE @]
                  /\ ci' = ci + 1 /\ cpc' = cpc
             ELSE /\ cpc' = "Top" /\ UNCHANGED <<evState, ci>>
        /\ UNCHANGED <<mainQ, overflowQ, batch, total, token, beTok, failedFlag, calls, apiFailed, oversizeParked>> /\ CUnch

\* (fixed code) set the failed flag before signalling / draining
CSetFailedFirst == /\ cpc = "SetFailedFirst"
                   /\ failedFlag' = TRUE /\ cpc' = "FailBatch"
                   /\ UNCHANGED <<mainQ, overflowQ, batch, total, ci, token, beTok, evState, calls, apiFailed, oversizeParked>> /\ CUnch

\* failure: completion_event.set(bg_error) for each element of the batch
CFailBatch == /\ cpc = "FailBatch"
              /\ IF ci <= Len(batch)
                   THEN /\ evState' = [evState EXCEPT ![batch[ci]] = IF sync[batch[ci]] /\ @ = "unset" THEN "err" ELSE @]
                        /\ ci' = ci + 1 /\ cpc' = cpc
                   ELSE /\ cpc' = "FailOv" /\ UNCHANGED <<evState, ci>>
              /\ UNCHANGED <<mainQ, overflowQ, batch, total, token, beTok, failedFlag, calls, apiFailed, oversizeParked>> /\ CUnch

\* failure: drain the overflow queue
CFailOv == /\ cpc = "FailOv"
           /\ IF overflowQ # <<>>
                THEN /\ evState' = [evState EXCEPT ![Head(overflowQ)] = IF sync[Head(overflowQ)] /\ @ = "unset" THEN "err" ELSE @]
                     /\ overflowQ' = Tail(overflowQ) /\ cpc' = cpc
                ELSE /\ cpc' = "FailMain" /\ UNCHANGED <<evState, overflowQ>>
           /\ UNCHANGED <<mainQ, batch, total, ci, token, beTok, failedFlag, calls, apiFailed, oversizeParked>> /\ CUnch

\* failure: drain the main queue
CFailMain == /\ cpc = "FailMain"
             /\ IF mainQ # <<>>
                  THEN /\ evState' = [evState EXCEPT ![Head(mainQ)] = IF sync[Head(mainQ)] /\ @ = "unset" THEN "err" ELSE @]
                       /\ mainQ' = Tail(mainQ) /\ cpc' = cpc
                  ELSE /\ cpc' = (IF FixedOrder THEN "Exited" ELSE "SetFailed") /\ UNCHANGED <<evState, mainQ>>
             /\ UNCHANGED <<overflowQ, batch, total, ci, token, beTok, failedFlag, calls, apiFailed, oversizeParked>> /\ CUnch

\* (original code) self._checkpointing_failed.set(bg_error) only after the drain
CSetFailed == /\ cpc = "SetFailed"
              /\ failedFlag' = TRUE /\ cpc' = "Exited"
              /\ UNCHANGED <<mainQ, overflowQ, batch, total, ci, token, beTok, evState, calls, apiFailed, oversizeParked>> /\ CUnch

CStep == CTop \/ COvGet \/ COvPutBack \/ COvEnd \/ CFirstGet \/ CFirstStopped \/ CWinGet \/ CWinToOverflow \/ CWinClose
         \/ CApiOk \/ CApiFail \/ CPageFail \/ CRel \/ CSetFailedFirst \/ CFailBatch \/ CFailOv \/ CFailMain \/ CSetFailed

Terminated == cpc = "Exited" /\ AllProducersDone

Next == CStep \/ (\E p \in Producers : PStep(p)) \/ Stop \/ (Terminated /\ UNCHANGED vars)

Spec == Init /\ [][Next]_vars
FairSpec == Spec /\ WF_vars(CStep) /\ (\A p \in Producers : WF_vars(PStep(p))) /\ WF_vars(Stop)

---------------------------------------------------------------------------
\* Properties (C05; the release rule of C03; the pipeline half of C06)

RECURSIVE Flat(_)
Flat(cs) == IF cs = <<>> THEN <<>> ELSE cs[1].items \o Flat(Tail(cs))
DeliveredSeq == Flat(calls)

\* nothing lost, duplicated or reordered: what reached the backend is a prefix of what was handed over
KnownOversize == ~FixedOversize /\ oversizeParked
KnownLate == ~FixedOrder /\ latePut

DeliveredIsPrefixOfHanded == IsPrefix(DeliveredSeq, handed) \/ KnownOversize

\* a synchronous caller released with success: its update and every earlier one has been delivered
PosIn(sq, x) == CHOOSE k \in 1..Len(sq) : sq[k] = x
SyncImpliesFlushed ==
  \A i \in Ids : outcome[i] = "ok" =>
     \/ KnownOversize
     \/ /\ i \in Range(handed)
        /\ \A j \in 1..PosIn(handed, i) : handed[j] \in Range(DeliveredSeq)

\* each call carries the token returned by the previous call
TokenChain == \A k \in 1..Len(calls) : calls[k].tok = k - 1

CountLimit == \A k \in 1..Len(calls) : Len(calls[k].items) <= MaxOps
SizeLimit == \A k \in 1..Len(calls) : Sum(calls[k].items) <= MaxBytes \/ Len(calls[k].items) = 1

\* success is signalled only for delivered items, failure only after a failed call
ReleaseSound ==
  /\ \A i \in Ids : evState[i] = "ok" => \E k \in 1..Len(DeliveredSeq) : DeliveredSeq[k] = i
  /\ \A i \in Ids : evState[i] = "err" => apiFailed

\* fail-stop: no API call after a failure
NoCallAfterFailure == [][apiFailed => calls' = calls]_vars

\* nobody blocks forever (safety form): when the consumer has exited, no producer waits on an unsignalled event
NoStuckWaiter ==
  cpc = "Exited" => \A p \in Producers : ppc[p] = "Wait" => (evState[pcur[p]] # "unset" \/ KnownLate \/ KnownOversize)

\* an item left in a queue when everything has stopped was never waited for ... unless a known scenario applies
NoSyncItemAbandoned ==
  (cpc = "Exited" /\ AllProducersDone) =>
     \A i \in Ids : (sync[i] /\ i \in Range(handed)) => outcome[i] \in {"ok", "err"}

\* liveness: every producer returns from every call
EveryProducerReturns == <>(AllProducersDone)
\* with the known scenarios excluded by the antecedent (used for the pinned original code)
EveryProducerReturnsUnlessKnown == <>(AllProducersDone \/ KnownOversize \/ KnownLate)

\* Refinement: the pipeline implements the FIFO abstraction that Durable.tla uses in its place (spec/Pipe.tla)
AbsQueue == IF apiFailed THEN <<>> ELSE SubSeq(handed, Len(DeliveredSeq) + 1, Len(handed))
AbsPipe == INSTANCE Pipe WITH pq <- AbsQueue, psent <- DeliveredSeq, pfailed <- apiFailed
PipeRefinement == AbsPipe!PSpec

\* reachability probes (expected to be VIOLATED when the known scenario exists in the code being modelled)
NeverOversizeParked == ~oversizeParked
NeverLatePut == ~latePut

=============================================================================
