SPECIFICATION TraceSpec
CONSTANTS
  MaxCrashes = 1000
  MaxApiFails = 1000
  MaxInv = 1000
  ImmediateExt = FALSE
  AmoReadyStart = FALSE
  WithPaging = TRUE
CONSTRAINT Progress
CONSTRAINT Prune
INVARIANT C01_NoReexecution
INVARIANT C02_SameObservation
INVARIANT C03_WriteAhead
INVARIANT C04_AtMostOnce
INVARIANT C11_ValidHistory
INVARIANT C12_StrategyArg
INVARIANT C13_StateThreading
INVARIANT C16_LargeFinal
INVARIANT C17_LoggerExact
INVARIANT C12_RetryBound
INVARIANT C07_PendingIsWakeable
POSTCONDITION Accepted
CHECK_DEADLOCK FALSE
