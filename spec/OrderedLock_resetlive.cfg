SPECIFICATION FairSpec
CONSTANTS
  Threads = {t1, t2}
  Rounds = 2
  NoCall = NoCall
  None = None
  RX = RX
  ResetDropsStale = FALSE
  MaxResets = 1
INVARIANT MutualExclusion
PROPERTY Termination
