SPECIFICATION Spec
CONSTANTS
  Table = "wrapper"
  Tier = "full"
INVARIANTS
  RaisesOnlyRetryWorthy
  WellFormedReturn
  UserErrorsFail
  NonRetriableFails
  RetriableRaises
  SuspendIsPending
  FaultNeverSucceeds
  FaultInert
  Dump
