------------------------------- MODULE Policy -------------------------------
(***************************************************************************)
(* Decision tables of the pure policy functions of the SDK, transcribed     *)
(* clause by clause and enumerated by TLC over a bounded domain:            *)
(*                                                                         *)
(*   completion : ExecutionCounters.should_complete / is_complete /         *)
(*                should_continue and BatchResult._get_completion_reason    *)
(*                (concurrency/models.py)                            [C09] *)
(*   retry      : create_retry_strategy (retries.py) + JitterStrategy       *)
(*                (config.py)                                        [C12] *)
(*   wait       : create_wait_strategy (waits.py)                    [C13] *)
(*   classify   : CheckpointError.from_exception / is_retriable             *)
(*                (exceptions.py)                                    [C18] *)
(*   wrapper    : the except chain of durable_execution's wrapper and       *)
(*                handle_checkpoint_error (execution.py)             [C18] *)
(*                                                                         *)
(* One TLC state = one row (Init enumerates the domain, Next stutters).     *)
(* The clauses of the properties are invariants over the rows; `Dump`       *)
(* prints every row with the transcription's outputs as one JSON line, and  *)
(* checks/policy_tables.py replays each line into the real function.        *)
(*                                                                         *)
(* No floats: None = -1; a rational is <<num, den>>.  All integers stay     *)
(* far below 2^31 (largest: 5 * 3^4 * 300).                                 *)
(***************************************************************************)
EXTENDS Integers, Sequences, FiniteSets, TLC, Json

CONSTANTS
  Table,   \* "completion" | "retry" | "wait" | "classify" | "wrapper"
  Tier     \* "quick" | "full"  (size of the enumerated domain)

VARIABLE row

NoneV == -1
Quick == Tier = "quick"
Max(a, b) == IF a >= b THEN a ELSE b

---------------------------------------------------------------------------
(* (1) completion policy.  Same formulas as Executor.tla (there over the    *)
(* constants N, MinSucc, TolCount, TolPct; here over a row).                *)

\* executor.py: min_successful = completion_config.min_successful or len(executables)
MinS(c) == IF c.min = NoneV \/ c.min = 0 THEN c.n ELSE c.min
\* ExecutionCounters._is_failure_condition_reached / the two checks of should_continue
FailCond(c, f) == (c.tolc # NoneV /\ f > c.tolc) \/ (c.tolp # NoneV /\ c.n > 0 /\ f * 100 > c.tolp * c.n)
ShouldContinue(c, f) == IF c.tolc = NoneV /\ c.tolp = NoneV THEN f = 0 ELSE ~FailCond(c, f)
IsComplete(c, s, f) == (s + f = c.n) \/ (s >= MinS(c))
ShouldComplete(c, s, f) == IsComplete(c, s, f) \/ ~ShouldContinue(c, f)

\* BatchResult._get_completion_reason (from_items: total = succeeded + failed + started)
HasCriteria(c) == c.min # NoneV \/ c.tolc # NoneV \/ c.tolp # NoneV
Reason(c, s, f, started) ==
  LET total == s + f + started IN
  IF (~HasCriteria(c) /\ f > 0)
     \/ (HasCriteria(c) /\ ((c.tolc # NoneV /\ f > c.tolc) \/ (c.tolp # NoneV /\ total > 0 /\ f * 100 > c.tolp * total)))
    THEN "FAILURE_TOLERANCE_EXCEEDED"
  ELSE IF s + f = total THEN "ALL_COMPLETED"
  ELSE IF c.min # NoneV /\ s >= c.min THEN "MIN_SUCCESSFUL_REACHED"
  ELSE "ALL_COMPLETED"

CompletionRows ==
  { r \in [n : (IF Quick THEN 0..3 ELSE 0..4), s : 0..4, f : 0..4,
           min : {NoneV, 1, 2, 3}, tolc : {NoneV, 0, 1, 2}, tolp : {NoneV, 0, 25, 50, 100}] : r.s + r.f <= r.n }

CStarted == row.n - row.s - row.f
CReason == Reason(row, row.s, row.f, CStarted)
CDecided == ShouldComplete(row, row.s, row.f)

\* named deviation (identical to Executor.tla's KnownReason): min_successful without any tolerance; one failure stops the
\* executor (fail-fast in should_continue) but the classifier, seeing a criterion, only looks at tolerances
KnownReason == row.min # NoneV /\ row.tolc = NoneV /\ row.tolp = NoneV /\ row.f > 0

CompletionOut ==
  [n |-> row.n, s |-> row.s, f |-> row.f, min |-> row.min, tolc |-> row.tolc, tolp |-> row.tolp, started |-> CStarted,
   should |-> CDecided, complete |-> IsComplete(row, row.s, row.f), cont |-> ShouldContinue(row, row.f),
   reason |-> CReason, known |-> KnownReason]

\* clauses: they speak about results the executor can return, i.e. rows where the policy is decided (ShouldComplete is monotone
\* in s and f, so every later item vector of a decided run is a decided row as well)
ReasonConsistent ==
  CDecided =>
     /\ (CReason = "ALL_COMPLETED" => (CStarted = 0 \/ KnownReason))
     /\ (CReason = "MIN_SUCCESSFUL_REACHED" => (row.min # NoneV /\ row.s >= row.min))
     /\ (CReason = "FAILURE_TOLERANCE_EXCEEDED" => row.f > 0)
\* probe: without the escape the clause is violated (the deviation is reachable)
ReasonConsistentStrict ==
  CDecided => (CReason = "ALL_COMPLETED" => CStarted = 0)
\* stopped because of failures => the classifier says so
DecisionImpliesClassifier ==
  ~ShouldContinue(row, row.f) => (CReason = "FAILURE_TOLERANCE_EXCEEDED" \/ KnownReason)
\* ... and conversely the classifier never reports exceeded tolerance while the executor would continue
ClassifierImpliesDecision ==
  CReason = "FAILURE_TOLERANCE_EXCEEDED" => ~ShouldContinue(row, row.f)
\* the classifier does not depend on the executor having decided: MIN_SUCCESSFUL / FAILURE clauses hold on every row
ReasonClausesAlways ==
  /\ (CReason = "MIN_SUCCESSFUL_REACHED" => (row.min # NoneV /\ row.s >= row.min /\ CStarted > 0))
  /\ (CReason = "FAILURE_TOLERANCE_EXCEEDED" => row.f > 0)
\* everything finished => decided
AllFinishedDecides == (row.s + row.f = row.n) => CDecided
DecisionMonotone ==
  CDecided => /\ (row.s + row.f < row.n => ShouldComplete(row, row.s + 1, row.f))
              /\ (row.s + row.f < row.n => ShouldComplete(row, row.s, row.f + 1))

---------------------------------------------------------------------------
(* (2)/(3) retry and wait strategies: exponential backoff with jitter       *)

RECURSIVE Pow(_, _)
Pow(b, e) == IF e = 0 THEN 1 ELSE b * Pow(b, e - 1)

\* ceil of a non-negative rational
Ceil(q) == (q[1] + q[2] - 1) \div q[2]

\* base_delay = min(initial * rate ** (attempts_made - 1), max_delay)     (rate = <<num, den>>)
BaseDelay(c) ==
  LET num == c.init * Pow(c.rate[1], c.n - 1)
      den == Pow(c.rate[2], c.n - 1)
  IN IF num <= c.maxd * den THEN <<num, den>> ELSE <<c.maxd, 1>>

\* final_delay = max(1, ceil(apply_jitter(base_delay))), random.random() in [0, 1):
\*   NONE: b;   FULL: r * b in [0, b);   HALF: b/2 + r * b/2 in [b/2, b)
DelayHi(c) == Max(1, Ceil(BaseDelay(c)))
DelayLo(c) ==
  LET b == BaseDelay(c) IN
  CASE c.jit = "NONE" -> Max(1, Ceil(b))
    [] c.jit = "FULL" -> 1
    [] c.jit = "HALF" -> Max(1, Ceil(<<b[1], 2 * b[2]>>))
DelayRange(c) == DelayLo(c)..DelayHi(c)

Rates == {<<1, 1>>, <<3, 2>>, <<2, 1>>}
Jitters == {"NONE", "FULL", "HALF"}

\* retryable_errors / retryable_error_types: "none" = not configured, "match" / "nomatch" = configured and (not) matching the error
UseDefault(c) == c.errs = "none" /\ c.types = "none"
MessageMatches(c) == IF c.errs # "none" THEN c.errs = "match" ELSE UseDefault(c)   \* default pattern .* matches everything
TypeMatches(c) == c.types = "match"
ErrorMatches(c) == MessageMatches(c) \/ TypeMatches(c)

RetryDecision(c) == ~(c.n >= c.ma) /\ ErrorMatches(c)

Filters == IF Quick
             THEN {<<"none", "none">>, <<"match", "none">>, <<"nomatch", "none">>, <<"none", "match">>, <<"none", "nomatch">>}
             ELSE {"none", "match", "nomatch"} \X {"none", "match", "nomatch"}

RetryRows ==
  { [ma |-> ma, n |-> n, init |-> i, maxd |-> md, rate |-> r, jit |-> j, errs |-> fl[1], types |-> fl[2]] :
      ma \in 1..4, n \in 1..5, i \in {1, 5}, md \in {1, 10, 300}, r \in Rates, j \in (IF Quick THEN {"NONE", "HALF"} ELSE Jitters),
      fl \in Filters }

RetryOut ==
  LET b == BaseDelay(row) IN
  [ma |-> row.ma, n |-> row.n, init |-> row.init, maxd |-> row.maxd, rate |-> row.rate, jit |-> row.jit,
   errs |-> row.errs, types |-> row.types,
   retry |-> RetryDecision(row), matches |-> ErrorMatches(row), base |-> b, lo |-> DelayLo(row), hi |-> DelayHi(row)]

RetryBounded == row.n >= row.ma => ~RetryDecision(row)
RetryFilter == ~ErrorMatches(row) => ~RetryDecision(row)
RetryOtherwise == (row.n < row.ma /\ ErrorMatches(row)) => RetryDecision(row)
DelayWithinBounds ==
  /\ DelayRange(row) # {}
  /\ DelayRange(row) \subseteq 1..Max(1, row.maxd)
DelayNoneExact == row.jit = "NONE" => Cardinality(DelayRange(row)) = 1
\* the backoff never shrinks with the attempt number (rate >= 1) and is capped
BackoffMonotone == row.n > 1 => DelayHi(row) >= DelayHi([row EXCEPT !.n = row.n - 1])
BackoffFirst == row.n = 1 => DelayHi(row) = Max(1, IF row.init <= row.maxd THEN row.init ELSE row.maxd)

WaitDecision(c) == c.pred /\ ~(c.n >= c.ma)

WaitRows ==
  { [ma |-> ma, n |-> n, init |-> i, maxd |-> md, rate |-> r, jit |-> j, pred |-> p] :
      ma \in 1..4, n \in 1..5, i \in {1, 5}, md \in {1, 10, 300}, r \in Rates, j \in Jitters, p \in BOOLEAN }

WaitOut ==
  [ma |-> row.ma, n |-> row.n, init |-> row.init, maxd |-> row.maxd, rate |-> row.rate, jit |-> row.jit, pred |-> row.pred,
   wait |-> WaitDecision(row), base |-> BaseDelay(row), lo |-> DelayLo(row), hi |-> DelayHi(row)]

WaitStopsOnPredicate == ~row.pred => ~WaitDecision(row)
WaitBounded == row.n >= row.ma => ~WaitDecision(row)
WaitOtherwise == (row.pred /\ row.n < row.ma) => WaitDecision(row)

---------------------------------------------------------------------------
(* (4a) CheckpointError.from_exception                                      *)

Statuses == {NoneV, 400, 404, 409, 429, 500, 503}
IPVE == "InvalidParameterValueException"

ClassifyRows ==
  { r \in [status : Statuses, err : BOOLEAN, code : {IPVE, "Other", "None"}, msg : {"token", "other", "None"}] :
      r.err \/ (r.code = "None" /\ r.msg = "None") }

\* msg = "token": the message starts with "Invalid Checkpoint Token"
ClassifyCheckpointError(r) ==
  IF /\ r.status # NoneV              \* `status_code` truthy
     /\ r.status < 500 /\ r.status >= 400 /\ r.status # 429
     /\ r.err                          \* `error` truthy
     /\ (r.code # IPVE \/ ~(r.msg = "token"))
    THEN "EXECUTION" ELSE "INVOCATION"
IsRetriable(r) == ClassifyCheckpointError(r) = "EXECUTION"

ClassifyOut ==
  [status |-> row.status, err |-> row.err, code |-> row.code, msg |-> row.msg,
   category |-> ClassifyCheckpointError(row), retriable |-> IsRetriable(row)]

\* the comment in the code as clauses
Class5xx == row.status >= 500 => ~IsRetriable(row)
ClassThrottle == row.status = 429 => ~IsRetriable(row)
ClassNoStatus == row.status = NoneV => ~IsRetriable(row)
ClassBadToken == (row.code = IPVE /\ row.msg = "token") => ~IsRetriable(row)
\* "all other 4xx errors are Execution errors" - holds only when the response carries an Error structure
Class4xx == (row.status \in 400..499 /\ row.status # 429 /\ row.err /\ ~(row.code = IPVE /\ row.msg = "token")) => IsRetriable(row)

---------------------------------------------------------------------------
(* (4b) the wrapper's except chain                                          *)

Causes == {"ret_small", "ret_large", "ret_nonjson", "raise_small", "raise_large", "raise_execerr", "raise_callbackerr",
           "raise_invocation", "suspend", "timed_suspend", "raise_ckpt_retriable", "raise_ckpt_nonretriable",
           "bte_retriable", "bte_nonretriable", "bte_other", "malformed"}
Faults == {"none", "ckpt_retriable", "ckpt_nonretriable"}

WrapperRows == [cause : Causes, fault : Faults]

\* class hierarchy of what can leave user_future.result()
Ancestors(cls) ==
  CASE cls = "ValueError" -> {"ValueError", "Exception", "BaseException"}
    [] cls = "TypeError" -> {"TypeError", "Exception", "BaseException"}
    [] cls = "RuntimeError" -> {"RuntimeError", "Exception", "BaseException"}
    [] cls = "ExecutionError" -> {"ExecutionError", "UnrecoverableError", "DurableExecutionsError", "Exception", "BaseException"}
    [] cls = "CallbackError" -> {"CallbackError", "ExecutionError", "UnrecoverableError", "DurableExecutionsError", "Exception", "BaseException"}
    [] cls = "StepInterruptedError" -> {"StepInterruptedError", "InvocationError", "UnrecoverableError", "DurableExecutionsError", "Exception", "BaseException"}
    [] cls = "CheckpointError" -> {"CheckpointError", "BotoClientError", "InvocationError", "UnrecoverableError", "DurableExecutionsError", "Exception", "BaseException"}
    [] cls = "SuspendExecution" -> {"SuspendExecution", "BaseException"}
    [] cls = "TimedSuspendExecution" -> {"TimedSuspendExecution", "SuspendExecution", "BaseException"}
    [] cls = "BackgroundThreadError" -> {"BackgroundThreadError", "BaseException"}

\* the except clauses in source order
Chain == <<"BackgroundThreadError", "SuspendExecution", "CheckpointError", "InvocationError", "ExecutionError", "Exception">>
Handler(cls) ==
  LET hits == {i \in 1..Len(Chain) : Chain[i] \in Ancestors(cls)} IN
  IF hits = {} THEN "propagate" ELSE Chain[CHOOSE i \in hits : \A j \in hits : i <= j]

Ret(status, result, error) == [kind |-> "return", status |-> status, result |-> result, error |-> error, exc |-> "-", why |-> "-"]
Raise(cls, why) == [kind |-> "raise", status |-> "-", result |-> "absent", error |-> "absent", exc |-> cls, why |-> why]

\* handle_checkpoint_error: EXECUTION category = retriable = raise; INVOCATION = FAILED with the error
HandleCheckpointError(category) ==
  IF category = "EXECUTION" THEN Raise("CheckpointError", "checkpoint_retriable") ELSE Ret("FAILED", "absent", "present")

FaultCategory(fault) == IF fault = "ckpt_retriable" THEN "EXECUTION" ELSE "INVOCATION"

\* what the handler does: [k |-> "return", json, large] or [k |-> "raise", cls, large, (src, cat)]
Body(cause) ==
  CASE cause = "ret_small" -> [k |-> "return", json |-> TRUE, large |-> FALSE]
    [] cause = "ret_large" -> [k |-> "return", json |-> TRUE, large |-> TRUE]
    [] cause = "ret_nonjson" -> [k |-> "return", json |-> FALSE, large |-> FALSE]
    [] cause = "raise_small" -> [k |-> "raise", cls |-> "ValueError", large |-> FALSE, src |-> "-", cat |-> "-"]
    [] cause = "raise_large" -> [k |-> "raise", cls |-> "ValueError", large |-> TRUE, src |-> "-", cat |-> "-"]
    [] cause = "raise_execerr" -> [k |-> "raise", cls |-> "ExecutionError", large |-> FALSE, src |-> "-", cat |-> "-"]
    [] cause = "raise_callbackerr" -> [k |-> "raise", cls |-> "CallbackError", large |-> FALSE, src |-> "-", cat |-> "-"]
    [] cause = "raise_invocation" -> [k |-> "raise", cls |-> "StepInterruptedError", large |-> FALSE, src |-> "-", cat |-> "-"]
    [] cause = "suspend" -> [k |-> "raise", cls |-> "SuspendExecution", large |-> FALSE, src |-> "-", cat |-> "-"]
    [] cause = "timed_suspend" -> [k |-> "raise", cls |-> "TimedSuspendExecution", large |-> FALSE, src |-> "-", cat |-> "-"]
    [] cause = "raise_ckpt_retriable" -> [k |-> "raise", cls |-> "CheckpointError", large |-> FALSE, src |-> "-", cat |-> "EXECUTION"]
    [] cause = "raise_ckpt_nonretriable" -> [k |-> "raise", cls |-> "CheckpointError", large |-> FALSE, src |-> "-", cat |-> "INVOCATION"]
    [] cause = "bte_retriable" -> [k |-> "raise", cls |-> "BackgroundThreadError", large |-> FALSE, src |-> "CheckpointError", cat |-> "EXECUTION"]
    [] cause = "bte_nonretriable" -> [k |-> "raise", cls |-> "BackgroundThreadError", large |-> FALSE, src |-> "CheckpointError", cat |-> "INVOCATION"]
    [] cause = "bte_other" -> [k |-> "raise", cls |-> "BackgroundThreadError", large |-> FALSE, src |-> "RuntimeError", cat |-> "-"]

\* the body of one except clause, for an exception of class cls
Except(clause, b, fault) ==
  CASE clause = "BackgroundThreadError" ->
         IF "CheckpointError" \in Ancestors(b.src) THEN HandleCheckpointError(b.cat) ELSE Raise(b.src, "bg_source")
    [] clause = "SuspendExecution" -> Ret("PENDING", "absent", "absent")
    [] clause = "CheckpointError" -> HandleCheckpointError(b.cat)
    [] clause = "InvocationError" -> Raise(b.cls, "invocation")
    [] clause = "ExecutionError" -> Ret("FAILED", "absent", "present")
    [] clause = "Exception" ->
         IF ~b.large THEN Ret("FAILED", "absent", "present")
         \* the serialized FAILED output exceeds the limit: create_checkpoint_sync (unwraps to the CheckpointError), inner except
         ELSE IF fault = "none" THEN Ret("FAILED", "absent", "absent")
         ELSE HandleCheckpointError(FaultCategory(fault))
    [] clause = "propagate" -> Raise(b.cls, "uncaught")

WrapperOutcome(cause, fault) ==
  IF cause = "malformed" THEN Raise("ExecutionError", "payload")      \* before the try: KeyError/TypeError/AttributeError -> ExecutionError
  ELSE LET b == Body(cause) IN
    IF b.k = "raise" THEN Except(Handler(b.cls), b, fault)
    ELSE IF ~b.json
      \* json.dumps(result) raises TypeError inside the try -> except Exception
      THEN Except(Handler("TypeError"), [k |-> "raise", cls |-> "TypeError", large |-> FALSE, src |-> "-", cat |-> "-"], fault)
    ELSE IF ~b.large THEN Ret("SUCCEEDED", "json", "absent")
    ELSE IF fault = "none" THEN Ret("SUCCEEDED", "empty", "absent")
    \* create_checkpoint(is_sync=True) raises BackgroundThreadError (never CheckpointError): outer except BackgroundThreadError
    ELSE Except(Handler("BackgroundThreadError"),
                [k |-> "raise", cls |-> "BackgroundThreadError", large |-> FALSE, src |-> "CheckpointError", cat |-> FaultCategory(fault)], fault)

WOut == WrapperOutcome(row.cause, row.fault)
WrapperOut ==
  [cause |-> row.cause, fault |-> row.fault, kind |-> WOut.kind, status |-> WOut.status, result |-> WOut.result,
   error |-> WOut.error, exc |-> WOut.exc, why |-> WOut.why]

\* C18 clauses
RaisesOnlyRetryWorthy ==
  WOut.kind = "raise" => WOut.why \in {"checkpoint_retriable", "invocation", "payload", "bg_source"}
WellFormedReturn ==
  WOut.kind = "return" =>
     /\ WOut.status \in {"SUCCEEDED", "FAILED", "PENDING"}
     /\ (WOut.status = "SUCCEEDED" => (WOut.result \in {"json", "empty"} /\ WOut.error = "absent"))
     /\ (WOut.status = "FAILED" => WOut.result = "absent")
     /\ (WOut.status = "PENDING" => (WOut.result = "absent" /\ WOut.error = "absent"))
UserErrorsFail ==
  (row.cause \in {"ret_nonjson", "raise_small", "raise_execerr", "raise_callbackerr"}
   \/ (row.cause = "raise_large" /\ row.fault = "none")) => (WOut.kind = "return" /\ WOut.status = "FAILED")
NonRetriableFails ==
  (row.cause \in {"raise_ckpt_nonretriable", "bte_nonretriable"}
   \/ (row.cause \in {"ret_large", "raise_large"} /\ row.fault = "ckpt_nonretriable")) =>
     (WOut.kind = "return" /\ WOut.status = "FAILED" /\ WOut.error = "present")
RetriableRaises ==
  (row.cause \in {"raise_ckpt_retriable", "bte_retriable"}
   \/ (row.cause \in {"ret_large", "raise_large"} /\ row.fault = "ckpt_retriable")) => WOut.kind = "raise"
SuspendIsPending == row.cause \in {"suspend", "timed_suspend"} => (WOut.kind = "return" /\ WOut.status = "PENDING")
\* the fault only matters where a large payload is checkpointed by the wrapper itself
FaultInert == row.cause \notin {"ret_large", "raise_large"} => WOut = WrapperOutcome(row.cause, "none")
\* a failed large-result checkpoint never becomes SUCCEEDED
FaultNeverSucceeds == (row.cause = "ret_large" /\ row.fault # "none") => ~(WOut.kind = "return" /\ WOut.status = "SUCCEEDED")

---------------------------------------------------------------------------
Rows ==
  CASE Table = "completion" -> CompletionRows
    [] Table = "retry" -> RetryRows
    [] Table = "wait" -> WaitRows
    [] Table = "classify" -> ClassifyRows
    [] Table = "wrapper" -> WrapperRows

Out ==
  CASE Table = "completion" -> CompletionOut
    [] Table = "retry" -> RetryOut
    [] Table = "wait" -> WaitOut
    [] Table = "classify" -> ClassifyOut
    [] Table = "wrapper" -> WrapperOut

Init == row \in Rows
Next == UNCHANGED row
Spec == Init /\ [][Next]_row

\* always TRUE; evaluated once per distinct state: one JSON line per row
Dump == PrintT(ToJson(Out))

=============================================================================
