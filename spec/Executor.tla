----------------------------- MODULE Executor -----------------------------
(***************************************************************************)
(* Model of concurrency/executor.py + concurrency/models.py: one map /      *)
(* parallel call with N branches inside one invocation.                    *)
(*                                                                         *)
(*   main thread   : submit all branches, wait on the completion event,    *)
(*                   cancel, raise the suspend or build the BatchResult,   *)
(*                   checkpoint the parent context (marks orphans), return *)
(*   worker threads: at most MaxConc bodies at a time; a body is a script  *)
(*                   of durable steps ending in ok / fail / susp / tsusp / *)
(*                   bte (BackgroundThreadError surfacing in the branch)   *)
(*   done-callback : status write, counters, should_complete(), the        *)
(*                   should_execution_suspend() scan (one element a step)  *)
(*   timer thread  : resubmits timed-suspended branches                    *)
(*                                                                         *)
(* ShouldComplete / Reason transcribe ExecutionCounters and                *)
(* BatchResult._get_completion_reason; checks/policy_tables.py binds both  *)
(* to the real functions over the whole bounded domain.                    *)
(* Deviations of the code are modelled faithfully and named (ghost `known`)*)
(***************************************************************************)
EXTENDS Naturals, Sequences, FiniteSets, TLC

CONSTANTS
  FixOrphanParent, \* BOOLEAN: TRUE = code as fixed (an update whose parent is orphaned / completed is rejected); FALSE = pinned original
  FixBteBranch,    \* BOOLEAN: TRUE = code as fixed (a BaseException leaving a branch still completes the executor)
  FixEmpty,        \* BOOLEAN: TRUE = code as fixed (zero branches return an empty result at once)
  FixAncestorWalk, \* BOOLEAN: TRUE = code as fixed (the orphan check follows the recorded parent links: every descendant of a completed
                   \*          context is rejected); FALSE = pinned (only operations registered in THIS invocation are known)
  AtomicCallback,  \* BOOLEAN: TRUE = code as fixed (a done-callback's status write, counter update and decision run under one lock);
                   \*          FALSE = pinned original (status write, counter update, should_complete(), scan: separate unprotected steps)
  FixStepGuard,    \* BOOLEAN: TRUE = code as fixed (a step asks ensure_not_orphaned() before it runs the user function: a retry attempt
                   \*          found READY sends no update, hence passed no orphan check); FALSE = pinned original
  ResubmitUnderLock, \* BOOLEAN: FALSE = code as fixed (the timer thread releases TimerScheduler._lock before it resubmits a due branch);
                   \*          TRUE = pinned original (the lock is held for the whole refresh checkpoint + re-submission)
  ResetFirst       \* BOOLEAN: TRUE = code as it is (the timer thread resets a due branch to PENDING BEFORE the refresh checkpoint);
                   \*          FALSE = probe: reset only after the refresh returned (the branch still looks parked meanwhile)

\* The configuration of the call: a *variable that never changes* (cf' = cf), so that one TLC run can validate traces of
\* many differently configured calls.  cf = [script, maxc, mins, tolc, tolp, tfail, lag, pre]
\*   script[i] : sequence of atoms; "step" (a durable step: START, function, SUCCEED), then one of "ok" "fail" "susp" "tsusp" "bte";
\*               after "tsusp" the script continues when the branch is resubmitted.  Retrying steps: "sfail" (START, function
\*               raises, RETRY recorded, the branch parks on the retry timer), "sretry" (the attempt found READY after the
\*               resubmission: no START, function, SUCCEED), "sfinal" (START, function raises, FAIL recorded); "sretryfail" /
\*               "sretryfinal": a READY attempt whose function raises again (RETRY and park / FAIL); "rok" / "rfail": the whole script
\*               of a branch whose context is already SUCCEEDED / FAILED when the invocation begins (replayed, nothing sent);
\*               "cin" / "cout": a child context opened / completed inside the body (one update each)
\*   maxc : max_concurrency (0 = None); mins : min_successful (0 = None); tolc : tolerated_failure_count (99 = None);
\*   tolp : tolerated_failure_percentage (999 = None); tfail : BOOLEAN, the timer thread's refresh checkpoint may fail; lag : BOOLEAN, the backend fires timers late (BodyRepark)
\*   pre  : sequence of the branches whose context already exists when the call starts (a re-invocation: the branch is re-entered without a
\*          new START, so this invocation's parent/child registry never hears of its context)
VARIABLE cf
Script == cf.script
N == Len(cf.script)
MaxConc == cf.maxc
MinSucc == cf.mins
TolCount == cf.tolc
TolPct == cf.tolp

Br == 1..N
NoneC == 99
NoneP == 999

VARIABLES
  bst,        \* bst[i] : BranchStatus
  wph,        \* wph[i] : "none" | "queued" | "run" | "done" | "cbw" | "cbd" | "scan" | "idle"
  bpos,       \* bpos[i] : position in Script[i]
  sub,        \* sub[i]  : micro-phase inside a "step" atom: "start" | "fn" | "succeed"; or "ctxStart" / "ctxEnd" / "atom"
  fout,       \* fout[i] : outcome of the branch future: "none","ok","fail","susp","tsusp","bte","orphan","cancelled"
  scanIdx,    \* scanIdx[i] : loop index of should_execution_suspend inside branch i's callback
  scanT, scanI, \* scan accumulators per callback: saw a timed / an indefinite suspend
  succ, fail, \* ExecutionCounters
  event,      \* _completion_event
  suspExc,    \* _suspend_exception : "none" | "timed" | "indef"
  timers,     \* set of branches in the TimerScheduler heap
  mpc,        \* main thread pc
  mi,         \* main loop index
  reg,        \* reg : set of operation names registered in _parent_to_children (branch contexts "c<i>", steps "<i>.<k>")
  pdone,      \* _parent_done
  parentSent, \* the parent's completion record has been handed to the pipeline
  items,      \* the BatchResult items (sequence of "SUCCEEDED"/"FAILED"/"STARTED"), or <<>>
  reason,     \* completion reason
  \* ---- history ------------------------------------------------------------
  active, maxActive,   \* bodies currently running / maximum ever
  decidedAt,           \* status vector when the completion event was set (or <<>>)
  outcomeAt,           \* what each branch had actually done when the event was set
  late,                \* set of <<i, what>> : updates accepted / functions run under the context after its completion record
  known,               \* named known deviations that occurred
  result,              \* "none" | "returned" | "suspended"
  snap,                \* snap[i] : bodies that were executing when branch i finished / parked (its callback began)
  suspSnap,            \* snap of the callback that decided to suspend
  resub,               \* branches resubmitted by the timer thread
  chk,                 \* branches whose current checkpoint passed the orphan check and is not enqueued yet
  chkLate,             \* ... those of them whose check passed although the call's completion record had already been handed over
  tph,                 \* timer thread: [ph |-> "idle" | "refresh" (about to enqueue the empty checkpoint) | "await" (blocked in it), i |-> branch]
  tphAtSusp,           \* history: tph.ph when the suspension was decided ("none" before; "stale" if decided by a stale scan)
  stale,               \* history: callbacks whose running should_execution_suspend() scan overlapped a timer pop
  noCb,                \* resubmitted branches whose done-callback the timer thread has not attached yet (submit ... add_done_callback)
  badSusp              \* history: a suspension was decided although the branch statuses at that moment already decided the policy

vars == <<bst, wph, bpos, sub, fout, scanIdx, scanT, scanI, succ, fail, event, suspExc, timers, mpc, mi, reg, pdone, parentSent,
          items, reason, active, maxActive, decidedAt, outcomeAt, late, known, result, snap, suspSnap, resub, chk, chkLate, tph, tphAtSusp, stale, noCb, badSusp>>

Atom(i) == IF bpos[i] <= Len(Script[i]) THEN Script[i][bpos[i]] ELSE "ok"

Init ==
  /\ bst = [i \in Br |-> "PENDING"] /\ wph = [i \in Br |-> "none"] /\ bpos = [i \in Br |-> 1]
  /\ sub = [i \in Br |-> "ctxStart"] /\ fout = [i \in Br |-> "none"]
  /\ scanIdx = [i \in Br |-> 0] /\ scanT = [i \in Br |-> FALSE] /\ scanI = [i \in Br |-> FALSE]
  /\ succ = 0 /\ fail = 0 /\ event = FALSE /\ suspExc = "none" /\ timers = {}
  /\ mpc = "Submit" /\ mi = 1
  /\ reg = {} /\ pdone = {} /\ parentSent = FALSE
  /\ items = <<>> /\ reason = "none"
  /\ active = 0 /\ maxActive = 0 /\ decidedAt = <<>> /\ outcomeAt = <<>> /\ late = {} /\ known = {} /\ result = "none"
  /\ snap = [i \in Br |-> {}] /\ suspSnap = {} /\ resub = {} /\ chk = {} /\ chkLate = {}
  /\ tph = [ph |-> "idle", i |-> 0] /\ tphAtSusp = "none" /\ stale = {} /\ noCb = {} /\ badSusp = FALSE

---------------------------------------------------------------------------
\* Completion policy (transcription of ExecutionCounters / BatchResult._get_completion_reason)

MinS == IF MinSucc = 0 THEN N ELSE MinSucc
FailCond(f) == (TolCount # NoneC /\ f > TolCount) \/ (TolPct # NoneP /\ N > 0 /\ f * 100 > TolPct * N)
ShouldContinue(f) == IF TolCount = NoneC /\ TolPct = NoneP THEN f = 0 ELSE ~FailCond(f)
IsComplete(s, f) == (s + f = N) \/ (s >= MinS)
ShouldComplete(s, f) == IsComplete(s, f) \/ ~ShouldContinue(f)

HasCriteria == MinSucc # 0 \/ TolCount # NoneC \/ TolPct # NoneP
Reason(s, f, started) ==
  LET total == s + f + started IN
  IF (~HasCriteria /\ f > 0) \/ (HasCriteria /\ ((TolCount # NoneC /\ f > TolCount) \/ (TolPct # NoneP /\ total > 0 /\ f * 100 > TolPct * total)))
    THEN "FAILURE_TOLERANCE_EXCEEDED"
  ELSE IF s + f = total THEN "ALL_COMPLETED"
  ELSE IF MinSucc # 0 /\ s >= MinSucc THEN "MIN_SUCCESSFUL_REACHED"
  ELSE "ALL_COMPLETED"

---------------------------------------------------------------------------
\* TimerScheduler._lock: pinned original - held by the timer thread from the pop until the resubmission (incl. an inline callback)
\* is over; fixed code - held only inside the (atomic) pop
SchedLockHeld == ResubmitUnderLock /\ tph.ph # "idle"

\* main thread

Workers == IF MaxConc = 0 THEN N ELSE MaxConc

\* ThreadPoolExecutor(max_workers=0) raises ValueError (zero items, no max_concurrency); with max_concurrency the wait never ends
MainSubmit ==
  /\ mpc = "Submit"
  /\ IF N = 0
       THEN IF FixEmpty
              THEN mpc' = "Build" /\ UNCHANGED <<wph, bst, known, result>>
              ELSE /\ known' = known \cup {"empty-input"}
                   /\ (IF MaxConc = 0 THEN mpc' = "Returned" /\ result' = "raised-valueerror"
                                      ELSE mpc' = "Wait" /\ UNCHANGED result)
                   /\ UNCHANGED <<wph, bst>>
       ELSE IF mi <= N
              THEN /\ wph' = [wph EXCEPT ![mi] = "queued"] /\ bst' = [bst EXCEPT ![mi] = "RUNNING"]
                   /\ UNCHANGED <<mpc, known, result>>
              ELSE mpc' = "Wait" /\ UNCHANGED <<wph, bst, known, result>>
  /\ mi' = IF N > 0 /\ mi <= N THEN mi + 1 ELSE mi
  /\ UNCHANGED <<bpos, sub, fout, scanIdx, scanT, scanI, succ, fail, event, suspExc, timers, reg, pdone, parentSent, items, reason,
                 active, maxActive, decidedAt, outcomeAt, late>>

\* (fixed code: a fatal exception recorded by a branch / the timer thread is re-raised right after the wait)
MainWake ==
  /\ mpc = "Wait" /\ event
  /\ IF suspExc = "fatal" THEN mpc' = "Returned" /\ result' = "raised" /\ UNCHANGED mi
                          ELSE mpc' = "Cancel" /\ mi' = 1 /\ UNCHANGED result
  /\ UNCHANGED <<bst, wph, bpos, sub, fout, scanIdx, scanT, scanI, succ, fail, event, suspExc, timers, reg, pdone, parentSent,
                 items, reason, active, maxActive, decidedAt, outcomeAt, late, known>>

\* future.cancel() for every initially submitted future: a queued one becomes cancelled (its callback marks it SUSPENDED)
MainCancel ==
  /\ mpc = "Cancel"
  /\ IF mi <= N
       THEN /\ IF wph[mi] = "queued"
                 THEN wph' = [wph EXCEPT ![mi] = "idle"] /\ fout' = [fout EXCEPT ![mi] = "cancelled"]
                      /\ bst' = [bst EXCEPT ![mi] = "SUSPENDED"]
                 ELSE UNCHANGED <<wph, fout, bst>>
            /\ mi' = mi + 1 /\ UNCHANGED mpc
       ELSE /\ ~SchedLockHeld      \* leaving `with TimerScheduler(...)`: shutdown() takes the scheduler lock
            /\ mpc' = IF suspExc # "none" THEN "RaiseSuspend" ELSE "Build"
            /\ UNCHANGED <<wph, fout, bst, mi>>
  /\ UNCHANGED <<bpos, sub, scanIdx, scanT, scanI, succ, fail, event, suspExc, timers, reg, pdone, parentSent, items, reason,
                 active, maxActive, decidedAt, outcomeAt, late, known, result>>

MainRaiseSuspend ==
  /\ mpc = "RaiseSuspend"
  /\ mpc' = "Returned" /\ result' = "suspended"
  /\ UNCHANGED <<bst, wph, bpos, sub, fout, scanIdx, scanT, scanI, succ, fail, event, suspExc, timers, mi, reg, pdone, parentSent,
                 items, reason, active, maxActive, decidedAt, outcomeAt, late, known>>

ItemOf(i) == CASE bst[i] = "COMPLETED" -> "SUCCEEDED" [] bst[i] = "FAILED" -> "FAILED" [] OTHER -> "STARTED"
Count(sq, x) == Cardinality({k \in 1..Len(sq) : sq[k] = x})

\* _create_result(): one item per branch from the statuses observed now
MainBuild ==
  /\ mpc = "Build"
  /\ LET its == [i \in Br |-> ItemOf(i)] IN
     /\ items' = its
     /\ reason' = Reason(Count(its, "SUCCEEDED"), Count(its, "FAILED"), Count(its, "STARTED"))
  /\ mpc' = "ParentCkpt"
  /\ UNCHANGED <<bst, wph, bpos, sub, fout, scanIdx, scanT, scanI, succ, fail, event, suspExc, timers, mi, reg, pdone, parentSent,
                 active, maxActive, decidedAt, outcomeAt, late, known, result>>

\* the parent context's SUCCEED / FAIL passes through create_checkpoint: under the lock every registered descendant is marked and
\* the context is remembered as completed (MainParentMark); the put on the queue follows outside the lock (MainParentCkpt)
ParentMarked == mpc = "ParentPut" \/ parentSent
MainParentMark ==
  /\ mpc = "ParentCkpt"
  /\ pdone' = reg /\ mpc' = "ParentPut"
  /\ UNCHANGED <<bst, wph, bpos, sub, fout, scanIdx, scanT, scanI, succ, fail, event, suspExc, timers, mi, reg, parentSent, items, reason,
                 active, maxActive, decidedAt, outcomeAt, late, known, result>>
MainParentCkpt ==
  /\ mpc = "ParentPut"
  /\ parentSent' = TRUE
  /\ mpc' = "Returned" /\ result' = "returned"
  /\ UNCHANGED <<bst, wph, bpos, sub, fout, scanIdx, scanT, scanI, succ, fail, event, suspExc, timers, mi, reg, pdone, items, reason,
                 active, maxActive, decidedAt, outcomeAt, late, known>>

---------------------------------------------------------------------------
\* workers: branch bodies

\* (a done-callback occupies the worker that ran the body - unless it has not been attached yet or runs inline in the timer thread)
BusyWorkers == Cardinality({i \in Br : \/ wph[i] = "run"
                                       \/ /\ wph[i] \in {"done", "cbw", "cbd", "scan", "sched"}
                                          /\ i \notin noCb /\ ~(tph.ph = "inline" /\ tph.i = i)})

\* a free worker takes a queued branch
WorkerTake(i) ==
  /\ wph[i] = "queued" /\ BusyWorkers < Workers
  /\ wph' = [wph EXCEPT ![i] = "run"]
  /\ active' = active + 1 /\ maxActive' = IF active + 1 > maxActive THEN active + 1 ELSE maxActive
  /\ UNCHANGED <<bst, bpos, sub, fout, scanIdx, scanT, scanI, succ, fail, event, suspExc, timers, mpc, mi, reg, pdone, parentSent,
                 items, reason, decidedAt, outcomeAt, late, known, result>>

Ctx(i) == <<"c", i>>
StepOp(i) == <<"s", i, bpos[i]>>

Finish(i, o) == /\ fout' = [fout EXCEPT ![i] = o] /\ wph' = [wph EXCEPT ![i] = "done"] /\ active' = active - 1

\* would create_checkpoint reject an update for operation `op` whose parent is `par` ?
\* (fixed code: also when the parent is marked, or is the completed context itself)
\* (every operation of the model is a descendant of the call's context "p": the ancestor walk rejects everything once it completed)
Rejected(op, par) == \/ op \in pdone
                     \/ (FixOrphanParent /\ (par \in pdone \/ (par = <<"p">> /\ ParentMarked)))
                     \/ (FixAncestorWalk /\ ParentMarked)

BSet(i, r, sb, p, f, w, a, l, k) ==
  /\ reg' = r /\ sub' = [sub EXCEPT ![i] = sb] /\ bpos' = [bpos EXCEPT ![i] = p] /\ fout' = [fout EXCEPT ![i] = f]
  /\ wph' = [wph EXCEPT ![i] = w] /\ active' = a /\ late' = l /\ known' = k

\* the body of branch i ends with future outcome o
End(i, o, l, k) == BSet(i, reg, sub[i], bpos[i], o, "done", active - 1, l, k)

LateU(i) == IF parentSent THEN late \cup {<<i, "update">>} ELSE late

\* create_checkpoint = orphan check under _parent_done_lock, THEN (outside the lock) the put on the checkpoint queue.
\* Both are separate steps (faithful): `chk` holds the branches that passed the check and have not enqueued yet.
\* An update enqueued after the parent's completion record although its check passed before is tagged "update-race".
\* ("wstart": the synchronous START of the wait / callback with which a tsusp / susp atom begins)
StepPhases == {"start", "succeed", "wstart", "retry", "failrec", "cmark"}
IsCkptPhase(i) == sub[i] \in ({"ctxStart"} \cup StepPhases) \/ (sub[i] = "atom" /\ Atom(i) \in {"ok", "fail"})
CkOp(i) == IF sub[i] \in StepPhases THEN StepOp(i) ELSE Ctx(i)
CkPar(i) == IF sub[i] \in StepPhases THEN Ctx(i) ELSE <<"p">>
\* how a parked body ends: a retrying step parks on its retry timer like a wait
ParkOut(i) == IF Atom(i) \in {"sfail", "sretryfail"} THEN "tsusp" ELSE Atom(i)
\* after a resubmission the branch context exists already: no START is sent for it
CtxExists(i) == sub[i] = "ctxStart" /\ (Ctx(i) \in reg \/ (\E k \in DOMAIN cf.pre : cf.pre[k] = i))

BodyCheck(i) ==
  /\ wph[i] = "run" /\ i \notin chk /\ IsCkptPhase(i) /\ ~CtxExists(i)
  /\ IF Rejected(CkOp(i), CkPar(i))
       THEN End(i, "orphan", late, known) /\ chk' = chk /\ chkLate' = chkLate
       \* the operation is registered under its parent inside the same locked section as the check (state.py:436-441)
       ELSE /\ chk' = chk \cup {i} /\ reg' = reg \cup {CkOp(i)} /\ UNCHANGED <<sub, bpos, fout, wph, active, late, known>>
            /\ chkLate' = (IF ParentMarked THEN chkLate \cup {i} ELSE chkLate)

\* With the repaired check a passed check means the parent had not completed AT CHECK TIME; if its completion record has been
\* handed over by the time of the put, the update slipped behind it: tag "...-race" (the named, unrepaired deviation).
\* On the pinned original a never-seen operation passes the check even after the parent completed: tags "update" / "fn".
LateTag(i, first) ==
  IF ~parentSent THEN late
  \* the check itself passed after the completion record (no race): an update accepted under a completed context
  ELSE IF i \in chkLate THEN late \cup (IF first THEN {<<i, "update">>, <<i, "fn">>} ELSE {<<i, "update">>})
  ELSE IF first /\ ~FixOrphanParent THEN late \cup {<<i, "update">>, <<i, "fn">>}
  ELSE IF first THEN late \cup {<<i, "update-race">>, <<i, "fn-race">>}
  ELSE late \cup {<<i, "update-race">>}

BodyPut(i) ==
  /\ wph[i] = "run" /\ i \in chk
  /\ chk' = chk \ {i} /\ chkLate' = chkLate \ {i}
  /\ CASE sub[i] = "ctxStart" ->
            BSet(i, reg, "atom", bpos[i], fout[i], "run", active, LateTag(i, TRUE),
                 IF parentSent THEN known \cup {IF FixOrphanParent THEN "check-then-put" ELSE "orphan-first-time-op"} ELSE known)
       [] sub[i] = "start" ->
            BSet(i, reg, "fn", bpos[i], fout[i], "run", active, LateTag(i, TRUE),
                 IF parentSent THEN known \cup {IF FixOrphanParent THEN "check-then-put" ELSE "orphan-first-time-op"} ELSE known)
       [] sub[i] = "succeed" ->
            BSet(i, reg, "atom", bpos[i] + 1, fout[i], "run", active, LateTag(i, FALSE),
                 IF parentSent THEN known \cup {"check-then-put"} ELSE known)
       [] sub[i] = "wstart" ->
            BSet(i, reg, "park", bpos[i], fout[i], "run", active, LateTag(i, FALSE),
                 IF parentSent THEN known \cup {IF FixOrphanParent THEN "check-then-put" ELSE "orphan-first-time-op"} ELSE known)
       [] sub[i] = "retry" ->     \* RETRY recorded (synchronous): the branch parks on the retry timer
            BSet(i, reg, "park", bpos[i], fout[i], "run", active, LateTag(i, FALSE),
                 IF parentSent THEN known \cup {"check-then-put"} ELSE known)
       \* "cin" / "cout": START / SUCCEED of a child context opened inside the branch body (run_in_child_context): one update each;
       \* the operations between them hang off that context, which changes nothing here - with the ancestor walk everything below
       \* the call's context is rejected once it completed, at any depth
       [] sub[i] = "cmark" ->
            BSet(i, reg, "atom", bpos[i] + 1, fout[i], "run", active, LateTag(i, Atom(i) = "cin"),
                 IF parentSent THEN known \cup {IF FixOrphanParent THEN "check-then-put" ELSE "orphan-first-time-op"} ELSE known)
       [] sub[i] = "failrec" ->   \* FAIL recorded (synchronous): the step raises in the body
            BSet(i, reg, "atom", bpos[i] + 1, fout[i], "run", active, LateTag(i, FALSE),
                 IF parentSent THEN known \cup {"check-then-put"} ELSE known)
       [] OTHER ->    \* child context SUCCEED / FAIL: synchronous - the body ends when the checkpoint call returns (ctxWait)
            BSet(i, reg, "ctxWait", bpos[i], fout[i], "run", active, LateTag(i, FALSE),
                 IF parentSent THEN known \cup {"check-then-put"} ELSE known)

\* body steps that are not checkpoints
BodyOther(i) ==
  /\ wph[i] = "run" /\ i \notin chk /\ chk' = chk /\ chkLate' = chkLate
  /\ (~IsCkptPhase(i) \/ CtxExists(i))
  /\ CASE CtxExists(i) -> BSet(i, reg, "atom", bpos[i], fout[i], "run", active, late, known)
       [] sub[i] = "atom" /\ Atom(i) \in {"step", "sfail", "sfinal"} -> BSet(i, reg, "start", bpos[i], fout[i], "run", active, late, known)
       [] sub[i] = "atom" /\ Atom(i) \in {"cin", "cout"} -> BSet(i, reg, "cmark", bpos[i], fout[i], "run", active, late, known)
       \* the user function runs (and returns, or raises: a retry or the final failure is recorded next)
       [] sub[i] = "fn" -> BSet(i, reg, CASE Atom(i) \in {"sfail", "sretryfail"} -> "retry" [] Atom(i) \in {"sfinal", "sretryfinal"} -> "failrec"
                                        [] OTHER -> "succeed",
                                bpos[i], fout[i], "run", active, late, known)
       \* a retry attempt found READY: no update is sent; (fixed code) the explicit orphan check, then the function is entered
       [] sub[i] = "atom" /\ Atom(i) \in {"sretry", "sretryfail", "sretryfinal"} ->
            IF FixStepGuard /\ Rejected(StepOp(i), Ctx(i))
              THEN End(i, "orphan", late, known)
              ELSE BSet(i, reg, "enter", bpos[i], fout[i], "run", active, late, known)
       [] sub[i] = "enter" ->
            BSet(i, reg, "fn", bpos[i], fout[i], "run", active,
                 IF parentSent THEN late \cup {<<i, IF FixStepGuard THEN "fn-race" ELSE "fn">>} ELSE late, known)
       [] sub[i] = "ctxWait" -> End(i, Atom(i), late, known)                  \* the context's completion checkpoint returned
       \* a later invocation in which the branch's context is already terminal in the history: the child handler returns the
       \* recorded result / raises the recorded error at once, the body is not run and nothing is sent ("rok" / "rfail")
       [] sub[i] = "atom" /\ Atom(i) \in {"rok", "rfail"} -> End(i, IF Atom(i) = "rok" THEN "ok" ELSE "fail", late, known)
       \* a wait / callback: its START is checkpointed first (wstart), then the branch parks
       [] sub[i] = "atom" /\ Atom(i) \in {"susp", "tsusp"} -> BSet(i, reg, "wstart", bpos[i], fout[i], "run", active, late, known)
       [] sub[i] = "park" \/ (sub[i] = "atom" /\ Atom(i) = "bte") ->
            BSet(i, reg, "atom", IF ParkOut(i) = "tsusp" THEN bpos[i] + 1 ELSE bpos[i], ParkOut(i), "done", active - 1, late, known)
       [] OTHER -> FALSE

\* the checkpoint pipeline has failed (cf.tfail): whichever create_checkpoint call the branch makes or is blocked in next raises
\* BackgroundThreadError - at any point of the body (the scripted "bte" atom is the special case "at an atom boundary")
BodyPipelineFailed(i) ==
  /\ cf.tfail /\ wph[i] = "run" /\ i \notin chk /\ chk' = chk /\ chkLate' = chkLate
  /\ End(i, "bte", late, known)

\* the backend fires its timers late (cf.lag: its own latency, or a local clock that runs ahead): a branch resubmitted by the local
\* timer finds the operation it parked on unchanged in the refreshed state (PENDING step / STARTED wait) and parks again at once,
\* without any update; the position in the script does not move
AfterParked(i) == bpos[i] > 1 /\ bpos[i] - 1 <= Len(Script[i]) /\ Script[i][bpos[i] - 1] \in {"tsusp", "sfail", "sretryfail"}
BodyRepark(i) ==
  /\ cf.lag /\ wph[i] = "run" /\ i \notin chk /\ chk' = chk /\ chkLate' = chkLate
  /\ sub[i] = "atom" /\ AfterParked(i)
  /\ End(i, "tsusp", late, known)

BodyStep(i) ==
  /\ (BodyCheck(i) \/ BodyPut(i) \/ BodyOther(i) \/ BodyPipelineFailed(i) \/ BodyRepark(i))
  /\ UNCHANGED <<bst, scanIdx, scanT, scanI, succ, fail, event, suspExc, timers, mpc, mi, pdone, parentSent, items, reason,
                 maxActive, decidedAt, outcomeAt, result>>

---------------------------------------------------------------------------
\* the done-callback (_on_task_complete), running in the worker thread

\* what the branches have really done so far (ground truth for the reported items)
Truth(i) == CASE fout[i] = "ok" /\ wph[i] \in {"done", "cbw", "cbd", "scan", "idle"} -> "SUCCEEDED"
              [] fout[i] = "fail" /\ wph[i] \in {"done", "cbw", "cbd", "scan", "idle"} -> "FAILED"
              [] OTHER -> "STARTED"

SetEvent == /\ event' = TRUE
            /\ decidedAt' = IF event THEN decidedAt ELSE [i \in Br |-> bst[i]]
            /\ outcomeAt' = IF event THEN outcomeAt ELSE [i \in Br |-> Truth(i)]

CbBusy == \E j \in Br : wph[j] \in {"cbw", "cbd", "scan"}
\* where a done-callback goes when its decision part is over: a timed suspend still has to be put on the timer heap
AfterCb(i) == IF fout[i] = "tsusp" THEN "sched" ELSE "idle"
\* first half: status write + counter
CbWrite(i) ==
  /\ wph[i] = "done" /\ i \notin noCb
  /\ AtomicCallback => ~CbBusy          \* fixed code: callbacks are serialized by a lock held until the decision is taken
  \* pinned original: exe_state.complete()/fail() makes the status visible BEFORE counters.complete_task()/fail_task() ("cbw")
  /\ CASE fout[i] = "ok" -> /\ bst' = [bst EXCEPT ![i] = "COMPLETED"]
                            /\ IF AtomicCallback THEN succ' = succ + 1 /\ wph' = [wph EXCEPT ![i] = "cbd"]
                                                 ELSE UNCHANGED succ /\ wph' = [wph EXCEPT ![i] = "cbw"]
                            /\ UNCHANGED <<fail, timers, known>>
       [] fout[i] = "fail" -> /\ bst' = [bst EXCEPT ![i] = "FAILED"]
                              /\ IF AtomicCallback THEN fail' = fail + 1 /\ wph' = [wph EXCEPT ![i] = "cbd"]
                                                   ELSE UNCHANGED fail /\ wph' = [wph EXCEPT ![i] = "cbw"]
                              /\ UNCHANGED <<succ, timers, known>>
       [] fout[i] = "susp" -> /\ bst' = [bst EXCEPT ![i] = "SUSPENDED"] /\ wph' = [wph EXCEPT ![i] = "cbd"]
                              /\ UNCHANGED <<succ, fail, timers, known>>
       \* (the branch is put on the timer heap by schedule_resume() AFTER the decision, outside the decision lock: CbSchedule)
       [] fout[i] = "tsusp" -> /\ bst' = [bst EXCEPT ![i] = "SUSPENDED_T"]
                               /\ wph' = [wph EXCEPT ![i] = "cbd"] /\ UNCHANGED <<succ, fail, timers, known>>
       [] fout[i] = "orphan" -> \* ignored: the branch stays RUNNING, nothing is decided
                                /\ wph' = [wph EXCEPT ![i] = "idle"] /\ UNCHANGED <<bst, succ, fail, timers, known>>
       [] fout[i] = "bte" ->
            \* BackgroundThreadError is a BaseException: future.result() re-raises it, no except clause matches, the callback
            \* dies inside concurrent.futures (_invoke_callbacks only catches Exception): nothing is decided (faithful)
            IF FixBteBranch
              THEN \* fixed code: remember the fatal exception and set the completion event: the caller re-raises it
                   /\ wph' = [wph EXCEPT ![i] = "idle"] /\ UNCHANGED <<bst, succ, fail, timers, known>>
              ELSE /\ wph' = [wph EXCEPT ![i] = "idle"] /\ known' = known \cup {"bte-in-branch"}
                   /\ UNCHANGED <<bst, succ, fail, timers>>
  /\ IF fout[i] = "bte" /\ FixBteBranch
       THEN event' = TRUE /\ suspExc' = (IF event THEN suspExc ELSE "fatal") /\ UNCHANGED <<decidedAt, outcomeAt>>
       ELSE UNCHANGED <<event, suspExc, decidedAt, outcomeAt>>
  /\ UNCHANGED <<bpos, sub, fout, scanIdx, scanT, scanI, mpc, mi, reg, pdone, parentSent, items, reason,
                 active, maxActive, late, result>>

\* pinned original only: the counter update, a separate step after the status became visible
CbCount(i) ==
  /\ wph[i] = "cbw"
  /\ IF fout[i] = "ok" THEN succ' = succ + 1 /\ UNCHANGED fail ELSE fail' = fail + 1 /\ UNCHANGED succ
  /\ wph' = [wph EXCEPT ![i] = "cbd"]
  /\ UNCHANGED <<bst, bpos, sub, fout, scanIdx, scanT, scanI, event, suspExc, timers, mpc, mi, reg, pdone, parentSent, items, reason,
                 active, maxActive, decidedAt, outcomeAt, late, known, result>>

\* second half: should_complete() ?  else start the suspend scan
CbDecide(i) ==
  /\ wph[i] = "cbd"
  /\ IF ShouldComplete(succ, fail)
       THEN /\ SetEvent /\ wph' = [wph EXCEPT ![i] = AfterCb(i)] /\ UNCHANGED <<scanIdx, scanT, scanI>>
       ELSE /\ wph' = [wph EXCEPT ![i] = "scan"] /\ scanIdx' = [scanIdx EXCEPT ![i] = 1]
            /\ scanT' = [scanT EXCEPT ![i] = FALSE] /\ scanI' = [scanI EXCEPT ![i] = FALSE]
            /\ UNCHANGED <<event, decidedAt, outcomeAt>>
  /\ UNCHANGED <<bst, bpos, sub, fout, succ, fail, suspExc, timers, mpc, mi, reg, pdone, parentSent, items, reason,
                 active, maxActive, late, known, result>>

\* should_execution_suspend(): reads one status per step (other callbacks / the timer thread write meanwhile)
CbScan(i) ==
  /\ wph[i] = "scan"
  /\ IF scanIdx[i] <= N
       THEN LET j == scanIdx[i] IN
            IF bst[j] \in {"PENDING", "RUNNING"}
              THEN /\ wph' = [wph EXCEPT ![i] = AfterCb(i)] /\ UNCHANGED <<scanIdx, scanT, scanI, event, suspExc, decidedAt, outcomeAt>>
              ELSE /\ scanIdx' = [scanIdx EXCEPT ![i] = @ + 1]
                   /\ scanT' = [scanT EXCEPT ![i] = @ \/ bst[j] = "SUSPENDED_T"]
                   /\ scanI' = [scanI EXCEPT ![i] = @ \/ bst[j] = "SUSPENDED"]
                   /\ UNCHANGED <<wph, event, suspExc, decidedAt, outcomeAt>>
       ELSE /\ wph' = [wph EXCEPT ![i] = AfterCb(i)]
            /\ IF scanT[i] \/ scanI[i]
                 THEN /\ suspExc' = (IF scanT[i] THEN "timed" ELSE "indef") /\ SetEvent
                 ELSE UNCHANGED <<suspExc, event, decidedAt, outcomeAt>>
            /\ UNCHANGED <<scanIdx, scanT, scanI>>
  /\ UNCHANGED <<bst, bpos, sub, fout, succ, fail, timers, mpc, mi, reg, pdone, parentSent, items, reason,
                 active, maxActive, late, known, result>>

---------------------------------------------------------------------------
\* scheduler.schedule_resume(): the parked branch is put on the timer heap (needs TimerScheduler._lock)
CbSchedule(i) ==
  /\ wph[i] = "sched" /\ ~SchedLockHeld
  /\ timers' = timers \cup {i} /\ wph' = [wph EXCEPT ![i] = "idle"]
  /\ UNCHANGED <<bst, bpos, sub, fout, scanIdx, scanT, scanI, succ, fail, event, suspExc, mpc, mi, reg, pdone, parentSent, items, reason,
                 active, maxActive, decidedAt, outcomeAt, late, known, result>>

\* timer thread (TimerScheduler._timer_loop + the resubmitter closure of execute()).  One branch at a time:
\*   TimerPop     : a due branch is popped from the heap; reset_to_pending() (code as it is: BEFORE the refresh)
\*   TimerPut     : the empty "state refresh" checkpoint is enqueued (synchronous: the thread blocks in it)
\*   TimerRefreshed : the checkpoint returned: (reset_to_pending() in the ResetFirst = FALSE probe;) the branch is submitted again.
\*                  If it failed (BackgroundThreadError): fixed code records the fatal exception and sets the completion event.
TimerUnch == UNCHANGED <<bpos, scanIdx, scanT, scanI, succ, fail, mpc, mi, reg, pdone, parentSent, items, reason,
                         active, maxActive, decidedAt, outcomeAt, late, result>>
ResetBranch(i, st) == /\ fout' = [fout EXCEPT ![i] = "none"] /\ sub' = [sub EXCEPT ![i] = "ctxStart"]

TimerPop(i) ==
  /\ tph.ph = "idle" /\ i \in timers /\ bst[i] = "SUSPENDED_T" /\ mpc \in {"Submit", "Wait"}
  /\ timers' = timers \ {i}
  /\ tph' = [ph |-> "refresh", i |-> i]
  /\ IF ResetFirst THEN bst' = [bst EXCEPT ![i] = "PENDING"] /\ ResetBranch(i, "PENDING")
                   ELSE UNCHANGED <<bst, fout, sub>>
  /\ UNCHANGED <<wph, event, suspExc, known, noCb>> /\ TimerUnch

TimerPut ==
  /\ tph.ph = "refresh"
  /\ tph' = [tph EXCEPT !.ph = "await"]
  /\ UNCHANGED <<bst, wph, fout, sub, timers, event, suspExc, known, noCb>> /\ TimerUnch

TimerRefreshed(ok) ==
  /\ tph.ph = "await" /\ (ok \/ cf.tfail)
  /\ LET i == tph.i IN
     IF ok
       THEN \* submit_task: a new future on the pool (refused once the pool was shut down: the timer thread dies, nothing happens);
            \* the done-callback is attached in a separate step (TimerAddCb)
            IF mpc \in {"Submit", "Wait", "Cancel"}
              THEN /\ bst' = [bst EXCEPT ![i] = "RUNNING"] /\ wph' = [wph EXCEPT ![i] = "queued"]
                   /\ (IF ResetFirst THEN UNCHANGED <<fout, sub>> ELSE ResetBranch(i, "PENDING"))
                   /\ tph' = [ph |-> "addcb", i |-> i] /\ noCb' = noCb \cup {i}
                   /\ UNCHANGED <<event, suspExc, known>>
              ELSE tph' = [ph |-> "idle", i |-> 0] /\ UNCHANGED <<bst, wph, fout, sub, event, suspExc, known, noCb>>
       ELSE /\ UNCHANGED <<bst, wph, fout, sub, noCb>> /\ tph' = [ph |-> "idle", i |-> 0]
            /\ IF FixBteBranch
                 THEN event' = TRUE /\ suspExc' = (IF event THEN suspExc ELSE "fatal") /\ UNCHANGED known
                 ELSE known' = known \cup {"bte-in-branch"} /\ UNCHANGED <<event, suspExc>>
  /\ UNCHANGED timers /\ TimerUnch

\* future.add_done_callback(): if the resubmitted body has already finished, the callback runs inline in the timer thread
TimerAddCb ==
  /\ tph.ph = "addcb"
  /\ noCb' = noCb \ {tph.i}
  /\ tph' = (IF wph[tph.i] = "done" THEN [tph EXCEPT !.ph = "inline"] ELSE [ph |-> "idle", i |-> 0])
  /\ UNCHANGED <<bst, wph, fout, sub, timers, event, suspExc, known>> /\ TimerUnch

\* the inline callback is over (its CbWrite / CbDecide / CbScan / CbSchedule steps are those of the branch)
TimerInlineDone ==
  /\ tph.ph = "inline" /\ wph[tph.i] \notin {"done", "cbw", "cbd", "scan", "sched"}
  /\ tph' = [ph |-> "idle", i |-> 0]
  /\ UNCHANGED <<bst, wph, fout, sub, timers, event, suspExc, known, noCb>> /\ TimerUnch

H3 == UNCHANGED <<snap, suspSnap, resub>>
H4 == UNCHANGED <<chk, chkLate>>
\* (the scan reads one status per step: a scan that began before the timer thread popped a branch can finish on stale reads and
\*  decide to suspend although that branch is being resumed - named "stale": needs a done-callback stalled for the whole wait)
H5 == /\ UNCHANGED <<tph, noCb>>
      /\ tphAtSusp' = (IF suspExc' # suspExc /\ suspExc' \in {"timed", "indef"}
                         THEN (IF \E j \in stale : wph[j] = "scan" /\ wph'[j] # "scan" THEN "stale" ELSE tph.ph)
                         ELSE tphAtSusp)
      /\ stale' = {j \in stale : wph'[j] = "scan"}
      /\ badSusp' = (badSusp \/ (/\ suspExc' # suspExc /\ suspExc' \in {"timed", "indef"}
                                 /\ ~(\E j \in stale : wph[j] = "scan" /\ wph'[j] # "scan")
                                 /\ ShouldComplete(Cardinality({i \in Br : bst'[i] = "COMPLETED"}),
                                                   Cardinality({i \in Br : bst'[i] = "FAILED"}))))
MainStep == (MainSubmit \/ MainWake \/ MainCancel \/ MainRaiseSuspend \/ MainBuild \/ MainParentMark \/ MainParentCkpt) /\ H3 /\ H4 /\ H5
WorkerStep(i) ==
  \/ (WorkerTake(i) /\ H3 /\ H4 /\ H5)
  \/ (BodyStep(i) /\ H3 /\ H5)
  \/ (CbWrite(i) /\ snap' = [snap EXCEPT ![i] = {j \in Br : j # i /\ wph[j] = "run"}] /\ UNCHANGED <<suspSnap, resub>> /\ H4 /\ H5)
  \/ (CbCount(i) /\ H3 /\ H4 /\ H5)
  \/ (CbSchedule(i) /\ H3 /\ H4 /\ H5)
  \/ (CbDecide(i) /\ H3 /\ H4 /\ H5)
  \/ (CbScan(i) /\ suspSnap' = (IF suspExc' # suspExc THEN snap[i] ELSE suspSnap) /\ UNCHANGED <<snap, resub>> /\ H4 /\ H5)
TimerPopStep(i) == /\ TimerPop(i) /\ resub' = resub \cup {i} /\ UNCHANGED <<snap, suspSnap, tphAtSusp>> /\ H4
                   /\ stale' = stale \cup {j \in Br : wph[j] = "scan"} /\ UNCHANGED badSusp
TimerThreadStep == (TimerPut \/ TimerRefreshed(TRUE) \/ TimerRefreshed(FALSE) \/ TimerAddCb \/ TimerInlineDone)
                   /\ H3 /\ H4 /\ UNCHANGED <<tphAtSusp, stale, badSusp>>
TimerStep(i) == TimerPopStep(i) \/ TimerThreadStep

Quiet == /\ ~ENABLED MainStep        \* returned, waiting for the completion event, or blocked on the scheduler lock in shutdown()
         /\ \A i \in Br : ~ENABLED WorkerStep(i)
         /\ \A i \in Br : ~ENABLED TimerStep(i)

Next == MainStep \/ (\E i \in Br : WorkerStep(i)) \/ (\E i \in Br : TimerStep(i)) \/ (Quiet /\ UNCHANGED vars)

NextC == Next /\ UNCHANGED cf
Spec == Init /\ [][NextC]_<<vars, cf>>
FairSpec == Spec /\ WF_vars(MainStep) /\ (\A i \in Br : WF_vars(WorkerStep(i))) /\ (\A i \in Br : WF_vars(TimerStep(i)))

---------------------------------------------------------------------------
\* Properties (C09, C10, executor halves of C06 / C07)

\* never more bodies at once than the concurrency limit
ConcurrencyBound == maxActive <= Workers

\* the call returns only when the policy is decided (or everybody is parked)
ReturnsOnlyWhenDecided ==
  (result = "returned" /\ N > 0) => ShouldComplete(succ, fail)

\* one item per input, in input order; reported finished branches carry their actual outcome; a branch that had finished
\* when the decision was taken is never reported as started
ItemsFaithful ==
  (result = "returned" /\ N > 0) =>
     /\ Len(items) = N
     /\ \A i \in Br : items[i] = "SUCCEEDED" => fout[i] = "ok"
     /\ \A i \in Br : items[i] = "FAILED" => (fout[i] = "fail" \/ (FixBteBranch /\ fout[i] = "bte"))

\* probe (stricter than the property): a branch whose body had finished when the decision was taken is reported finished.
\* It does NOT hold: between the end of a body and its done-callback the status is still RUNNING.
FinishedAtDecisionReported ==
  (result = "returned" /\ N > 0) => \A i \in Br : (outcomeAt # <<>> /\ outcomeAt[i] # "STARTED") => items[i] = outcomeAt[i]

\* named deviation: min_successful without any tolerance: one failure stops the executor (fail-fast in should_continue) but the
\* classifier, seeing a completion criterion, only looks at tolerances -> ALL_COMPLETED although branches are still STARTED
KnownReason == MinSucc # 0 /\ TolCount = NoneC /\ TolPct = NoneP /\ Count(items, "FAILED") > 0

\* the reported reason is consistent with the items and the policy
ReasonConsistent ==
  (result = "returned" /\ N > 0) =>
     /\ (reason = "ALL_COMPLETED" => (Count(items, "STARTED") = 0 \/ KnownReason))
     /\ (reason = "MIN_SUCCESSFUL_REACHED" => (MinSucc # 0 /\ Count(items, "SUCCEEDED") >= MinSucc))
     /\ (reason = "FAILURE_TOLERANCE_EXCEEDED" => Count(items, "FAILED") > 0)

\* ALL_COMPLETED with STARTED items (min_successful given, a failure stops the executor fail-fast): named deviation
AllCompletedWithStarted == result = "returned" /\ N > 0 /\ reason = "ALL_COMPLETED" /\ Count(items, "STARTED") > 0
ReasonConsistentStrict ==
  (result = "returned" /\ N > 0) =>
     /\ (reason = "ALL_COMPLETED" => Count(items, "STARTED") = 0)
     /\ (reason = "MIN_SUCCESSFUL_REACHED" => (MinSucc # 0 /\ Count(items, "SUCCEEDED") >= MinSucc))
     /\ (reason = "FAILURE_TOLERANCE_EXCEEDED" => Count(items, "FAILED") > 0)

\* C10: nothing is recorded under the context, and no user function is entered, after its completion record was handed over.
\* Named deviation (not repaired): "check-then-put" - the orphan check and the enqueue are not atomic, so an update of an
\* already known operation can slip behind the parent's completion record (tag "update-race").
NoDescendantAfterParentDone ==
  \A x \in late : \/ x[2] \in {"update-race", "fn-race"}
                    \/ (~FixOrphanParent /\ "orphan-first-time-op" \in known)
NoDescendantAfterParentDoneStrict == late = {}
\* no user function of an operation first started after the completion record ever runs (holds on the repaired code)
NoFunctionAfterParentDone == FixOrphanParent => \A x \in late : x[2] # "fn"      \* (only through the check-then-put race: "fn-race")
NoKnownOpAfterParentDone == \A x \in late : x[2] \notin {"update"} \/ "orphan-first-time-op" \in known

\* C09: the call does not suspend when the recorded branch outcomes already decide the policy (it returns instead)
StatusCount(st) == Cardinality({i \in Br : bst[i] = st})
\* (judged at the moment the suspension is DECIDED; progress made by a resubmitted branch between the decision and the raise, and a
\*  decision taken by a stale scan, are outside: see `resub`, `stale`)
NoSuspendWhenDecided == ~badSusp

\* C07: a suspend is raised only when nobody is PENDING/RUNNING
\* (a branch resubmitted by the timer thread after the deciding branch finished is outside the property's scope; see DESIGN)
SuspendSound == result = "suspended" => \A j \in suspSnap : wph[j] # "run" \/ j \in resub
SuspendNobodyRunning == result = "suspended" => \A i \in Br : wph[i] # "run"
\* ... and never while the timer thread is in the middle of resuming a branch whose timer has expired: that branch is neither
\* parked on anything registered with the backend nor running yet (holds because the branch is PENDING during the refresh)
\* ("inline": the timer thread is running the done-callback of a resubmitted branch that has already parked again - nobody is being resumed)
SuspendNotWhileResuming == tphAtSusp \in {"none", "idle", "stale", "inline"}
SuspendNotWhileResumingStrict == tphAtSusp \in {"none", "idle", "inline"}

\* C06/C07/C09: the main thread never waits forever (safety form: when nothing can move any more it has returned)
NoHang == Quiet => (mpc = "Returned" \/ "bte-in-branch" \in known \/ "empty-input" \in known)
NoHangStrict == Quiet => mpc = "Returned"
EventuallyReturns == <>(mpc = "Returned" \/ "bte-in-branch" \in known \/ "empty-input" \in known)

=============================================================================
