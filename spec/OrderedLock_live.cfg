SPECIFICATION FairSpec
CONSTANTS
  Threads = {t1, t2}
  Rounds = 2
  NoCall = NoCall
  None = None
INVARIANT MutualExclusion
PROPERTY Termination
