SPECIFICATION FairSpec
CONSTANTS
  Threads = {t1, t2}
  Rounds = 2
  NoCall = NoCall
  None = None
  RX = RX
  ResetDropsStale = FALSE
  MaxResets = 0
INVARIANT MutualExclusion
PROPERTY Termination
