\* C15 thorough: depth 2, width 2, five leaf kinds incl. a tag-text string
SPECIFICATION Spec
CONSTANTS
  D = 2
  Leaves = {"none", "int", "tagstr", "bool", "date"}
  Keys = {"a", "t", "v"}
  MaxW = 2
  MaxK = 2
  MaxB = 1
  ErrKinds = {"full"}
  FixKeys = TRUE
INVARIANT DumpInv
INVARIANT InvRoundTripOrKnown
INVARIANT InvNoSilentOrKnown
INVARIANT InvLookAlikeSafe
INVARIANT InvRejectExact
INVARIANT InvNoDecodeError
INVARIANT InvPlainIffPrimitive
INVARIANT InvEveryNestedWrapped
INVARIANT InvKnownIsReal
INVARIANT InvKnownOnlyKeys
