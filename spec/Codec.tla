------------------------------- MODULE Codec -------------------------------
(***************************************************************************)
(* C15 - default serialization round trip.                                 *)
(*                                                                         *)
(* A transcription of the DISPATCH STRUCTURE of                            *)
(*   serdes.py: ExtendedTypeSerDes.serialize/deserialize, SerDes.is_primitive,*)
(*              TypeCodec.encode/decode, ContainerCodec.encode/decode,     *)
(*              ContainerCodec._wrap/_unwrap, PrimitiveCodec, leaf codecs  *)
(*   concurrency/models.py: BatchResult/BatchItem to_dict/from_dict        *)
(*   lambda_service.py: ErrorObject.to_dict/from_dict                      *)
(* over an abstract value grammar.  Leaves are KINDS, not bit patterns:    *)
(* what json/repr/isoformat/base64 do to the bits of a leaf is outside the *)
(* model (binding G samples it with boundary pools in checks/c15.py).      *)
(*                                                                         *)
(* Python values (abstract):                                               *)
(*   [k |-> "none"|"bool"|"int"|"float"|"bytes"|"uuid"|"decimal"|          *)
(*          "datetime"|"date"|"unsupported"]         leaves                *)
(*   [k |-> "str", s |-> content]     str ("u" = user text, "l" = a tag text)*)
(*   [k |-> "list"|"tuple", c |-> <<children>>]                            *)
(*   [k |-> "dict", e |-> << [key |-> K, val |-> V], ... >>]  insertion order*)
(*        K is a string key ("1","a","t","v") or a NON-string key kind     *)
(*        "#int" "#bool" "#none" "#float" "#tuple" "#bytes"                *)
(*   [k |-> "batch", c |-> << [st |-> status, r |-> V, err |-> "none"|"full"|"empty"] >>,*)
(*                   cr |-> completion reason]                             *)
(* Wire values (JSON text, as the token tree json.dumps writes):           *)
(*   [j |-> "null"|"bool"|"int"|"float"], [j |-> "str", s |-> content],    *)
(*   [j |-> "arr", c |-> <<..>>], [j |-> "obj", e |-> <<[key, val],..>>]   *)
(*   (an object in the TEXT may carry duplicate keys; Parse = json.loads   *)
(*    keeps the first position and the last value).                        *)
(***************************************************************************)
EXTENDS Naturals, Sequences, FiniteSets, TLC, Json

CONSTANTS
  D,         \* nesting depth bound
  Leaves,    \* leaf kinds enumerated
  Keys,      \* dict keys enumerated (subset of the elements of KeyOrder)
  MaxW,      \* max elements of a list / tuple
  MaxK,      \* max entries of a dict
  MaxB,      \* max items of a batch result
  ErrKinds,  \* error shapes of a FAILED batch item: subset of {"full", "empty"}
  FixKeys    \* TRUE  = ContainerCodec.encode as repaired (caa84cb): a dict with ANY non-string key raises SerDesError
             \* FALSE = pinned original: int/bool/None/float keys pass and json.dumps writes their text (silent coercion)
             \* (the value used by the check comes from spec/variant.json "CodecFixKeys")

VARIABLES
  v,   \* the value under test (one TLC state per value of the grammar)
  enc, \* Encode(v): the serialized text (token tree) or RejectW            - a function of v
  res  \* Result(v): RejectW, or Decode(enc): the value read back, or ErrV  - a function of v

-----------------------------------------------------------------------------
(* Value grammar *)

PrimLeaf == {"none", "bool", "int", "float", "str"}
ExtLeaf  == {"bytes", "uuid", "decimal", "datetime", "date"}
AllLeaf  == PrimLeaf \cup ExtLeaf \cup {"unsupported"}

StrV(s) == [k |-> "str", s |-> s]
NoneV   == [k |-> "none"]
IntV    == [k |-> "int"]
\* leaf kind "tagstr" = a user string whose text is itself a type tag ("l"): makes user dicts such as
\* {"t": "l", "v": [..]} full envelope look-alikes
LeafV(kind) == IF kind = "str" THEN StrV("u") ELSE IF kind = "tagstr" THEN StrV("l") ELSE [k |-> kind]

KeyOrder == <<"1", "a", "t", "v", "#int", "#bool", "#none", "#float", "#tuple", "#bytes">>
StrKeys    == {"1", "a", "t", "v"}
CoercedKeys == {"#int", "#bool", "#none", "#float"}     \* json.dumps would write their text form
NonStrKeys  == CoercedKeys \cup {"#tuple", "#bytes"}
Pos(key) == CHOOSE i \in 1..Len(KeyOrder) : KeyOrder[i] = key

SeqsUpTo(S, n) == UNION {[1..m -> S] : m \in 0..n}

KeySeqs == {ks \in SeqsUpTo(Keys, MaxK) : \A i \in 1..Len(ks) : \A j \in 1..Len(ks) : i < j => Pos(ks[i]) < Pos(ks[j])}

Lists(S)  == {[k |-> "list", c |-> s] : s \in SeqsUpTo(S, MaxW)}
Tuples(S) == {[k |-> "tuple", c |-> s] : s \in SeqsUpTo(S, MaxW)}
Dicts(S)  == UNION {{[k |-> "dict", e |-> [i \in 1..Len(ks) |-> [key |-> ks[i], val |-> vs[i]]]]
                      : vs \in [1..Len(ks) -> S]} : ks \in KeySeqs}
Items(S)  == {[st |-> "SUCCEEDED", r |-> x, err |-> "none"] : x \in S}
             \cup {[st |-> "FAILED", r |-> NoneV, err |-> e] : e \in ErrKinds}
             \cup {[st |-> "STARTED", r |-> NoneV, err |-> "none"]}
Batches(S) == {[k |-> "batch", c |-> s, cr |-> "ALL_COMPLETED"] : s \in SeqsUpTo(Items(S), MaxB)}

RECURSIVE Val(_)
Val(d) == IF d = 0 THEN {LeafV(kind) : kind \in Leaves}
          ELSE LET S == Val(d - 1) IN S \cup Lists(S) \cup Tuples(S) \cup Dicts(S) \cup Batches(S)

Children(x) == CASE x.k \in {"list", "tuple"} -> x.c
                 [] x.k = "dict"  -> [i \in 1..Len(x.e) |-> x.e[i].val]
                 [] x.k = "batch" -> [i \in 1..Len(x.c) |-> x.c[i].r]
                 [] OTHER -> <<>>

DictKeys(x) == {x.e[i].key : i \in 1..Len(x.e)}

-----------------------------------------------------------------------------
(* Wire (JSON) values *)

JNull  == [j |-> "null"]
JBool  == [j |-> "bool"]
JInt   == [j |-> "int"]
JFloat == [j |-> "float"]
JStr(s) == [j |-> "str", s |-> s]
JArr(c) == [j |-> "arr", c |-> c]
JObj(e) == [j |-> "obj", e |-> e]
RejectW == [j |-> "REJECT"]          \* serialize raised
ErrV    == [k |-> "ERROR"]           \* deserialize raised

Tags == {"n", "s", "i", "f", "b", "B", "u", "d", "dt", "D", "t", "l", "m", "br"}     \* TypeTag
Statuses == {"SUCCEEDED", "FAILED", "STARTED"}
Reasons  == {"ALL_COMPLETED", "MIN_SUCCESSFUL_REACHED", "FAILURE_TOLERANCE_EXCEEDED"}

Envelope(tag, payload) == JObj(<<[key |-> "t", val |-> JStr(tag)], [key |-> "v", val |-> payload]>>)

\* what json.dumps writes for a dict key (str keys unchanged; int/bool/None/float keys are
\* written as their JSON text: this is the silent coercion; "1" is the text of the int key)
JsonKey(key) == CASE key = "#int"   -> "1"
                  [] key = "#bool"  -> "true"
                  [] key = "#none"  -> "null"
                  [] key = "#float" -> "1.5"
                  [] OTHER -> key

-----------------------------------------------------------------------------
(* SerDes.is_primitive *)
RECURSIVE IsPrimitive(_)
IsPrimitive(x) == \/ x.k \in PrimLeaf
                  \/ x.k = "list" /\ \A i \in 1..Len(x.c) : IsPrimitive(x.c[i])

(* fast path of serialize: json.dumps(value) *)
RECURSIVE Plain(_)
Plain(x) == CASE x.k = "none"  -> JNull
              [] x.k = "bool"  -> JBool
              [] x.k = "int"   -> JInt
              [] x.k = "float" -> JFloat
              [] x.k = "str"   -> JStr(x.s)
              [] x.k = "list"  -> JArr([i \in 1..Len(x.c) |-> Plain(x.c[i])])

(* BatchResult.to_dict / BatchItem.to_dict / ErrorObject.to_dict as Python values *)
DictV(keys, vals) == [k |-> "dict", e |-> [i \in 1..Len(keys) |-> [key |-> keys[i], val |-> vals[i]]]]
ErrToDict(err) == CASE err = "none"  -> NoneV                  \* "... if self.error else None"
                    [] err = "empty" -> DictV(<<>>, <<>>)      \* every field None: to_dict() = {}
                    [] OTHER -> DictV(<<"ErrorMessage", "ErrorType">>, <<StrV("u"), StrV("u")>>)
ItemToDict(it) == DictV(<<"index", "status", "result", "error">>, <<IntV, StrV(it.st), it.r, ErrToDict(it.err)>>)
BatchToDict(b) == DictV(<<"all", "completionReason">>,
                        <<[k |-> "list", c |-> [i \in 1..Len(b.c) |-> ItemToDict(b.c[i])]], StrV(b.cr)>>)

(* TypeCodec.encode + ContainerCodec.encode + _to_json_serializable + json.dumps *)
HasReject(ws) == \E i \in 1..Len(ws) : ws[i] = RejectW
PayloadOf(w) == w.e[2].val

RECURSIVE Enc(_)
Enc(x) ==
  CASE x.k = "none"     -> Envelope("n", JNull)
    [] x.k = "str"      -> Envelope("s", JStr(x.s))
    [] x.k = "bool"     -> Envelope("b", JBool)
    [] x.k = "int"      -> Envelope("i", JInt)
    [] x.k = "float"    -> Envelope("f", JFloat)
    [] x.k = "bytes"    -> Envelope("B", JStr("<b64>"))
    [] x.k = "uuid"     -> Envelope("u", JStr("<uuid>"))
    [] x.k = "decimal"  -> Envelope("d", JStr("<dec>"))
    [] x.k = "datetime" -> Envelope("dt", JStr("<isodt>"))
    [] x.k = "date"     -> Envelope("D", JStr("<isod>"))
    [] x.k = "list"     -> LET cs == [i \in 1..Len(x.c) |-> Enc(x.c[i])]
                           IN IF HasReject(cs) THEN RejectW ELSE Envelope("l", JArr(cs))
    [] x.k = "tuple"    -> LET cs == [i \in 1..Len(x.c) |-> Enc(x.c[i])]
                           IN IF HasReject(cs) THEN RejectW ELSE Envelope("t", JArr(cs))
    [] x.k = "dict"     ->
         IF "#tuple" \in DictKeys(x) THEN RejectW                     \* SerDesError("Tuple keys not supported")
         ELSE IF FixKeys /\ DictKeys(x) \cap NonStrKeys # {} THEN RejectW   \* SerDesError("Only string keys are supported")
         ELSE LET cs == [i \in 1..Len(x.e) |-> Enc(x.e[i].val)]
              IN IF HasReject(cs) THEN RejectW
                 ELSE IF "#bytes" \in DictKeys(x) THEN RejectW        \* json.dumps: TypeError (keys must be str, int, ...)
                 ELSE Envelope("m", JObj([i \in 1..Len(x.e) |-> [key |-> JsonKey(x.e[i].key), val |-> cs[i]]]))
    [] x.k = "batch"    -> LET w == Enc(BatchToDict(x))
                           IN IF w = RejectW THEN RejectW ELSE Envelope("br", PayloadOf(w))
    [] OTHER            -> RejectW                                    \* SerDesError("Unsupported type")

(* ExtendedTypeSerDes.serialize *)
Encode(x) == IF IsPrimitive(x) THEN Plain(x) ELSE Enc(x)

-----------------------------------------------------------------------------
(* json.loads: duplicate keys keep the first position and the last value *)
Dedupe(e) ==
  LET n == Len(e)
      keep == {i \in 1..n : \A h \in 1..(i - 1) : e[h].key # e[i].key}
      last(i) == CHOOSE h \in 1..n : e[h].key = e[i].key /\ \A l \in (h + 1)..n : e[l].key # e[i].key
      nth(m) == CHOOSE i \in keep : Cardinality({h \in keep : h < i}) = m - 1
  IN [m \in 1..Cardinality(keep) |-> [key |-> e[nth(m)].key, val |-> e[last(nth(m))].val]]

RECURSIVE Parse(_)
Parse(w) == CASE w.j = "arr" -> JArr([i \in 1..Len(w.c) |-> Parse(w.c[i])])
              [] w.j = "obj" -> LET d == Dedupe(w.e) IN JObj([i \in 1..Len(d) |-> [key |-> d[i].key, val |-> Parse(d[i].val)]])
              [] OTHER -> w

HasKeyW(w, key) == \E i \in 1..Len(w.e) : w.e[i].key = key
GetW(w, key) == w.e[CHOOSE i \in 1..Len(w.e) : w.e[i].key = key].val
IsEnvW(w) == w.j = "obj" /\ HasKeyW(w, "t") /\ HasKeyW(w, "v")      \* TYPE_TOKEN in obj and VALUE_TOKEN in obj

RECURSIVE IsPrimW(_)
IsPrimW(w) == \/ w.j \in {"null", "bool", "int", "float", "str"}
              \/ w.j = "arr" /\ \A i \in 1..Len(w.c) : IsPrimW(w.c[i])

(* a parsed JSON value as the Python object json.loads returns *)
RECURSIVE Raw(_)
Raw(w) == CASE w.j = "null"  -> NoneV
            [] w.j = "bool"  -> [k |-> "bool"]
            [] w.j = "int"   -> [k |-> "int"]
            [] w.j = "float" -> [k |-> "float"]
            [] w.j = "str"   -> StrV(w.s)
            [] w.j = "arr"   -> [k |-> "list", c |-> [i \in 1..Len(w.c) |-> Raw(w.c[i])]]
            [] w.j = "obj"   -> [k |-> "dict", e |-> [i \in 1..Len(w.e) |-> [key |-> w.e[i].key, val |-> Raw(w.e[i].val)]]]

HasErr(xs) == \E i \in 1..Len(xs) : xs[i] = ErrV
HasK(x, key) == \E i \in 1..Len(x.e) : x.e[i].key = key
Get(x, key) == x.e[CHOOSE i \in 1..Len(x.e) : x.e[i].key = key].val

\* Python truthiness as far as the kinds decide it (leaf bits are not modelled: non-None leaves count as true)
Truthy(x) == CASE x.k = "none" -> FALSE
               [] x.k = "dict" -> Len(x.e) > 0
               [] x.k \in {"list", "tuple"} -> Len(x.c) > 0
               [] OTHER -> TRUE

(* BatchItem.from_dict / BatchResult.from_dict on the decoded dict *)
ItemFromDict(x) ==
  IF x.k # "dict" \/ ~HasK(x, "index") \/ ~HasK(x, "status") THEN ErrV
  ELSE LET st == Get(x, "status") IN
       IF st.k # "str" THEN ErrV
       ELSE IF st.s \notin Statuses THEN ErrV
       ELSE [st  |-> st.s,
             r   |-> IF HasK(x, "result") THEN Get(x, "result") ELSE NoneV,
             err |-> IF HasK(x, "error") /\ Truthy(Get(x, "error"))            \* "... if data.get('error') else None"
                     THEN (IF Get(x, "error").k = "dict" THEN "full" ELSE "bad") ELSE "none"]

BatchFromDict(d) ==
  IF ~HasK(d, "all") THEN ErrV
  ELSE LET a == Get(d, "all") IN
       IF a.k \notin {"list", "tuple"} THEN ErrV
       ELSE LET items == [i \in 1..Len(a.c) |-> ItemFromDict(a.c[i])] IN
            IF HasErr(items) THEN ErrV
            ELSE IF ~HasK(d, "completionReason") THEN [k |-> "batch", c |-> items, cr |-> "INFERRED"]
            ELSE LET r == Get(d, "completionReason") IN
                 IF r.k = "none" THEN [k |-> "batch", c |-> items, cr |-> "INFERRED"]
                 ELSE IF r.k # "str" THEN ErrV
                 ELSE IF r.s \notin Reasons THEN ErrV
                 ELSE [k |-> "batch", c |-> items, cr |-> r.s]

(* TypeCodec.decode / ContainerCodec.decode / ContainerCodec._unwrap.                     *)
(* A payload whose JSON type is not the one the tag's codec writes is modelled as an error *)
(* (the code would coerce or raise depending on bits); NoDecodeError shows this is never   *)
(* reached from the serializer's own output.                                               *)
RECURSIVE DecTag(_, _), Unwrap(_)
Unwrap(w) ==
  IF IsEnvW(w)
  THEN LET t == GetW(w, "t") IN
       IF t.j # "str" THEN ErrV
       ELSE IF t.s \notin Tags THEN ErrV                   \* TypeTag(obj["t"]) raises ValueError
       ELSE DecTag(t.s, GetW(w, "v"))
  ELSE Raw(w)                                              \* "case _: return obj"

DecTag(tag, p) ==
  CASE tag = "n"  -> NoneV
    [] tag = "s"  -> IF p.j = "str" THEN StrV(p.s) ELSE ErrV
    [] tag = "b"  -> IF p.j = "bool" THEN [k |-> "bool"] ELSE ErrV
    [] tag = "i"  -> IF p.j = "int" THEN [k |-> "int"] ELSE ErrV
    [] tag = "f"  -> IF p.j = "float" THEN [k |-> "float"] ELSE ErrV
    [] tag = "B"  -> IF p = JStr("<b64>") THEN [k |-> "bytes"] ELSE ErrV
    [] tag = "u"  -> IF p = JStr("<uuid>") THEN [k |-> "uuid"] ELSE ErrV
    [] tag = "d"  -> IF p = JStr("<dec>") THEN [k |-> "decimal"] ELSE ErrV
    [] tag = "dt" -> IF p = JStr("<isodt>") THEN [k |-> "datetime"] ELSE ErrV
    [] tag = "D"  -> IF p = JStr("<isod>") THEN [k |-> "date"] ELSE ErrV
    [] tag = "l"  -> IF p.j # "arr" THEN ErrV
                     ELSE LET cs == [i \in 1..Len(p.c) |-> Unwrap(p.c[i])]
                          IN IF HasErr(cs) THEN ErrV ELSE [k |-> "list", c |-> cs]
    [] tag = "t"  -> IF p.j # "arr" THEN ErrV
                     ELSE LET cs == [i \in 1..Len(p.c) |-> Unwrap(p.c[i])]
                          IN IF HasErr(cs) THEN ErrV ELSE [k |-> "tuple", c |-> cs]
    [] tag = "m"  -> IF p.j # "obj" THEN ErrV
                     ELSE LET cs == [i \in 1..Len(p.e) |-> Unwrap(p.e[i].val)]
                          IN IF HasErr(cs) THEN ErrV
                             ELSE [k |-> "dict", e |-> [i \in 1..Len(p.e) |-> [key |-> p.e[i].key, val |-> cs[i]]]]
    [] tag = "br" -> LET d == DecTag("m", p) IN IF d = ErrV THEN ErrV ELSE BatchFromDict(d)

(* ExtendedTypeSerDes.deserialize *)
Decode(text) ==
  LET w == Parse(text) IN
  IF IsPrimW(w) THEN Raw(w)
  ELSE IF ~IsEnvW(w) THEN ErrV                               \* Malformed envelope
  ELSE LET t == GetW(w, "t") IN
       IF t.j # "str" THEN ErrV
       ELSE IF t.s \notin Tags THEN ErrV                     \* Unknown type tag
       ELSE DecTag(t.s, GetW(w, "v"))

-----------------------------------------------------------------------------
(* Specification-level predicates (what the property says, independent of Encode) *)

\* values the serializer is allowed (and expected) to refuse: unsupported leaf, tuple key,
\* key of a type json cannot write - anywhere inside; with the repair every non-string key
RejectedKeys == IF FixKeys THEN NonStrKeys ELSE {"#tuple", "#bytes"}
RECURSIVE Rejects(_)
Rejects(x) == \/ x.k = "unsupported"
              \/ x.k = "dict" /\ DictKeys(x) \cap RejectedKeys # {}
              \/ LET ch == Children(x) IN \E i \in 1..Len(ch) : Rejects(ch[i])

\* KNOWN DEFECT escape of the PINNED ORIGINAL only: a dict with an int/bool/None/float key anywhere inside.
\* With FixKeys = TRUE it is FALSE for every value: all invariants hold without any escape.
RECURSIVE HasCoercedKey(_)
HasCoercedKey(x) == \/ x.k = "dict" /\ DictKeys(x) \cap CoercedKeys # {}
                    \/ LET ch == Children(x) IN \E i \in 1..Len(ch) : HasCoercedKey(ch[i])
KnownNonStrKey(x) == ~FixKeys /\ HasCoercedKey(x)

\* what the known defect does and nothing else: every coercible key replaced by its JSON text, a key that
\* collides keeps the first position and the last value (spec-level; uses only JsonKey and Dedupe)
RECURSIVE CoercedForm(_)
CoercedForm(x) ==
  CASE x.k \in {"list", "tuple"} -> [k |-> x.k, c |-> [i \in 1..Len(x.c) |-> CoercedForm(x.c[i])]]
    [] x.k = "dict"  -> [k |-> "dict", e |-> Dedupe([i \in 1..Len(x.e) |-> [key |-> JsonKey(x.e[i].key), val |-> CoercedForm(x.e[i].val)]])]
    [] x.k = "batch" -> [k |-> "batch", cr |-> x.cr,
                         c |-> [i \in 1..Len(x.c) |-> [st |-> x.c[i].st, r |-> CoercedForm(x.c[i].r), err |-> x.c[i].err]]]
    [] OTHER -> x

IsLookAlike(x) == x.k = "dict" /\ {"t", "v"} \subseteq DictKeys(x)
RECURSIVE ContainsLookAlike(_)
ContainsLookAlike(x) == \/ IsLookAlike(x)
                        \/ LET ch == Children(x) IN \E i \in 1..Len(ch) : ContainsLookAlike(ch[i])

Result(x) == LET e == Encode(x) IN IF e = RejectW THEN RejectW ELSE Decode(e)

\* The properties, as operators over a value x, its text e = Encode(x) and the outcome o = Result(x)
RoundTrip(x, o) == Rejects(x) \/ o = x
\* the serializer refuses exactly what it is expected to refuse
RejectExact(x, e) == Rejects(x) <=> (e = RejectW)
\* outcome is the equal value, or an error at serialize or deserialize; never a different value
NoSilentAlteration(x, o) == o \in {x, RejectW, ErrV}
\* user data shaped like the envelope comes back unchanged
LookAlikeSafe(x, o) == (ContainsLookAlike(x) /\ ~Rejects(x)) => o = x
\* the serializer's own output always decodes
NoDecodeError(o) == o # ErrV
\* fast path <=> no envelope at the root of the text
PlainIffPrimitive(x, e) == e # RejectW => (IsPrimitive(x) <=> ~IsEnvW(e))

\* "every nested value is individually wrapped": below an envelope root, every array element and
\* every object member of a container payload is itself an envelope, so _unwrap never returns raw JSON
RECURSIVE WrappedPayload(_, _)
WrappedEnv(e) == IsEnvW(e) /\ GetW(e, "t").j = "str" /\ GetW(e, "t").s \in Tags
                 /\ WrappedPayload(GetW(e, "t").s, GetW(e, "v"))
WrappedPayload(tag, p) ==
  CASE tag \in {"l", "t"}  -> p.j = "arr" /\ \A i \in 1..Len(p.c) : WrappedEnv(p.c[i])
    [] tag \in {"m", "br"} -> p.j = "obj" /\ \A i \in 1..Len(p.e) : WrappedEnv(p.e[i].val)
    [] OTHER -> p.j \in {"null", "bool", "int", "float", "str"}
EveryNestedWrapped(x, e) == (e # RejectW /\ ~IsPrimitive(x)) => WrappedEnv(e)

\* quantified forms over the domain of depth d (what TLC checks state by state below, with d = D;
\* they take a parameter so that TLC does not pre-evaluate them as constants)
RoundTripAll(d)          == \A x \in Val(d) : RoundTrip(x, Result(x)) \/ KnownNonStrKey(x)
LookAlikeSafeAll(d)      == \A x \in Val(d) : LookAlikeSafe(x, Result(x)) \/ KnownNonStrKey(x)
NoSilentAlterationAll(d) == \A x \in Val(d) : NoSilentAlteration(x, Result(x)) \/ KnownNonStrKey(x)

-----------------------------------------------------------------------------
(* TLC: one state per value.  InitV enumerates exactly Val(D) = Val(D-1) \cup containers over    *)
(* Val(D-1), written with \E so that TLC streams the states instead of building and sorting the *)
(* whole set (checks/c15.py compares the state count with the closed formula for |Val(D)|).     *)
\* constant-level, so TLC evaluates them once
SD1     == IF D = 0 THEN {} ELSE Val(D - 1)
ItemsD1 == Items(SD1)
InitV ==
  IF D = 0 THEN v \in Val(0)
  ELSE \/ v \in SD1
       \/ \E m \in 0..MaxW : \E s \in [1..m -> SD1] : v = [k |-> "list", c |-> s]
       \/ \E m \in 0..MaxW : \E s \in [1..m -> SD1] : v = [k |-> "tuple", c |-> s]
       \/ \E ks \in KeySeqs : \E vs \in [1..Len(ks) -> SD1] :
             v = [k |-> "dict", e |-> [i \in 1..Len(ks) |-> [key |-> ks[i], val |-> vs[i]]]]
       \/ \E m \in 0..MaxB : \E s \in [1..m -> ItemsD1] : v = [k |-> "batch", c |-> s, cr |-> "ALL_COMPLETED"]

Init == /\ InitV
        /\ enc = Encode(v)
        /\ res = IF enc = RejectW THEN RejectW ELSE Decode(enc)
\* no transitions: every state is an initial state (run TLC with -deadlock, i.e. deadlock checking off)
Next == FALSE /\ UNCHANGED <<v, enc, res>>
Spec == Init /\ [][Next]_<<v, enc, res>>

\* invariants used by the check (RoundTrip with the known-defect escape; the structural ones without)
InvRoundTripOrKnown      == RoundTrip(v, res) \/ KnownNonStrKey(v)
InvNoSilentOrKnown       == NoSilentAlteration(v, res) \/ KnownNonStrKey(v)
InvLookAlikeSafe         == LookAlikeSafe(v, res) \/ KnownNonStrKey(v)
InvRejectExact           == RejectExact(v, enc)
InvNoDecodeError         == NoDecodeError(res)
InvPlainIffPrimitive     == PlainIffPrimitive(v, enc)
InvEveryNestedWrapped    == EveryNestedWrapped(v, enc)
\* the escape is exact: every value with a coerced key that is not rejected IS altered
InvKnownIsReal           == (KnownNonStrKey(v) /\ ~Rejects(v)) => res # v

\* the escape hides nothing else: a value with coerced keys differs from its round trip by the coercion only
InvKnownOnlyKeys         == (KnownNonStrKey(v) /\ ~Rejects(v)) => res = CoercedForm(v)

\* probe (Codec_probe.cfg): without the escape the known scenario must be reachable
InvRoundTripNoEscape     == RoundTrip(v, res)
\* Codec_err.cfg: the batch item whose ErrorObject has every field None
InvEmptyErrorRoundTrip   == RoundTrip(v, res) \/ KnownNonStrKey(v)

\* test vectors for binding G: one JSON line per state
Vector == [shape |-> v,
           path |-> IF enc = RejectW THEN "reject" ELSE IF IsPrimitive(v) THEN "plain" ELSE "envelope",
           rt |-> (res = v),
           known |-> KnownNonStrKey(v),
           look |-> ContainsLookAlike(v),
           dec |-> IF res = v THEN [same |-> TRUE] ELSE res]
DumpInv  == PrintT(ToJson(Vector))
DumpWireInv == PrintT(ToJson([vec |-> Vector, wire |-> enc]))
=============================================================================
