-------------------------- MODULE ExecutorTrace --------------------------
(***************************************************************************)
(* Trace validation for map/parallel: the first invocation in which a      *)
(* (single, top-level) map/parallel call of a program executes, recorded   *)
(* from the real ConcurrentExecutor (observed from outside: wrappers       *)
(* around execute / _execute_item_in_child_context / _on_task_complete /   *)
(* _create_result / reset_to_pending, the checkpoint queue's put and the   *)
(* construction of OrphanedChildException), must be a behaviour of         *)
(* Executor.tla for the same configuration.                                *)
(*                                                                         *)
(* Events: BodyStart i | Ckpt i,k,rej | BodyEnd i,out | EvSet susp (the     *)
(* completion event is set) | Resubmit i | Build items,reason | ExReturn how |      *)
(* ParentCkpt.  Silent: the main thread's submit / wake / cancel loops,    *)
(* body steps without a checkpoint, the inner steps of a done-callback.    *)
(***************************************************************************)
EXTENDS Executor, Json, IOUtils, TLCExt

Traces == JsonDeserialize(IOEnv.TRACE_FILE)
NT == Len(Traces)

VARIABLES tid, l
tvars == <<vars, cf, tid, l>>
Tr == Traces[tid].evs
Ev == Tr[l]

TraceInit ==
  /\ tid \in 1..NT /\ l = 1
  /\ cf = Traces[tid].cf
  /\ Init
  /\ TLCSet(tid, 1)

IsEv(name) == l <= Len(Tr) /\ Ev.ev = name
Consume == l' = l + 1 /\ UNCHANGED <<tid, cf>>
Silent == UNCHANGED <<tid, l, cf>>
NoOp == UNCHANGED vars

TBodyStart == IsEv("BodyStart") /\ WorkerTake(Ev.i) /\ H3 /\ H4 /\ H5 /\ Consume

\* an accepted update is observed when it is put on the checkpoint queue; a rejected one when OrphanedChildException is built
TCkpt == /\ IsEv("Ckpt")
         /\ LET i == Ev.i IN
            /\ wph[i] = "run" /\ BodyStep(i) /\ H3 /\ H5
            /\ IF Ev.rej
                 THEN i \notin chk /\ fout'[i] = "orphan"
                 ELSE /\ i \in chk /\ i \notin chk'
                      /\ CASE Ev.k = "ctxStart" -> sub[i] = "ctxStart"
                            [] Ev.k = "start" -> sub[i] = "start"
                            [] Ev.k = "succeed" -> sub[i] = "succeed"
                            [] Ev.k = "wstart" -> sub[i] = "wstart"
                            [] Ev.k = "retry" -> sub[i] = "retry"
                            [] Ev.k = "fail" -> sub[i] = "failrec"
                            [] Ev.k = "cin" -> sub[i] = "cmark" /\ Atom(i) = "cin"
                            [] Ev.k = "cout" -> sub[i] = "cmark" /\ Atom(i) = "cout"
                            [] Ev.k = "ctxEnd" -> sub[i] = "atom" /\ sub'[i] = "ctxWait"
                            [] OTHER -> FALSE
         /\ Consume

TBodyEnd == /\ IsEv("BodyEnd")
            /\ LET i == Ev.i IN
               IF Ev.out \in {"susp", "tsusp", "bte"}
                 THEN /\ wph[i] = "run" /\ i \notin chk /\ BodyStep(i) /\ H3 /\ H5 /\ fout'[i] = Ev.out
                      /\ Ev.out # "bte" => \/ (sub[i] = "park" /\ ParkOut(i) = Ev.out)
                                            \/ (Ev.out = "tsusp" /\ sub[i] = "atom" /\ BodyRepark(i))
                 ELSE IF Ev.out \in {"ok", "fail"}
                        THEN /\ wph[i] = "run" /\ i \notin chk /\ BodyStep(i) /\ H3 /\ H5 /\ fout'[i] = Ev.out
                             /\ (sub[i] = "ctxWait" \/ (sub[i] = "atom" /\ Atom(i) \in {"rok", "rfail"}))
                        ELSE fout[i] = Ev.out /\ wph[i] # "run" /\ NoOp
            /\ Consume

\* the completion event is set for the first time (inside a done-callback): the deciding step of some callback
CbSnapW(i) == snap' = [snap EXCEPT ![i] = {j \in Br : j # i /\ wph[j] = "run"}] /\ UNCHANGED <<suspSnap, resub>>
CbSnapS(i) == suspSnap' = (IF suspExc' # suspExc THEN snap[i] ELSE suspSnap) /\ UNCHANGED <<snap, resub>>
TEvSet == /\ IsEv("EvSet") /\ ~event
          /\ \/ \E i \in Br : \/ (CbWrite(i) /\ CbSnapW(i) /\ H4 /\ H5) \/ (CbDecide(i) /\ H3 /\ H4 /\ H5)
                              \/ (CbScan(i) /\ CbSnapS(i) /\ H4 /\ H5)
             \/ (TimerRefreshed(FALSE) /\ H3 /\ H4 /\ UNCHANGED <<tphAtSusp, stale, badSusp>>)      \* failed refresh checkpoint (fixed code)
          /\ event' /\ suspExc' = Ev.susp
          /\ Consume

\* reset_to_pending() of a due branch (code as it is: right after it was popped from the timer heap) ...
TResubmit == IsEv("Resubmit") /\ TimerPopStep(Ev.i) /\ Consume
\* ... then the timer thread enqueues the empty refresh checkpoint
TRefresh == IsEv("Refresh") /\ TimerPut /\ H3 /\ H4 /\ UNCHANGED <<tphAtSusp, stale, badSusp>> /\ Consume

TBuild == /\ IsEv("Build") /\ MainBuild /\ H3 /\ H4 /\ H5
          /\ Len(items') = Len(Ev.items) /\ (\A k \in 1..Len(Ev.items) : items'[k] = Ev.items[k]) /\ reason' = Ev.reason
          /\ Consume

TExReturn == /\ IsEv("ExReturn")
             /\ \/ (Ev.how = "returned" /\ mpc = "ParentCkpt" /\ NoOp)
                \/ (Ev.how = "suspended" /\ MainRaiseSuspend /\ H3 /\ H4 /\ H5)
                \/ (Ev.how = "raised" /\ mpc = "Returned" /\ result = "raised" /\ NoOp)
             /\ Consume

TParentCkpt == IsEv("ParentCkpt") /\ MainParentCkpt /\ H3 /\ H4 /\ H5 /\ Consume

SilentStep ==
  /\ l <= Len(Tr)
  /\ \/ ((MainSubmit \/ MainWake \/ MainCancel \/ MainParentMark) /\ H3 /\ H4 /\ H5)
     \* the refresh checkpoint of the timer thread returns (a failing one sets the completion event: observed as EvSet)
     \/ ((TimerAddCb \/ TimerInlineDone) /\ H3 /\ H4 /\ UNCHANGED <<tphAtSusp, stale, badSusp>>)
     \/ (TimerRefreshed(TRUE) /\ H3 /\ H4 /\ UNCHANGED <<tphAtSusp, stale, badSusp>>)
     \/ (TimerRefreshed(FALSE) /\ H3 /\ H4 /\ UNCHANGED <<tphAtSusp, stale, badSusp>> /\ event' = event)
     \/ \E i \in Br :
          \* body steps without an observable effect: the orphan check that passes, the function, atom selection
          \/ (wph[i] = "run" /\ BodyStep(i) /\ H3 /\ H5 /\ fout'[i] = fout[i] /\ (i \in chk' \/ i \notin chk)
              /\ ~(i \in chk /\ i \notin chk'))
          \* done-callback steps that do not set the completion event for the first time
          \/ (CbWrite(i) /\ CbSnapW(i) /\ H4 /\ H5 /\ event' = event)
          \/ (CbCount(i) /\ H3 /\ H4 /\ H5)
          \/ (CbSchedule(i) /\ H3 /\ H4 /\ H5)
          \/ (CbDecide(i) /\ H3 /\ H4 /\ H5 /\ event' = event)
          \/ (CbScan(i) /\ CbSnapS(i) /\ H4 /\ H5 /\ event' = event)
  /\ Silent

TraceDone == l = Len(Tr) + 1 /\ UNCHANGED tvars

TraceNext == TBodyStart \/ TCkpt \/ TBodyEnd \/ TEvSet \/ TResubmit \/ TRefresh \/ TBuild \/ TExReturn \/ TParentCkpt \/ SilentStep \/ TraceDone

TraceSpec == TraceInit /\ [][TraceNext]_tvars

Progress == TLCSet(tid, IF TLCGet(tid) < l THEN l ELSE TLCGet(tid))
\* once some path has consumed the whole trace, the remaining search for this trace is cut off (depth-first queue)
Prune == ~(TLCGet(tid) = Len(Tr) + 1 /\ l < Len(Tr) + 1)

Accepted ==
  LET badT == {i \in 1..NT : TLCGet(i) # Len(Traces[i].evs) + 1}
  IN  badT = {} \/ (PrintT(<<"REJECT", {<<i, TLCGet(i)>> : i \in badT}>>) /\ FALSE)

=============================================================================
