\* C15 quick+thorough: depth 2, width 2, 3 leaf kinds, full and partial look-alike keys
SPECIFICATION Spec
CONSTANTS
  D = 2
  Leaves = {"int", "bool", "date"}
  Keys = {"a", "t", "v"}
  MaxW = 2
  MaxK = 2
  MaxB = 1
  ErrKinds = {"full"}
  FixKeys = TRUE
INVARIANT DumpInv
INVARIANT InvRoundTripOrKnown
INVARIANT InvNoSilentOrKnown
INVARIANT InvLookAlikeSafe
INVARIANT InvRejectExact
INVARIANT InvNoDecodeError
INVARIANT InvPlainIffPrimitive
INVARIANT InvEveryNestedWrapped
INVARIANT InvKnownIsReal
INVARIANT InvKnownOnlyKeys
