SPECIFICATION GenSpec
CONSTANTS
  Producers = {"p1", "p2", "p3"}
  NItems = 2
  Sizes = {0, 400, 700, 1200}
  MaxOps = 3
  MaxBytes = 1000
  MayFail = TRUE
  FixedOrder = TRUE
  FixedOversize = TRUE
INVARIANT Emit
INVARIANT ReleaseSound
CHECK_DEADLOCK FALSE
