\* C15 quick+thorough: depth 2, rejection paths (unsupported leaf, tuple key, bytes key) next to a coerced key
SPECIFICATION Spec
CONSTANTS
  D = 2
  Leaves = {"int", "unsupported"}
  Keys = {"a", "#tuple", "#bytes", "#int"}
  MaxW = 1
  MaxK = 2
  MaxB = 1
  ErrKinds = {"full"}
  FixKeys = TRUE
INVARIANT DumpWireInv
INVARIANT InvRoundTripOrKnown
INVARIANT InvNoSilentOrKnown
INVARIANT InvLookAlikeSafe
INVARIANT InvRejectExact
INVARIANT InvNoDecodeError
INVARIANT InvPlainIffPrimitive
INVARIANT InvEveryNestedWrapped
INVARIANT InvKnownIsReal
INVARIANT InvKnownOnlyKeys
