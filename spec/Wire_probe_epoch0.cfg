\* C20 probe on the pinned ORIGINAL variant (Fixed = FALSE): the named deviation must be reachable, i.e. this invariant must be VIOLATED
CONSTANT Slices = {"op_head"}
CONSTANT Fixed = FALSE
INIT Init
NEXT Next
INVARIANT Probe_NoEpoch0Timestamp
