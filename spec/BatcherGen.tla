----------------------------- MODULE BatcherGen -----------------------------
(***************************************************************************)
(* Behaviour generator for the spec -> code direction of the binding of    *)
(* Batcher.tla (the counterpart of OrderedLockGen.tla).                    *)
(*                                                                         *)
(* Batcher!Next restricted to *code grain under a guided scheduler*:       *)
(*  - the unlogged consumer steps (loop heads, queue.Empty, window close,   *)
(*    non-synchronous elements of the release loops) are taken lazily: once*)
(*    the consumer has taken one, only the consumer steps until it logs an *)
(*    event or blocks on the empty main queue (`CBlock`);                  *)
(*  - the batching window closes only when the code's loop would close it: *)
(*    no arrival (main queue empty), batch full, or stop signalled;        *)
(*  - the service call is two steps (ApiCall issued / ApiRet), so that     *)
(*    producers can run while the call is in flight.                       *)
(* The labelled history of every complete behaviour is printed as JSON;    *)
(* checks/batcher_replay.py turns it into a plan (sizes, sync flags, the   *)
(* failing call) and forces the thread choices onto the real               *)
(* ExecutionState pipeline; every logged event must be the model's.        *)
(***************************************************************************)
EXTENDS Batcher, Json

VARIABLES hist, gmid, gcall, gexit

gvars == <<vars, hist, gmid, gcall, gexit>>

Rec(r) == hist' = Append(hist, r)
E(a) == [a |-> a, p |-> "", i |-> 0, size |-> 0, sync |-> FALSE, o |-> "", tok |-> 0, items |-> <<>>, seen |-> FALSE]

\* ---- producers ---------------------------------------------------------------
GProducer(p) ==
  \/ PCheck(p)   /\ Rec([E("PCheck") EXCEPT !.p = p, !.seen = failedFlag])
  \/ PPut(p)     /\ Rec([E("Put") EXCEPT !.p = p, !.i = nextId, !.size = size'[nextId], !.sync = sync'[nextId]])
  \/ PRecheck(p) /\ Rec([E("PRecheck") EXCEPT !.p = p, !.seen = failedFlag, !.i = pcur[p], !.sync = sync[pcur[p]]])
  \/ PWait(p)    /\ Rec([E("PWait") EXCEPT !.p = p, !.i = pcur[p], !.o = evState[pcur[p]]])

GStop == Stop /\ Rec(E("StopSet"))

\* ---- consumer ----------------------------------------------------------------
WinMayClose == mainQ = <<>> \/ Len(batch) >= MaxOps \/ stopped

GSilent ==
  /\ \/ CTop /\ Rec(E("~CTop"))
     \/ COvEnd /\ Rec(E("~COvEnd"))
     \/ (mainQ = <<>> /\ CFirstStopped /\ Rec(E("~CFirstStopped")))    \* a blocked get() returns an item that is there
     \/ (WinMayClose /\ CWinClose /\ Rec(E("~CWinClose")))
     \/ (cpc = "Rel" /\ (IF ci > Len(batch) THEN TRUE ELSE ~sync[batch[ci]]) /\ CRel /\ Rec(E("~CRel")))
     \/ (cpc = "FailBatch" /\ (IF ci > Len(batch) THEN TRUE ELSE ~sync[batch[ci]]) /\ CFailBatch /\ Rec(E("~CFailBatch")))
     \/ (cpc = "FailOv" /\ overflowQ = <<>> /\ CFailOv /\ Rec(E("~CFailOvEnd")))
     \/ (cpc = "FailMain" /\ mainQ = <<>> /\ CFailMain /\ Rec(E("~CFailMainEnd")))
  /\ gmid' = TRUE /\ UNCHANGED <<gcall, gexit>>

\* CApiOk immediately followed by CPageFail: in the code nothing separates the return of the call from the fetch of the next
\* page of its answer (no primitive operation in between), so the two are one step at code grain
ApiOkThenPageFail ==
  /\ cpc = "Call"
  /\ calls' = Append(calls, [tok |-> token, items |-> batch])
  /\ beTok' = beTok + 1 /\ token' = beTok + 1 /\ ci' = 1
  /\ apiFailed' = TRUE
  /\ cpc' = (IF FixedOrder THEN "SetFailedFirst" ELSE "FailBatch")
  /\ UNCHANGED <<mainQ, overflowQ, batch, total, failedFlag, evState, oversizeParked>> /\ CUnch

GLogged ==
  /\ \/ (COvGet /\ Rec([E("COvGet") EXCEPT !.i = Head(overflowQ)]) /\ UNCHANGED gcall)
     \/ (COvPutBack /\ Rec([E("COvPutBack") EXCEPT !.i = Head(overflowQ)]) /\ UNCHANGED gcall)
     \/ (CFirstGet /\ Rec([E("CFirstGet") EXCEPT !.i = Head(mainQ)]) /\ UNCHANGED gcall)
     \/ (CWinGet /\ Rec([E("CWinGet") EXCEPT !.i = Head(mainQ)]) /\ UNCHANGED gcall)
     \/ (CWinToOverflow /\ Rec([E("CWinToOverflow") EXCEPT !.i = Head(mainQ)]) /\ UNCHANGED gcall)
     \/ (cpc = "Call" /\ ~gcall /\ gcall' = TRUE /\ UNCHANGED vars /\ Rec([E("ApiCall") EXCEPT !.tok = token, !.items = batch]))
     \/ (gcall /\ CApiOk /\ gcall' = FALSE /\ Rec([E("ApiRet") EXCEPT !.o = "ok", !.i = Len(calls) + 1]))
     \/ (gcall /\ CApiFail /\ gcall' = FALSE /\ Rec([E("ApiRet") EXCEPT !.o = "fail", !.i = Len(calls) + 1]))
     \/ (gcall /\ MayFail /\ ~apiFailed /\ ApiOkThenPageFail /\ gcall' = FALSE /\ Rec([E("ApiRetPageFail") EXCEPT !.i = Len(calls) + 1]))
     \/ (cpc = "Rel" /\ ci <= Len(batch) /\ sync[batch[ci]] /\ CRel /\ Rec([E("CRelSet") EXCEPT !.i = batch[ci]]) /\ UNCHANGED gcall)
     \/ (CSetFailedFirst /\ Rec(E("FlagSet")) /\ UNCHANGED gcall)
     \/ (CSetFailed /\ Rec(E("FlagSet")) /\ UNCHANGED gcall)
     \/ (cpc = "FailBatch" /\ ci <= Len(batch) /\ sync[batch[ci]] /\ CFailBatch /\ Rec([E("CFailSet") EXCEPT !.i = batch[ci]]) /\ UNCHANGED gcall)
     \/ (cpc = "FailOv" /\ overflowQ # <<>> /\ CFailOv /\ Rec([E("CFailOv") EXCEPT !.i = Head(overflowQ), !.sync = sync[Head(overflowQ)]]) /\ UNCHANGED gcall)
     \/ (cpc = "FailMain" /\ mainQ # <<>> /\ CFailMain /\ Rec([E("CFailMain") EXCEPT !.i = Head(mainQ), !.sync = sync[Head(mainQ)]]) /\ UNCHANGED gcall)
  \* a get that fills the batch is followed by the service call without any primitive operation in between (the loop
  \* conditions short-circuit on the batch length): the consumer goes on to ApiCall
  /\ gmid' = (cpc' \in {"OvLoop", "Win"} /\ Len(batch') >= MaxOps)
  /\ UNCHANGED gexit

\* the consumer blocks on the empty main queue (it polls the stop signal every 100 ms): the group ends without an event
GBlock == /\ gmid /\ cpc = "First" /\ mainQ = <<>> /\ ~stopped
          /\ gmid' = FALSE /\ Rec(E("CBlock")) /\ UNCHANGED <<vars, gcall, gexit>>

GExit == /\ cpc = "Exited" /\ ~gexit
         /\ gexit' = TRUE /\ gmid' = FALSE /\ Rec(E("CExit")) /\ UNCHANGED <<vars, gcall>>

GConsumer == (~(cpc = "Call" /\ gcall) /\ GSilent) \/ GLogged \/ GBlock \/ GExit

GNext ==
  IF gmid THEN GConsumer
  ELSE \/ GConsumer
       \/ (\E p \in Producers : GProducer(p) /\ UNCHANGED <<gmid, gcall, gexit>>)
       \/ (GStop /\ UNCHANGED <<gmid, gcall, gexit>>)

GInit == Init /\ hist = <<>> /\ gmid = FALSE /\ gcall = FALSE /\ gexit = FALSE

GenSpec == GInit /\ [][GNext]_gvars

Complete == gexit /\ AllProducersDone /\ stopped

Emit ==
  Complete =>
    PrintT(<<"BEHAVIOUR", ToJson([hist |-> hist, outcome |-> [i \in 1..(nextId - 1) |-> outcome[i]], n |-> nextId - 1])>>)
=============================================================================
