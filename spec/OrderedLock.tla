--------------------------- MODULE OrderedLock ---------------------------
(***************************************************************************)
(* Model of aws_durable_execution_sdk_python/threading.py:                 *)
(*   OrderedLock (acquire / release / __exit__ with exception) and         *)
(*   OrderedCounter.increment built on it.                                 *)
(*                                                                         *)
(* One action per synchronisation-primitive operation of the code (these   *)
(* are also exactly the points where the detsched shim can preempt the     *)
(* real code), plus the unlocked read of _is_broken after event.wait().    *)
(*                                                                         *)
(* Each thread performs Rounds "with lock:" blocks.  At most one critical  *)
(* section (chosen nondeterministically in Init: `breaker`) raises.        *)
(*                                                                         *)
(* reset(): one more caller (RX, not a member of Threads) calls reset() up *)
(* to MaxResets times at any moment.  reset() is refused while the deque   *)
(* is non-empty - which is what keeps "every current acquirer of a broken  *)
(* lock gets an ordered-lock error" true: an acquirer that was woken by    *)
(* the break and has not yet re-read _is_broken still has its entry in the *)
(* deque (and the entries of such acquirers are never removed).            *)
(***************************************************************************)
EXTENDS Naturals, Sequences, FiniteSets, SequencesExt

CONSTANTS Threads, Rounds, NoCall, None, RX, MaxResets,
          ResetDropsStale   \* probe (FALSE = the code): reset() of a broken lock first drops the deque's entries

Calls == Threads \X (1..Rounds)

VARIABLES
  inner,      \* holder of OrderedLock._lock (a thread) or None
  waiters,    \* OrderedLock._waiters : sequence of calls (each call owns one Event)
  evset,      \* set of calls whose Event is set
  broken,     \* OrderedLock._is_broken
  pc,         \* pc[t]
  rnd,        \* rnd[t] : current round of thread t
  idx,        \* idx[t] : loop index of the breaker's "for waiter in self._waiters"
  counter,    \* OrderedCounter._counter
  breaker,    \* the call whose critical section raises, or NoCall
  \* ---- history variables -------------------------------------------------
  arrival,    \* order in which calls were appended to the deque
  entered,    \* order in which calls entered the critical section
  outcome,    \* outcome[c] \in {"none","ok","own_exception","lock_error"}
  got,        \* got[c] : value returned by increment() (0 = none)
  brokenAt,   \* Len(arrival) when the lock broke, or 0 if not broken (NB arrival of breaker >= 1)
  doomed,     \* the calls that were queued behind the holder when the lock broke ("current acquirers")
  \* ---- reset() caller ------------------------------------------------------
  rpc,        \* "idle" | "X2" | "X3"
  resetCalls, \* number of reset() calls started
  resetOk     \* number of reset() calls that succeeded

rvars == <<rpc, resetCalls, resetOk>>
vars == <<inner, waiters, evset, broken, pc, rnd, idx, counter, breaker, arrival, entered, outcome, got, brokenAt, doomed, rvars>>

cur(t) == <<t, rnd[t]>>

Init ==
  /\ inner = None
  /\ waiters = <<>>
  /\ evset = {}
  /\ broken = FALSE
  /\ pc = [t \in Threads |-> "A1"]
  /\ rnd = [t \in Threads |-> 1]
  /\ idx = [t \in Threads |-> 0]
  /\ counter = 0
  /\ breaker \in Calls \cup {NoCall}
  /\ arrival = <<>>
  /\ entered = <<>>
  /\ outcome = [c \in Calls |-> "none"]
  /\ got = [c \in Calls |-> 0]
  /\ brokenAt = 0
  /\ doomed = {}
  /\ rpc = "idle"
  /\ resetCalls = 0
  /\ resetOk = 0

\* finish the current round of t with outcome o
Finish(t, o) ==
  /\ outcome' = [outcome EXCEPT ![cur(t)] = o]
  /\ IF rnd[t] < Rounds
       THEN /\ rnd' = [rnd EXCEPT ![t] = @ + 1]
            /\ pc' = [pc EXCEPT ![t] = "A1"]
       ELSE /\ rnd' = rnd
            /\ pc' = [pc EXCEPT ![t] = "Done"]

--------------------------------------------------------------------------
\* acquire(): "with self._lock:"
A1(t) == /\ pc[t] = "A1" /\ inner = None
         /\ inner' = t /\ pc' = [pc EXCEPT ![t] = "A2"]
         /\ UNCHANGED <<waiters, evset, broken, rnd, idx, counter, breaker, arrival, entered, outcome, got, brokenAt, rvars, doomed>>

\* under _lock: broken? raise : append own event
A2(t) == /\ pc[t] = "A2"
         /\ IF broken
              THEN /\ pc' = [pc EXCEPT ![t] = "A3x"]
                   /\ UNCHANGED <<waiters, arrival>>
              ELSE /\ waiters' = Append(waiters, cur(t))
                   /\ arrival' = Append(arrival, cur(t))
                   /\ pc' = [pc EXCEPT ![t] = IF Len(waiters) = 0 THEN "A2s" ELSE "A3"]
         /\ UNCHANGED <<inner, evset, broken, rnd, idx, counter, breaker, entered, outcome, got, brokenAt, rvars, doomed>>

\* first waiter: event.set()
A2s(t) == /\ pc[t] = "A2s"
          /\ evset' = evset \cup {cur(t)}
          /\ pc' = [pc EXCEPT ![t] = "A3"]
          /\ UNCHANGED <<inner, waiters, broken, rnd, idx, counter, breaker, arrival, entered, outcome, got, brokenAt, rvars, doomed>>

\* leave "with self._lock"
A3(t) == /\ pc[t] = "A3"
         /\ inner' = None /\ pc' = [pc EXCEPT ![t] = "A4"]
         /\ UNCHANGED <<waiters, evset, broken, rnd, idx, counter, breaker, arrival, entered, outcome, got, brokenAt, rvars, doomed>>

\* leave "with self._lock" through the raise of OrderedLockError
A3x(t) == /\ pc[t] = "A3x"
          /\ inner' = None
          /\ Finish(t, "lock_error")
          /\ UNCHANGED <<waiters, evset, broken, idx, counter, breaker, arrival, entered, got, brokenAt, rvars, doomed>>

\* event.wait() returns
A4(t) == /\ pc[t] = "A4" /\ cur(t) \in evset
         /\ pc' = [pc EXCEPT ![t] = "A5"]
         /\ UNCHANGED <<inner, waiters, evset, broken, rnd, idx, counter, breaker, arrival, entered, outcome, got, brokenAt, rvars, doomed>>

\* the unlocked read of _is_broken
A5(t) == /\ pc[t] = "A5"
         /\ IF broken
              THEN /\ Finish(t, "lock_error")      \* NB: the stale event stays in the deque (faithful)
                   /\ UNCHANGED entered
              ELSE /\ pc' = [pc EXCEPT ![t] = "CS"]
                   /\ entered' = Append(entered, cur(t))
                   /\ UNCHANGED <<rnd, outcome>>
         /\ UNCHANGED <<inner, waiters, evset, broken, idx, counter, breaker, arrival, got, brokenAt, rvars, doomed>>

\* critical section: OrderedCounter increments, or the body raises
CS(t) == /\ pc[t] = "CS"
         /\ IF cur(t) = breaker
              THEN /\ pc' = [pc EXCEPT ![t] = "E1"]
                   /\ UNCHANGED <<counter, got>>
              ELSE /\ counter' = counter + 1
                   /\ got' = [got EXCEPT ![cur(t)] = counter + 1]
                   /\ pc' = [pc EXCEPT ![t] = "R1"]
         /\ UNCHANGED <<inner, waiters, evset, broken, rnd, idx, breaker, arrival, entered, outcome, brokenAt, rvars, doomed>>

\* __exit__ with an exception: "with self._lock:"
E1(t) == /\ pc[t] = "E1" /\ inner = None
         /\ inner' = t /\ pc' = [pc EXCEPT ![t] = "E2"]
         /\ UNCHANGED <<waiters, evset, broken, rnd, idx, counter, breaker, arrival, entered, outcome, got, brokenAt, rvars, doomed>>

\* self._is_broken = True
E2(t) == /\ pc[t] = "E2"
         /\ broken' = TRUE
         /\ brokenAt' = Len(arrival)
         /\ doomed' = {waiters[i] : i \in 2..Len(waiters)}
         /\ idx' = [idx EXCEPT ![t] = 1]
         /\ pc' = [pc EXCEPT ![t] = "E2s"]
         /\ UNCHANGED <<inner, waiters, evset, rnd, counter, breaker, arrival, entered, outcome, got, rvars>>

\* for waiter in self._waiters: waiter.set()      (one step per element)
E2s(t) == /\ pc[t] = "E2s"
          /\ IF idx[t] <= Len(waiters)
               THEN /\ evset' = evset \cup {waiters[idx[t]]}
                    /\ idx' = [idx EXCEPT ![t] = @ + 1]
                    /\ pc' = pc
               ELSE /\ pc' = [pc EXCEPT ![t] = "E3"]
                    /\ UNCHANGED <<evset, idx>>
          /\ UNCHANGED <<inner, waiters, broken, rnd, counter, breaker, arrival, entered, outcome, got, brokenAt, rvars, doomed>>

E3(t) == /\ pc[t] = "E3"
         /\ inner' = None /\ pc' = [pc EXCEPT ![t] = "R1"]
         /\ UNCHANGED <<waiters, evset, broken, rnd, idx, counter, breaker, arrival, entered, outcome, got, brokenAt, rvars, doomed>>

\* release(): "with self._lock:"
R1(t) == /\ pc[t] = "R1" /\ inner = None
         /\ inner' = t /\ pc' = [pc EXCEPT ![t] = "R2"]
         /\ UNCHANGED <<waiters, evset, broken, rnd, idx, counter, breaker, arrival, entered, outcome, got, brokenAt, rvars, doomed>>

\* popleft; wake successor unless broken
R2(t) == /\ pc[t] = "R2"
         /\ Len(waiters) > 0
         /\ waiters' = Tail(waiters)
         /\ pc' = [pc EXCEPT ![t] = IF Len(waiters) > 1 /\ ~broken THEN "R2s" ELSE "R3"]
         /\ UNCHANGED <<inner, evset, broken, rnd, idx, counter, breaker, arrival, entered, outcome, got, brokenAt, rvars, doomed>>

R2s(t) == /\ pc[t] = "R2s"
          /\ evset' = evset \cup {Head(waiters)}
          /\ pc' = [pc EXCEPT ![t] = "R3"]
          /\ UNCHANGED <<inner, waiters, broken, rnd, idx, counter, breaker, arrival, entered, outcome, got, brokenAt, rvars, doomed>>

R3(t) == /\ pc[t] = "R3"
         /\ inner' = None
         /\ Finish(t, IF cur(t) = breaker THEN "own_exception" ELSE "ok")
         /\ UNCHANGED <<waiters, evset, broken, idx, counter, breaker, arrival, entered, got, brokenAt, rvars, doomed>>

--------------------------------------------------------------------------
\* reset(): "with self._lock:"
X1 == /\ rpc = "idle" /\ resetCalls < MaxResets /\ inner = None
      /\ inner' = RX /\ rpc' = "X2" /\ resetCalls' = resetCalls + 1
      /\ UNCHANGED <<waiters, evset, broken, pc, rnd, idx, counter, breaker, arrival, entered, outcome, got, brokenAt, doomed, resetOk>>

\* refused while the deque is non-empty; otherwise clear _is_broken
X2 == /\ rpc = "X2"
      /\ LET q == IF ResetDropsStale /\ broken THEN <<>> ELSE waiters IN
         /\ waiters' = q
         /\ IF Len(q) > 0
              THEN UNCHANGED <<broken, resetOk>>
              ELSE broken' = FALSE /\ resetOk' = resetOk + 1
      /\ rpc' = "X3"
      /\ UNCHANGED <<inner, evset, pc, rnd, idx, counter, breaker, arrival, entered, outcome, got, brokenAt, doomed, resetCalls>>

X3 == /\ rpc = "X3"
      /\ inner' = None /\ rpc' = "idle"
      /\ UNCHANGED <<waiters, evset, broken, pc, rnd, idx, counter, breaker, arrival, entered, outcome, got, brokenAt, doomed, resetCalls, resetOk>>

RStep == X1 \/ X2 \/ X3

Step(t) == \/ A1(t) \/ A2(t) \/ A2s(t) \/ A3(t) \/ A3x(t) \/ A4(t) \/ A5(t) \/ CS(t)
           \/ E1(t) \/ E2(t) \/ E2s(t) \/ E3(t) \/ R1(t) \/ R2(t) \/ R2s(t) \/ R3(t)

AllDone == \A t \in Threads : pc[t] = "Done"

Next == (\E t \in Threads : Step(t)) \/ RStep \/ (AllDone /\ UNCHANGED vars)

Spec == Init /\ [][Next]_vars
FairSpec == Spec /\ (\A t \in Threads : WF_vars(Step(t))) /\ WF_vars(X2 \/ X3)

--------------------------------------------------------------------------
\* Properties (C19)

Holding(t) == pc[t] \in {"CS", "E1", "E2", "E2s", "E3", "R1", "R2"}

TypeOK == /\ inner \in Threads \cup {None, RX}
          /\ rpc \in {"idle", "X2", "X3"}
          /\ doomed \subseteq Calls
          /\ broken \in BOOLEAN
          /\ evset \subseteq Calls
          /\ \A c \in Calls : outcome[c] \in {"none", "ok", "own_exception", "lock_error"}

MutualExclusion == Cardinality({t \in Threads : Holding(t)}) <= 1

\* ownership is granted strictly in arrival order: the calls that entered are a prefix of the arrivals
FIFO == IsPrefix(entered, SelectSeq(arrival, LAMBDA c : c \notin doomed))

\* the holder is always the head of the deque
HolderIsHead == \A t \in Threads : Holding(t) => (Len(waiters) > 0 /\ Head(waiters) = cur(t))

\* OrderedCounter: the i-th call that got a value got exactly i, and values follow arrival order
CounterGapFree ==
  LET valued == SelectSeq(entered, LAMBDA c : got[c] # 0)
  IN  /\ \A i \in 1..Len(valued) : got[valued[i]] = i
      /\ counter = Len(valued)
      /\ \A c \in Calls : got[c] # 0 => c \in Range(entered)

\* break semantics
PosInArrival(c) == CHOOSE i \in 1..Len(arrival) : arrival[i] = c
BreakSemantics ==
  /\ \A c \in Calls : outcome[c] = "own_exception" => c = breaker
  /\ (breaker # NoCall /\ outcome[breaker] # "none") => outcome[breaker] \in {"own_exception", "lock_error"}
  \* nobody enters the critical section once the lock is broken
  /\ broken => \A c \in Range(entered) : PosInArrival(c) <= brokenAt
  \* a call that finished "ok" arrived before the break
  /\ \A c \in Calls : outcome[c] = "ok" => (c \in Range(arrival) /\ (broken => PosInArrival(c) <= brokenAt))
  \* a call that got lock_error did not run the critical section
  /\ \A c \in Calls : outcome[c] = "lock_error" => ((broken \/ resetOk > 0) /\ got[c] = 0)
  \* a call queued behind the holder when the lock broke never gets the lock - reset() or not
  /\ \A c \in doomed : c \notin Range(entered) /\ outcome[c] \in {"none", "lock_error"}

NoEntryAfterBreak == [][broken => entered' = entered]_vars

\* at the end everybody has an outcome; without a breaker everybody is ok
FinalOutcomes == AllDone =>
  /\ \A c \in Calls : outcome[c] # "none"
  /\ breaker = NoCall => \A c \in Calls : outcome[c] = "ok"
  /\ \A c \in doomed : outcome[c] = "lock_error"
  /\ (breaker # NoCall /\ outcome[breaker] = "own_exception" /\ resetOk = 0) =>
        \A c \in Calls : c # breaker =>
            outcome[c] = (IF c \in Range(arrival) /\ PosInArrival(c) < PosInArrival(breaker) THEN "ok" ELSE "lock_error")

\* reset() succeeds only on a lock nobody is queued on or holding
ResetOnlyWhenIdle == [][resetOk' > resetOk => (waiters = <<>> /\ \A t \in Threads : ~Holding(t) /\ pc[t] \notin {"A4", "A5"})]_vars

\* liveness: no lost wakeup, nobody blocks forever (also after a break)
Termination == <>AllDone

=============================================================================
