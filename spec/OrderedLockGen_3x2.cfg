SPECIFICATION GenSpec
CONSTANTS
  Threads = {"t1", "t2", "t3"}
  Rounds = 2
  NoCall <- NoCallG
  None = "None"
  RX = "rx"
  ResetDropsStale = FALSE
  MaxResets = 2
INVARIANT Emit
INVARIANT MutualExclusion
INVARIANT BreakSemantics
CHECK_DEADLOCK FALSE
