--------------------------- MODULE DurableTrace ---------------------------
(***************************************************************************)
(* Trace validation for the replay engine: a recorded multi-invocation     *)
(* execution of the real SDK (real durable_execution wrapper, real         *)
(* handlers, real checkpoint pipeline, ModelBackend; driven by             *)
(* harness/driver.py under detsched) must be a behaviour of Durable.tla    *)
(* for the same program, and every monitor of Durable.tla is evaluated at  *)
(* every step.                                                             *)
(*                                                                         *)
(* Batch file: [ {prog: <<instr...>>, evs: <<...>>} ].  Events:             *)
(*   InvStart                 a new invocation begins                      *)
(*   Api  us, ok, fcls        one checkpoint API call: its updates <<op,act>>, *)
(*                            accepted, or failed with class fcls          *)
(*   FnEnter i, att           user function / poll of op i entered (attempt att) *)
(*   Deliver i, cls, sym      the call at instruction i returned ("val") or raised (cls) *)
(*   EnvTimer i / EnvExt i,o  the backend fired a timer / an external completion arrived *)
(*   InvEnd o                 the wrapper returned/raised, or the process was killed *)
(*   Log i, cls               context.logger call at LOG instruction i: emitted ("log") or suppressed ("nolog") *)
(* Everything else the user thread does is silent (and deterministic).     *)
(***************************************************************************)
EXTENDS Durable, Integers, Json, IOUtils, TLCExt

Traces == JsonDeserialize(IOEnv.TRACE_FILE)
NT == Len(Traces)

VARIABLES tid, l
tvars == <<vars, prog, tid, l>>

Tr == Traces[tid].evs
Ev == Tr[l]

TraceInit ==
  /\ tid \in 1..NT
  /\ l = 1
  /\ prog = Traces[tid].prog
  /\ Init
  /\ TLCSet(tid, 1)

IsEv(name) == l <= Len(Tr) /\ Ev.ev = name
Consume == l' = l + 1 /\ UNCHANGED <<tid, prog>>
Silent == UNCHANGED <<tid, l, prog>>

\* (the event says whether the invocation payload held at most the EXECUTION operation)
TInvStart == IsEv("InvStart") /\ StartInvocation /\ lg'.small = (Ev.o = "small") /\ Consume

\* an invocation whose history could not be loaded (a page fetch failed): started and ended with a raise in one step
TInvLoadFail == IsEv("InvLoadFail") /\ StartInvocationLoadFail /\ Consume

\* a context.logger call between operations, emitted ("log") or suppressed ("nolog")
TLog == /\ IsEv("Log") /\ pc = Ev.i /\ LogStep /\ last'[2] = Ev.cls /\ Consume

\* the updates of the call are exactly the head of the SDK's FIFO, in order
UsMatch(k) == /\ k <= Len(q)
              /\ \A j \in 1..k : q[j].op = Ev.us[j][1] /\ q[j].act = Ev.us[j][2]

TApi == /\ IsEv("Api")
        /\ IF Ev.ok
             THEN /\ Len(Ev.us) >= 1 /\ UsMatch(Len(Ev.us)) /\ Flush(Len(Ev.us))
             ELSE /\ Len(Ev.us) >= 1 /\ UsMatch(Len(Ev.us))
                  /\ IF Ev.o = "applied" THEN FlushFailApplied(Len(Ev.us), Ev.fcls) ELSE FlushFail(Ev.fcls)
        /\ Consume

\* an API call that carries no update (only empty checkpoints were queued): nothing changes for a sequential program
TApiEmpty == /\ IsEv("Api") /\ Len(Ev.us) = 0 /\ UNCHANGED vars /\ Consume

TFnEnter == /\ IsEv("FnEnter")
            /\ pc = Ev.i /\ (StepFnEnter \/ WfcPollEnter)
            /\ att = Ev.att
            /\ Consume

TDeliver == /\ IsEv("Deliver")
            /\ UserStep
            /\ nobs' = nobs + 1
            /\ last'[1] = Ev.i /\ last'[2] = Ev.cls /\ (Ev.sym = -1 \/ last'[3] = Ev.sym)
            /\ ist' = "Running"
            /\ Consume

TEnvTimer == IsEv("EnvTimer") /\ FireTimer(Ev.i) /\ Consume
TEnvExt == IsEv("EnvExt") /\ CompleteExt(Ev.i, Ev.o) /\ Consume

TInvEnd == /\ IsEv("InvEnd")
           /\ ist = "Running"
           /\ IF Ev.o = "CRASHED" THEN Crash ELSE (UserStep /\ ist' = "Idle" /\ outcome' = Ev.o)
           /\ Consume

\* silent user-thread steps: no observation, the invocation goes on (deliveries inside wait_for_callback are not observed)
SilentUser ==
  /\ l <= Len(Tr)
  /\ UserStep
  /\ ist' = "Running"
  /\ (nobs' = nobs \/ (Prog[pc].quiet /\ last'[2] # "fn"))
  /\ Silent

TraceDone == l = Len(Tr) + 1 /\ UNCHANGED tvars

TraceNext == TInvStart \/ TInvLoadFail \/ TLog \/ TApi \/ TApiEmpty \/ TFnEnter \/ TDeliver \/ TEnvTimer \/ TEnvExt \/ TInvEnd \/ SilentUser \/ TraceDone

TraceSpec == TraceInit /\ [][TraceNext]_tvars

Progress == TLCSet(tid, IF TLCGet(tid) < l THEN l ELSE TLCGet(tid))
\* once some path has consumed the whole trace, the remaining search for this trace is cut off (depth-first queue)
Prune == ~(TLCGet(tid) = Len(Tr) + 1 /\ l < Len(Tr) + 1)

Accepted ==
  LET badT == {i \in 1..NT : TLCGet(i) # Len(Traces[i].evs) + 1}
  IN  badT = {} \/ (PrintT(<<"REJECT", {<<i, TLCGet(i)>> : i \in badT}>>) /\ FALSE)

=============================================================================
