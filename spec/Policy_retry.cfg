SPECIFICATION Spec
CONSTANTS
  Table = "retry"
  Tier = "full"
INVARIANTS
  RetryBounded
  RetryFilter
  RetryOtherwise
  DelayWithinBounds
  DelayNoneExact
  BackoffMonotone
  BackoffFirst
  Dump
