SPECIFICATION Spec
CONSTANTS
  Table = "wait"
  Tier = "full"
INVARIANTS
  WaitStopsOnPredicate
  WaitBounded
  WaitOtherwise
  DelayWithinBounds
  DelayNoneExact
  BackoffMonotone
  BackoffFirst
  Dump
