\* C20 probe: the named deviation must still be reachable, i.e. this invariant must be VIOLATED
CONSTANT Slices = {"op_det"}
INIT Init
NEXT Next
INVARIANT Probe_NoChainedInvokeEmptyDict
