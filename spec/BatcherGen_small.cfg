SPECIFICATION GenSpec
CONSTANTS
  Producers = {"p1", "p2"}
  NItems = 1
  Sizes = {400, 700}
  MaxOps = 2
  MaxBytes = 1000
  MayFail = TRUE
  FixedOrder = TRUE
  FixedOversize = TRUE
INVARIANT Emit
INVARIANT ReleaseSound
CHECK_DEADLOCK FALSE
