SPECIFICATION Spec
CONSTANTS
  Table = "classify"
  Tier = "full"
INVARIANTS
  Class5xx
  ClassThrottle
  ClassNoStatus
  ClassBadToken
  Class4xx
  Dump
