SPECIFICATION Spec
CONSTANTS
  Table = "completion"
  Tier = "full"
INVARIANTS
  ReasonConsistent
  DecisionImpliesClassifier
  ClassifierImpliesDecision
  ReasonClausesAlways
  AllFinishedDecides
  DecisionMonotone
  Dump
