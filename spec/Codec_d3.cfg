\* C15 thorough: depth 3, two-key look-alike dicts at every level
SPECIFICATION Spec
CONSTANTS
  D = 3
  Leaves = {"int", "date"}
  Keys = {"t", "v"}
  MaxW = 1
  MaxK = 2
  MaxB = 1
  ErrKinds = {"full"}
  FixKeys = TRUE
INVARIANT DumpInv
INVARIANT InvRoundTripOrKnown
INVARIANT InvNoSilentOrKnown
INVARIANT InvLookAlikeSafe
INVARIANT InvRejectExact
INVARIANT InvNoDecodeError
INVARIANT InvPlainIffPrimitive
INVARIANT InvEveryNestedWrapped
INVARIANT InvKnownIsReal
INVARIANT InvKnownOnlyKeys
