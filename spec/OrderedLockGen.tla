-------------------------- MODULE OrderedLockGen --------------------------
(***************************************************************************)
(* Behaviour generator for the spec -> code direction of the binding.      *)
(*                                                                         *)
(* OrderedLock.tla is finer-grained than anything a thread switch can      *)
(* separate in the code: what runs between two synchronisation-primitive   *)
(* operations is one step of the implementation.  This module restricts    *)
(* OrderedLock!Next to behaviours at *code grain* (a thread that is in the *)
(* middle of such a group - A2 after A1, A5 and CS after A4, E2 after E1,  *)
(* the end of the E2s loop, R2 after R1, X2 after X1 - steps next) and     *)
(* records the labelled history.  TLC enumerates every complete history    *)
(* (model checking: the history is part of the state) or samples them      *)
(* (-simulate); each is printed as JSON at its final state and replayed    *)
(* into the real OrderedLock by checks/c19.py (thread choices forced by    *)
(* the history; every logged event and the final outcomes must be the      *)
(* model's).  A behaviour the code cannot follow is a violation.           *)
(***************************************************************************)
EXTENDS OrderedLock, Json, TLC

VARIABLE hist

gvars == <<vars, hist>>

MidGroup(t) == \/ pc[t] \in {"A2", "A5", "CS", "E2", "R2"}
               \/ (pc[t] = "E2s" /\ idx[t] > Len(waiters))
RMid == rpc = "X2"
SomeMid == RMid \/ \E t \in Threads : MidGroup(t)

Rec(name, t, c, o, v) ==
  hist' = Append(hist, [a |-> name, t |-> t, c |-> c, o |-> o, v |-> v, q |-> Len(waiters'), b |-> broken'])

NoC == <<"", 0>>
NoCallG == <<"NoCall", 0>>

GStep(t) ==
  \/ A1(t)  /\ Rec("A1", t, NoC, "", 0)
  \/ A2(t)  /\ Rec(IF broken THEN "A2b" ELSE "A2", t, NoC, "", 0)
  \/ A2s(t) /\ Rec("A2s", t, cur(t), "", 0)
  \/ A3(t)  /\ Rec("A3", t, NoC, "", 0)
  \/ A3x(t) /\ Rec("A3x", t, NoC, "", 0)
  \/ A4(t)  /\ Rec("A4", t, NoC, "", 0)
  \/ A5(t)  /\ Rec("A5", t, NoC, IF pc'[t] = "CS" THEN "ok" ELSE "lock_error", 0)
  \/ CS(t)  /\ Rec("CS", t, NoC, "", IF cur(t) = breaker THEN 0 ELSE counter')
  \/ E1(t)  /\ Rec("E1", t, NoC, "", 0)
  \/ E2(t)  /\ Rec("E2", t, NoC, "", 0)
  \/ (pc[t] = "E2s" /\ idx[t] <= Len(waiters) /\ E2s(t) /\ Rec("E2s", t, waiters[idx[t]], "", 0))
  \/ (pc[t] = "E2s" /\ idx[t] > Len(waiters) /\ E2s(t) /\ Rec("E2e", t, NoC, "", 0))
  \/ E3(t)  /\ Rec("E3", t, NoC, "", 0)
  \/ R1(t)  /\ Rec("R1", t, NoC, "", 0)
  \/ R2(t)  /\ Rec("R2", t, NoC, "", 0)
  \/ (R2s(t) /\ Rec("R2s", t, Head(waiters), "", 0))
  \/ R3(t)  /\ Rec("R3", t, NoC, "", 0)

GReset ==
  \/ X1 /\ Rec("X1", RX, NoC, "", 0)
  \/ X2 /\ Rec("X2", RX, NoC, "", resetOk')
  \/ X3 /\ Rec("X3", RX, NoC, "", resetOk)

GNext ==
  IF SomeMid
    THEN \/ (RMid /\ GReset)
         \/ \E t \in Threads : MidGroup(t) /\ GStep(t)
    ELSE (\E t \in Threads : GStep(t)) \/ GReset

GInit == Init /\ hist = <<>>

GenSpec == GInit /\ [][GNext]_gvars

\* a complete behaviour: every thread is done and the resetter is between calls
Complete == AllDone /\ rpc = "idle"

Emit ==
  Complete =>
    PrintT(<<"BEHAVIOUR", ToJson([breaker |-> breaker, hist |-> hist,
                                  outcome |-> [c \in Calls |-> outcome[c]],
                                  got |-> [c \in Calls |-> got[c]],
                                  calls |-> [c \in Calls |-> c]])>>)
=============================================================================
