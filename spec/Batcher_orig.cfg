\* the code as pinned (both known deviations present)
SPECIFICATION FairSpec
CONSTANTS
  Producers = {p1, p2}
  NItems = 2
  Sizes = {1, 2, 3}
  MaxOps = 2
  MaxBytes = 2
  MayFail = TRUE
  FixedOrder = FALSE
  FixedOversize = FALSE
INVARIANT DeliveredIsPrefixOfHanded
INVARIANT SyncImpliesFlushed
INVARIANT TokenChain
INVARIANT CountLimit
INVARIANT SizeLimit
INVARIANT ReleaseSound
INVARIANT NoStuckWaiter
PROPERTY NoCallAfterFailure
PROPERTY EveryProducerReturnsUnlessKnown
CHECK_DEADLOCK FALSE
