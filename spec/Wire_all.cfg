\* C20 quick tier: the three invariants evaluated in one pass (Inv_All)
CONSTANT Slices = {"err", "opts", "upd_enum", "upd_err", "upd_pres", "op_enum", "op_head", "op_det", "op_combo", "out", "inp", "decode", "factory"}
CONSTANT Fixed = TRUE        \* default; checks/c20.py substitutes spec/variant.json "WireFixed"
INIT Init
NEXT Next

INVARIANT Inv_All
