-------------------------------- MODULE Pipe --------------------------------
(***************************************************************************)
(* The abstraction of the checkpoint pipeline that Durable.tla relies on:  *)
(* a FIFO of updates handed over but not yet delivered, emptied from the   *)
(* front by API calls of at most MaxOps updates, and dropped as a whole by *)
(* the first failing call, after which nothing is delivered any more.      *)
(*                                                                         *)
(* Batcher.tla (the model of state.py's queues, overflow queue, batching   *)
(* window, completion events, failure path) is checked to REFINE this      *)
(* module (`PipeRefinement` in Batcher.tla): that discharges the           *)
(* assumption under which Durable.tla replaces the pipeline by `q`,        *)
(* Flush(k) and FlushFail.                                                 *)
(***************************************************************************)
EXTENDS Naturals, Sequences

CONSTANT MaxOps
VARIABLES pq,       \* handed over, not yet delivered (in hand-over order)
          psent,    \* delivered to the backend (in delivery order)
          pfailed   \* an API call has failed

pvars == <<pq, psent, pfailed>>

PInit == pq = <<>> /\ psent = <<>> /\ pfailed = FALSE

\* create_checkpoint hands an update over (after a failure nothing is queued for delivery any more)
\* (stated as a relation between pq and pq' so that TLC can evaluate it as an action property without enumerating the updates)
PipePut == /\ ~pfailed /\ Len(pq') = Len(pq) + 1 /\ SubSeq(pq', 1, Len(pq)) = pq /\ UNCHANGED <<psent, pfailed>>

\* one successful API call delivers a non-empty prefix of the queue, in order
PipeFlush(k) == /\ ~pfailed /\ k \in 1..Len(pq) /\ k <= MaxOps
                /\ psent' = psent \o SubSeq(pq, 1, k)
                /\ pq' = SubSeq(pq, k + 1, Len(pq))
                /\ UNCHANGED pfailed

\* a failing API call: nothing of the queue is ever delivered
PipeFail == /\ ~pfailed /\ pfailed' = TRUE /\ pq' = <<>> /\ UNCHANGED psent

PNext == PipePut \/ (\E k \in 1..MaxOps : PipeFlush(k)) \/ PipeFail

PSpec == PInit /\ [][PNext]_pvars
=============================================================================
