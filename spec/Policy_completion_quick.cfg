SPECIFICATION Spec
CONSTANTS
  Table = "completion"
  Tier = "quick"
INVARIANTS
  ReasonConsistent
  DecisionImpliesClassifier
  ClassifierImpliesDecision
  ReasonClausesAlways
  AllFinishedDecides
  DecisionMonotone
  Dump
