------------------------------- MODULE Wire -------------------------------
(***************************************************************************)
(* C20 - wire model codecs are lossless inverses.                          *)
(*                                                                         *)
(* Field-by-field transcription of the hand-written codecs of              *)
(*   lambda_service.py : ErrorObject, *Options, OperationUpdate (+ the     *)
(*                       create_* factories), Operation (to_dict /         *)
(*                       from_dict / to_json_dict / from_json_dict),       *)
(*                       TimestampConverter, StateOutput, CheckpointOutput,*)
(*                       CheckpointUpdatedExecutionState                   *)
(*   execution.py      : InitialExecutionState, DurableExecutionInvocation-*)
(*                       Input / Output                                    *)
(* over small abstract leaf domains, INCLUDING the code's truthiness tests.*)
(*                                                                         *)
(* One TLC state = one abstract instance (variable inst, stuttering Next).    *)
(* Model values of leaves are string tokens:                               *)
(*   optional str : "absent" (None) | "empty" ("") | "val"                 *)
(*   required str : "rempty" ("") | "val"                                  *)
(*   bool "F"|"T" ; int "zero"|"pos" ; list "absent"|"emptylist"|"val"     *)
(*   timestamp    : "absent" | "epoch0"  (code-ms == 0)                    *)
(*                  | "aligned" | "subms" | "tzoff" (non-UTC offset)       *)
(*                  | "unlucky" (int(dt.timestamp()*1000) is the exact ms  *)
(*                               moved 1 ms toward zero; ms-aligned only)  *)
(*                  | "drift"   (fromtimestamp(ms/1000) is 1us off the     *)
(*                               exact millisecond; instants >= 2^33 s)    *)
(* Wire values add "nokey" (key omitted) and "none" (key present, None),   *)
(* "ms0","msA",... for millisecond integers.  Nested objects are records   *)
(* with a presence flag (p on the model side, has on the wire side).       *)
(***************************************************************************)
EXTENDS Naturals, Sequences, FiniteSets, TLC, Json

CONSTANT Slices      \* set of slice names to enumerate (see Domain)
CONSTANT Fixed       \* TRUE: the code as repaired (8cfb4b4, e2ea26f, 23d37db); FALSE: the pinned original with the five
                     \* named deviations K1..K5 (kept as a regression probe of the model).  spec/variant.json "WireFixed"
                     \* says which variant the real code is compared with.
VARIABLE inst        \* [cls |-> class name, slice |-> slice name, v |-> abstract instance]

OptStr  == {"absent", "empty", "val"}
ReqStr  == {"rempty", "val"}
Bools   == {"F", "T"}
Ints    == {"zero", "pos"}
StackDom == {"absent", "emptylist", "val"}
TsPresent == {"epoch0", "aligned", "unlucky", "drift", "subms", "tzoff"}
TsDom   == {"absent"} \cup TsPresent
Types   == {"EXECUTION", "CONTEXT", "STEP", "WAIT", "CALLBACK", "CHAINED_INVOKE"}
Statuses == {"STARTED", "PENDING", "READY", "SUCCEEDED", "FAILED", "CANCELLED", "TIMED_OUT", "STOPPED"}
SubTypes == {"Step", "Wait", "Callback", "RunInChildContext", "Map", "MapIteration", "Parallel",
             "ParallelBranch", "WaitForCallback", "WaitForCondition", "ChainedInvoke"}
Actions == {"START", "SUCCEED", "FAIL", "RETRY", "CANCEL"}
InvStatuses == {"SUCCEEDED", "FAILED", "PENDING"}

(* Python truthiness of a leaf.  datetime objects, Enum members and dataclass instances are always truthy. *)
Falsy == {"absent", "none", "nokey", "empty", "rempty", "zero", "F", "ms0", "emptylist"}
Truthy(v) == v \notin Falsy

IfT(v)   == IF Truthy(v) THEN v ELSE "nokey"            \* if self.f: result[K] = self.f
IfNN(v)  == IF v # "absent" THEN v ELSE "nokey"         \* if self.f is not None: result[K] = self.f
Put(v)   == IF v = "absent" THEN "none" ELSE v          \* result[K] = self.f   (unconditional)
Get(w)   == IF w \in {"nokey", "none"} THEN "absent" ELSE w            \* data.get(K)
GetD(w, d) == IF w = "nokey" THEN d ELSE IF w = "none" THEN "absent" ELSE w   \* data.get(K, d)

(* TimestampConverter.to_unix_millis / from_unix_millis *)
ToMs(t) == CASE t = "epoch0" -> "ms0" [] t = "aligned" -> "msA" [] t = "unlucky" -> "msU1"
             [] t = "drift" -> "msD" [] t = "subms" -> "msS" [] t = "tzoff" -> "msZ" [] OTHER -> "badms"
ExactMs(t) == IF t = "unlucky" THEN "msU" ELSE ToMs(t)           \* what an exact encoder (the backend) sends
FromMs(m) == CASE m = "msA" -> "aligned" [] m = "msU1" -> "unluckyM1" [] m = "msU" -> "unlucky"
               [] m = "msD" -> "driftM" [] m = "msS" -> "submsT" [] m = "msZ" -> "tzoffU"
               [] m = "ms0" -> "epoch0" [] OTHER -> "baddt"
FromMsExact(m) == CASE m = "msD" -> "drift" [] m = "msU1" -> "unluckyM1" [] OTHER -> FromMs(m)   \* EPOCH + timedelta(milliseconds=ms)
IsNone(w)  == w \in {"nokey", "none"}
\* original:  if ts := result.get(K): result[K] = to_unix_millis(ts)       with int(dt.timestamp() * 1000)
\* repaired:  if (ts := result.get(K)) is not None: ...                    with (dt - EPOCH) // timedelta(milliseconds=1)
ConvOut(w) == IF Fixed THEN (IF IsNone(w) THEN w ELSE ExactMs(w)) ELSE (IF Truthy(w) THEN ToMs(w) ELSE w)
\* original:  if ms := data.get(K): data[K] = from_unix_millis(ms)         with fromtimestamp(ms / 1000, tz=UTC)
\* repaired:  if (ms := data.get(K)) is not None: ...                      with EPOCH + timedelta(milliseconds=ms)
ConvIn(w)  == IF Fixed THEN (IF IsNone(w) THEN w ELSE FromMsExact(w)) ELSE (IF Truthy(w) THEN FromMs(w) ELSE w)

-----------------------------------------------------------------------------
(* ErrorObject *)
NoErr      == [p |-> FALSE, message |-> "absent", type |-> "absent", data |-> "absent", stack_trace |-> "absent"]
ErrAllNone == [NoErr EXCEPT !.p = TRUE]
ErrEmptyMsg == [ErrAllNone EXCEPT !.message = "empty"]
ErrFullV   == [p |-> TRUE, message |-> "val", type |-> "val", data |-> "val", stack_trace |-> "val"]
ErrPresent == [p : {TRUE}, message : OptStr, type : OptStr, data : OptStr, stack_trace : StackDom]
ErrFull    == {NoErr} \cup ErrPresent
ErrGiven   == {ErrAllNone, ErrEmptyMsg, ErrFullV}
ErrSmall   == {NoErr} \cup ErrGiven

WNoErr == [has |-> FALSE, ErrorMessage |-> "nokey", ErrorType |-> "nokey", ErrorData |-> "nokey", StackTrace |-> "nokey"]
ErrToDict(e) == [has |-> TRUE, ErrorMessage |-> IfNN(e.message), ErrorType |-> IfNN(e.type),
                 ErrorData |-> IfNN(e.data), StackTrace |-> IfNN(e.stack_trace)]
ErrFromDict(w) == [p |-> TRUE, message |-> Get(w.ErrorMessage), type |-> Get(w.ErrorType),
                   data |-> Get(w.ErrorData), stack_trace |-> Get(w.StackTrace)]
ErrNonEmpty(w) == w.has /\ (w.ErrorMessage # "nokey" \/ w.ErrorType # "nokey" \/ w.ErrorData # "nokey" \/ w.StackTrace # "nokey")
EmitErr(e) == IF e.p THEN ErrToDict(e) ELSE WNoErr       \* if self.error: (a dataclass instance is truthy)
ReadErr(w) == IF ErrNonEmpty(w) THEN ErrFromDict(w) ELSE NoErr    \* ErrorObject.from_dict(raw) if raw else None

-----------------------------------------------------------------------------
(* *Options *)
NoCtxO  == [p |-> FALSE, replay_children |-> "absent"]
NoStepO == [p |-> FALSE, next_attempt_delay_seconds |-> "absent"]
NoWaitO == [p |-> FALSE, wait_seconds |-> "absent"]
NoCbO   == [p |-> FALSE, timeout_seconds |-> "absent", heartbeat_timeout_seconds |-> "absent"]
NoInvO  == [p |-> FALSE, function_name |-> "absent", tenant_id |-> "absent"]
CtxODom  == [p : {TRUE}, replay_children : Bools]
StepODom == [p : {TRUE}, next_attempt_delay_seconds : Ints]
WaitODom == [p : {TRUE}, wait_seconds : Ints]
CbODom   == [p : {TRUE}, timeout_seconds : Ints, heartbeat_timeout_seconds : Ints]
InvODom  == [p : {TRUE}, function_name : ReqStr, tenant_id : OptStr]

WNoCtxO  == [has |-> FALSE, ReplayChildren |-> "nokey"]
WNoStepO == [has |-> FALSE, NextAttemptDelaySeconds |-> "nokey"]
WNoWaitO == [has |-> FALSE, WaitSeconds |-> "nokey"]
WNoCbO   == [has |-> FALSE, TimeoutSeconds |-> "nokey", HeartbeatTimeoutSeconds |-> "nokey"]
WNoInvO  == [has |-> FALSE, FunctionName |-> "nokey", TenantId |-> "nokey"]

CtxOToDict(o)  == [has |-> TRUE, ReplayChildren |-> o.replay_children]
StepOToDict(o) == [has |-> TRUE, NextAttemptDelaySeconds |-> o.next_attempt_delay_seconds]
WaitOToDict(o) == [has |-> TRUE, WaitSeconds |-> o.wait_seconds]
CbOToDict(o)   == [has |-> TRUE, TimeoutSeconds |-> o.timeout_seconds, HeartbeatTimeoutSeconds |-> o.heartbeat_timeout_seconds]
InvOToDict(o)  == [has |-> TRUE, FunctionName |-> o.function_name, TenantId |-> IfNN(o.tenant_id)]
CtxOFromDict(w)  == [p |-> TRUE, replay_children |-> GetD(w.ReplayChildren, "F")]
StepOFromDict(w) == [p |-> TRUE, next_attempt_delay_seconds |-> GetD(w.NextAttemptDelaySeconds, "zero")]
WaitOFromDict(w) == [p |-> TRUE, wait_seconds |-> GetD(w.WaitSeconds, "pos")]
CbOFromDict(w)   == [p |-> TRUE, timeout_seconds |-> GetD(w.TimeoutSeconds, "zero"),
                     heartbeat_timeout_seconds |-> GetD(w.HeartbeatTimeoutSeconds, "zero")]
InvOFromDict(w)  == [p |-> TRUE, function_name |-> w.FunctionName, tenant_id |-> Get(w.TenantId)]
CtxONonEmpty(w)  == w.has /\ w.ReplayChildren # "nokey"
StepONonEmpty(w) == w.has /\ w.NextAttemptDelaySeconds # "nokey"
WaitONonEmpty(w) == w.has /\ w.WaitSeconds # "nokey"
CbONonEmpty(w)   == w.has /\ (w.TimeoutSeconds # "nokey" \/ w.HeartbeatTimeoutSeconds # "nokey")
InvONonEmpty(w)  == w.has /\ (w.FunctionName # "nokey" \/ w.TenantId # "nokey")

-----------------------------------------------------------------------------
(* OperationUpdate.to_dict / from_dict  (lambda_service.py 362-431) *)
UpdToDict(u) ==
  [Id |-> u.operation_id, Type |-> u.operation_type, Action |-> u.action,
   ParentId |-> IfT(u.parent_id), Name |-> IfT(u.name), SubType |-> IfT(u.sub_type),
   Payload |-> IfT(u.payload), Error |-> EmitErr(u.error),
   ContextOptions |-> IF u.context_options.p THEN CtxOToDict(u.context_options) ELSE WNoCtxO,
   StepOptions |-> IF u.step_options.p THEN StepOToDict(u.step_options) ELSE WNoStepO,
   WaitOptions |-> IF u.wait_options.p THEN WaitOToDict(u.wait_options) ELSE WNoWaitO,
   CallbackOptions |-> IF u.callback_options.p THEN CbOToDict(u.callback_options) ELSE WNoCbO,
   ChainedInvokeOptions |-> IF u.chained_invoke_options.p THEN InvOToDict(u.chained_invoke_options) ELSE WNoInvO]

(* what an exact encoder would emit: every field that is not None *)
UpdIdealToDict(u) == [UpdToDict(u) EXCEPT !.ParentId = IfNN(u.parent_id), !.Name = IfNN(u.name),
                                          !.SubType = IfNN(u.sub_type), !.Payload = IfNN(u.payload)]

UpdFromDict(w) ==
  [operation_id |-> w.Id, operation_type |-> w.Type, action |-> w.Action,
   parent_id |-> Get(w.ParentId), name |-> Get(w.Name),
   sub_type |-> IF Truthy(w.SubType) THEN w.SubType ELSE "absent",
   payload |-> Get(w.Payload), error |-> ReadErr(w.Error),
   context_options |-> IF CtxONonEmpty(w.ContextOptions) THEN CtxOFromDict(w.ContextOptions) ELSE NoCtxO,
   step_options |-> IF StepONonEmpty(w.StepOptions) THEN StepOFromDict(w.StepOptions) ELSE NoStepO,
   wait_options |-> IF WaitONonEmpty(w.WaitOptions) THEN WaitOFromDict(w.WaitOptions) ELSE NoWaitO,
   callback_options |-> IF CbONonEmpty(w.CallbackOptions) THEN CbOFromDict(w.CallbackOptions) ELSE NoCbO,
   chained_invoke_options |-> IF InvONonEmpty(w.ChainedInvokeOptions) THEN InvOFromDict(w.ChainedInvokeOptions) ELSE NoInvO]

-----------------------------------------------------------------------------
(* Operation details *)
NoExec == [p |-> FALSE, input_payload |-> "absent"]
NoCtx  == [p |-> FALSE, replay_children |-> "absent", result |-> "absent", error |-> NoErr]
NoStep == [p |-> FALSE, attempt |-> "absent", next_attempt_timestamp |-> "absent", result |-> "absent", error |-> NoErr]
NoWait == [p |-> FALSE, scheduled_end_timestamp |-> "absent"]
NoCb   == [p |-> FALSE, callback_id |-> "absent", result |-> "absent", error |-> NoErr]
NoInv  == [p |-> FALSE, result |-> "absent", error |-> NoErr]
RawInv == [p |-> FALSE, result |-> "rawdict", error |-> NoErr]     \* not an object at all: the raw empty wire dict {}

WNoExec == [has |-> FALSE, InputPayload |-> "nokey"]
WNoCtx  == [has |-> FALSE, ReplayChildren |-> "nokey", Result |-> "nokey", Error |-> WNoErr]
WNoStep == [has |-> FALSE, Attempt |-> "nokey", NextAttemptTimestamp |-> "nokey", Result |-> "nokey", Error |-> WNoErr]
WNoWait == [has |-> FALSE, ScheduledEndTimestamp |-> "nokey"]
WNoCb   == [has |-> FALSE, CallbackId |-> "nokey", Result |-> "nokey", Error |-> WNoErr]
WNoInv  == [has |-> FALSE, Result |-> "nokey", Error |-> WNoErr]

ExecNonEmpty(d) == d.has /\ d.InputPayload # "nokey"
CtxNonEmpty(d)  == d.has /\ (d.ReplayChildren # "nokey" \/ d.Result # "nokey" \/ d.Error.has)
StepNonEmpty(d) == d.has /\ (d.Attempt # "nokey" \/ d.NextAttemptTimestamp # "nokey" \/ d.Result # "nokey" \/ d.Error.has)
WaitNonEmpty(d) == d.has /\ d.ScheduledEndTimestamp # "nokey"
CbNonEmpty(d)   == d.has /\ (d.CallbackId # "nokey" \/ d.Result # "nokey" \/ d.Error.has)
InvNonEmpty(d)  == d.has /\ (d.Result # "nokey" \/ d.Error.has)

(* Operation.to_dict  (lambda_service.py 798-853) *)
OpToDict(o) ==
  [Id |-> o.operation_id, Type |-> o.operation_type, Status |-> o.status,
   ParentId |-> IfT(o.parent_id), Name |-> IfT(o.name),
   StartTimestamp |-> IfT(o.start_timestamp), EndTimestamp |-> IfT(o.end_timestamp),
   SubType |-> IfT(o.sub_type),
   ExecutionDetails |-> IF o.execution_details.p
        THEN [has |-> TRUE, InputPayload |-> Put(o.execution_details.input_payload)] ELSE WNoExec,
   \* original (818-819): only Result is emitted (K1).
   \* repaired: Result always (possibly None); ReplayChildren only `if self.context_details.replay_children` (i.e. when True);
   \*           Error `if self.context_details.error` (any ErrorObject instance is truthy; its to_dict() may be {})
   ContextDetails |-> IF o.context_details.p
        THEN [has |-> TRUE, ReplayChildren |-> IF Fixed THEN IfT(o.context_details.replay_children) ELSE "nokey",
              Result |-> Put(o.context_details.result),
              Error |-> IF Fixed THEN EmitErr(o.context_details.error) ELSE WNoErr] ELSE WNoCtx,
   StepDetails |-> IF o.step_details.p
        THEN [has |-> TRUE, Attempt |-> o.step_details.attempt,
              NextAttemptTimestamp |-> IfT(o.step_details.next_attempt_timestamp),
              Result |-> IfT(o.step_details.result), Error |-> EmitErr(o.step_details.error)] ELSE WNoStep,
   WaitDetails |-> IF o.wait_details.p
        THEN [has |-> TRUE, ScheduledEndTimestamp |-> IfT(o.wait_details.scheduled_end_timestamp)] ELSE WNoWait,
   CallbackDetails |-> IF o.callback_details.p
        THEN [has |-> TRUE, CallbackId |-> o.callback_details.callback_id,
              Result |-> IfT(o.callback_details.result), Error |-> EmitErr(o.callback_details.error)] ELSE WNoCb,
   ChainedInvokeDetails |-> IF o.chained_invoke_details.p
        THEN [has |-> TRUE, Result |-> IfT(o.chained_invoke_details.result),
              Error |-> EmitErr(o.chained_invoke_details.error)] ELSE WNoInv]

(* exact encoder (what the backend / boto3 delivers): every member that is not None *)
OpIdealToDict(o) ==
  [Id |-> o.operation_id, Type |-> o.operation_type, Status |-> o.status,
   ParentId |-> IfNN(o.parent_id), Name |-> IfNN(o.name),
   StartTimestamp |-> IfNN(o.start_timestamp), EndTimestamp |-> IfNN(o.end_timestamp),
   SubType |-> IfNN(o.sub_type),
   ExecutionDetails |-> IF o.execution_details.p
        THEN [has |-> TRUE, InputPayload |-> IfNN(o.execution_details.input_payload)] ELSE WNoExec,
   ContextDetails |-> IF o.context_details.p
        THEN [has |-> TRUE, ReplayChildren |-> o.context_details.replay_children,
              Result |-> IfNN(o.context_details.result), Error |-> EmitErr(o.context_details.error)] ELSE WNoCtx,
   StepDetails |-> IF o.step_details.p
        THEN [has |-> TRUE, Attempt |-> o.step_details.attempt,
              NextAttemptTimestamp |-> IfNN(o.step_details.next_attempt_timestamp),
              Result |-> IfNN(o.step_details.result), Error |-> EmitErr(o.step_details.error)] ELSE WNoStep,
   WaitDetails |-> IF o.wait_details.p
        THEN [has |-> TRUE, ScheduledEndTimestamp |-> IfNN(o.wait_details.scheduled_end_timestamp)] ELSE WNoWait,
   CallbackDetails |-> IF o.callback_details.p
        THEN [has |-> TRUE, CallbackId |-> o.callback_details.callback_id,
              Result |-> IfNN(o.callback_details.result), Error |-> EmitErr(o.callback_details.error)] ELSE WNoCb,
   ChainedInvokeDetails |-> IF o.chained_invoke_details.p
        THEN [has |-> TRUE, Result |-> IfNN(o.chained_invoke_details.result),
              Error |-> EmitErr(o.chained_invoke_details.error)] ELSE WNoInv]

(* Operation.from_dict  (lambda_service.py 738-796) *)
OpFromDict(w) ==
  [operation_id |-> w.Id, operation_type |-> w.Type, status |-> w.Status,
   parent_id |-> Get(w.ParentId), name |-> Get(w.Name),
   start_timestamp |-> Get(w.StartTimestamp), end_timestamp |-> Get(w.EndTimestamp),
   sub_type |-> IF Truthy(w.SubType) THEN w.SubType ELSE "absent",
   execution_details |-> IF ExecNonEmpty(w.ExecutionDetails)
        THEN [p |-> TRUE, input_payload |-> Get(w.ExecutionDetails.InputPayload)] ELSE NoExec,
   context_details |-> IF CtxNonEmpty(w.ContextDetails)
        THEN [p |-> TRUE, replay_children |-> GetD(w.ContextDetails.ReplayChildren, "F"),
              result |-> Get(w.ContextDetails.Result), error |-> ReadErr(w.ContextDetails.Error)] ELSE NoCtx,
   step_details |-> IF StepNonEmpty(w.StepDetails)
        THEN [p |-> TRUE, attempt |-> GetD(w.StepDetails.Attempt, "zero"),
              next_attempt_timestamp |-> Get(w.StepDetails.NextAttemptTimestamp),
              result |-> Get(w.StepDetails.Result), error |-> ReadErr(w.StepDetails.Error)] ELSE NoStep,
   wait_details |-> IF WaitNonEmpty(w.WaitDetails)
        THEN [p |-> TRUE, scheduled_end_timestamp |-> Get(w.WaitDetails.ScheduledEndTimestamp)] ELSE NoWait,
   callback_details |-> IF CbNonEmpty(w.CallbackDetails)
        THEN [p |-> TRUE, callback_id |-> w.CallbackDetails.CallbackId,
              result |-> Get(w.CallbackDetails.Result), error |-> ReadErr(w.CallbackDetails.Error)] ELSE NoCb,
   \* original 775-779: `chained_invoke_details = None` and then `if chained_invoke_details := data.get(...)`: the walrus
   \* rebinds the SAME name, so an empty dict {} (falsy) is what ends up in the Operation (K5), not None.
   \* repaired: the walrus binds chained_invoke_details_input
   chained_invoke_details |-> IF InvNonEmpty(w.ChainedInvokeDetails)
        THEN [p |-> TRUE, result |-> Get(w.ChainedInvokeDetails.Result),
              error |-> ReadErr(w.ChainedInvokeDetails.Error)]
        ELSE IF ~Fixed /\ w.ChainedInvokeDetails.has THEN RawInv ELSE NoInv]

(* to_json_dict / from_json_dict (855-926): the four timestamps, each behind a truthiness test *)
JsonTs(w, Conv(_)) ==
  LET sd == w.StepDetails
      wd == w.WaitDetails
  IN [w EXCEPT !.StartTimestamp = Conv(w.StartTimestamp),
               !.EndTimestamp = Conv(w.EndTimestamp),
               !.StepDetails = IF StepNonEmpty(sd) THEN [sd EXCEPT !.NextAttemptTimestamp = Conv(sd.NextAttemptTimestamp)] ELSE sd,
               !.WaitDetails = IF WaitNonEmpty(wd) THEN [wd EXCEPT !.ScheduledEndTimestamp = Conv(wd.ScheduledEndTimestamp)] ELSE wd]
ExactOut(w) == IF w \in {"nokey", "none"} THEN w ELSE ExactMs(w)
OpToJsonDict(o)      == JsonTs(OpToDict(o), ConvOut)
OpIdealToJsonDict(o) == JsonTs(OpIdealToDict(o), ExactOut)
OpFromJsonDict(w)    == OpFromDict(JsonTs(w, ConvIn))

-----------------------------------------------------------------------------
(* DurableExecutionInvocationOutput (execution.py 184-226) *)
OutToDict(o)   == [Status |-> o.status, Result |-> IfNN(o.result), Error |-> EmitErr(o.error)]
OutFromDict(w) == [status |-> w.Status, result |-> Get(w.Result), error |-> ReadErr(w.Error)]

(* InitialExecutionState / DurableExecutionInvocationInput (execution.py 47-153).
   A list of operations is a sequence; `if input_operations := d.get("Operations")` makes [] and a missing key the same. *)
MapSeq(F(_), s) == [i \in 1..Len(s) |-> F(s[i])]
IesToDict(s, Enc(_))   == [has |-> TRUE, OperationsKey |-> "list", Operations |-> MapSeq(Enc, s.operations), NextMarker |-> Put(s.next_marker)]
IesFromDict(w, Dec(_)) == [operations |-> IF w.has /\ w.OperationsKey = "list" /\ Len(w.Operations) > 0 THEN MapSeq(Dec, w.Operations) ELSE <<>>,
                           next_marker |-> IF w.has THEN GetD(w.NextMarker, "empty") ELSE "empty"]
InToDict(v, Enc(_))    == [DurableExecutionArn |-> v.durable_execution_arn, CheckpointToken |-> v.checkpoint_token,
                           InitialExecutionState |-> IesToDict(v.initial_execution_state, Enc)]
InFromDict(w, Dec(_))  == [durable_execution_arn |-> w.DurableExecutionArn, checkpoint_token |-> w.CheckpointToken,
                           initial_execution_state |-> IesFromDict(w.InitialExecutionState, Dec)]

(* decode-only classes: StateOutput, CheckpointUpdatedExecutionState, CheckpointOutput (929-1009).
   Source instance v: [ops, opsKey, marker, token, nes]; the wire is what an exact encoder sends. *)
StateWire(v)       == [has |-> TRUE, OperationsKey |-> v.opsKey,
                       Operations |-> IF v.opsKey = "list" THEN MapSeq(OpIdealToDict, v.ops) ELSE <<>>, NextMarker |-> v.marker]
StateFromDict(w)   == [operations |-> IF w.OperationsKey = "list" /\ Len(w.Operations) > 0 THEN MapSeq(OpFromDict, w.Operations) ELSE <<>>,
                       next_marker |-> Get(w.NextMarker)]
StateExpect(v)     == [operations |-> IF v.opsKey = "list" THEN v.ops ELSE <<>>, next_marker |-> Get(v.marker)]
CkptWire(v)        == [CheckpointToken |-> v.token,
                       NewExecutionState |-> IF v.nes = "dict" THEN StateWire(v)
                                             ELSE [has |-> v.nes = "emptydict", OperationsKey |-> "nokey", Operations |-> <<>>, NextMarker |-> "nokey"]]
NesNonEmpty(w)     == w.has /\ (w.OperationsKey # "nokey" \/ w.NextMarker # "nokey")
CkptFromDict(w)    == [checkpoint_token |-> GetD(w.CheckpointToken, "rempty"),
                       new_execution_state |-> IF NesNonEmpty(w.NewExecutionState) THEN StateFromDict(w.NewExecutionState)
                                               ELSE [operations |-> <<>>, next_marker |-> "absent"]]
CkptExpect(v)      == [checkpoint_token |-> IF v.token = "nokey" THEN "rempty" ELSE v.token,
                       new_execution_state |-> IF v.nes = "dict" THEN StateExpect(v) ELSE [operations |-> <<>>, next_marker |-> "absent"]]

-----------------------------------------------------------------------------
(* OperationUpdate.create_* factories (433-698).  Arguments not taken by a factory are "na". *)
NoArgs == [operation_id |-> "na", parent_id |-> "na", name |-> "na", payload |-> "na", error |-> NoErr, sub_type |-> "na",
           context_options |-> NoCtxO, callback_options |-> NoCbO, delay |-> "na",
           chained_invoke_options |-> NoInvO, wait_options |-> NoWaitO]
BaseUpd(a, ty, st, ac) ==
  [operation_id |-> a.operation_id, operation_type |-> ty, action |-> ac, parent_id |-> a.parent_id, name |-> a.name,
   sub_type |-> st, payload |-> "absent", error |-> NoErr, context_options |-> NoCtxO, step_options |-> NoStepO,
   wait_options |-> NoWaitO, callback_options |-> NoCbO, chained_invoke_options |-> NoInvO]
ExecUpd(ac) == [BaseUpd(NoArgs, "EXECUTION", "absent", ac) EXCEPT !.operation_id = "val", !.parent_id = "absent", !.name = "absent"]
DelayOpt(a) == [p |-> TRUE, next_attempt_delay_seconds |-> a.delay]
Create(f, a) ==
  CASE f = "create_callback" -> [BaseUpd(a, "CALLBACK", "Callback", "START") EXCEPT !.callback_options = a.callback_options]
    [] f = "create_context_start" -> BaseUpd(a, "CONTEXT", a.sub_type, "START")
    [] f = "create_context_succeed" -> [BaseUpd(a, "CONTEXT", a.sub_type, "SUCCEED") EXCEPT !.payload = a.payload, !.context_options = a.context_options]
    [] f = "create_context_fail" -> [BaseUpd(a, "CONTEXT", a.sub_type, "FAIL") EXCEPT !.error = a.error]
    [] f = "create_execution_succeed" -> [ExecUpd("SUCCEED") EXCEPT !.payload = a.payload]
    [] f = "create_execution_fail" -> [ExecUpd("FAIL") EXCEPT !.error = a.error]
    [] f = "create_step_succeed" -> [BaseUpd(a, "STEP", "Step", "SUCCEED") EXCEPT !.payload = a.payload]
    [] f = "create_step_fail" -> [BaseUpd(a, "STEP", "Step", "FAIL") EXCEPT !.error = a.error]
    [] f = "create_step_start" -> BaseUpd(a, "STEP", "Step", "START")
    [] f = "create_step_retry" -> [BaseUpd(a, "STEP", "Step", "RETRY") EXCEPT !.error = a.error, !.step_options = DelayOpt(a)]
    [] f = "create_invoke_start" -> [BaseUpd(a, "CHAINED_INVOKE", "ChainedInvoke", "START") EXCEPT !.payload = a.payload,
                                                                     !.chained_invoke_options = a.chained_invoke_options]
    [] f = "create_wait_for_condition_start" -> BaseUpd(a, "STEP", "WaitForCondition", "START")
    [] f = "create_wait_for_condition_succeed" -> [BaseUpd(a, "STEP", "WaitForCondition", "SUCCEED") EXCEPT !.payload = a.payload]
    [] f = "create_wait_for_condition_retry" -> [BaseUpd(a, "STEP", "WaitForCondition", "RETRY") EXCEPT !.payload = a.payload, !.step_options = DelayOpt(a)]
    [] f = "create_wait_for_condition_fail" -> [BaseUpd(a, "STEP", "WaitForCondition", "FAIL") EXCEPT !.error = a.error]
    [] f = "create_wait_start" -> [BaseUpd(a, "WAIT", "Wait", "START") EXCEPT !.wait_options = a.wait_options]

(* an option given to the factory is carried by the wire form: same value; an absent or empty optional string may be omitted *)
Carried(wv, v)  == IF v \in {"absent", "empty"} THEN wv \in {"nokey", "none", "empty"} ELSE wv = v
CarriedS(wv, v) == IF v = "absent" THEN wv \in {"nokey", "none"} ELSE wv = v
CarryLost(f, a) ==
  LET w == UpdToDict(Create(f, a)) IN
    {"operation_id" : z \in IF a.operation_id # "na" /\ w.Id # a.operation_id THEN {1} ELSE {}}
    \cup {"parent_id" : z \in IF a.parent_id # "na" /\ ~Carried(w.ParentId, a.parent_id) THEN {1} ELSE {}}
    \cup {"name" : z \in IF a.name # "na" /\ ~Carried(w.Name, a.name) THEN {1} ELSE {}}
    \cup {"payload" : z \in IF a.payload # "na" /\ ~Carried(w.Payload, a.payload) THEN {1} ELSE {}}
    \cup {"sub_type" : z \in IF a.sub_type # "na" /\ w.SubType # a.sub_type THEN {1} ELSE {}}
    \cup {"error" : z \in IF a.error.p /\ ~(w.Error.has /\ CarriedS(w.Error.ErrorMessage, a.error.message)
                                          /\ CarriedS(w.Error.ErrorType, a.error.type) /\ CarriedS(w.Error.ErrorData, a.error.data)
                                          /\ CarriedS(w.Error.StackTrace, a.error.stack_trace)) THEN {1} ELSE {}}
    \cup {"context_options" : z \in IF a.context_options.p /\ ~(w.ContextOptions.has
                                          /\ w.ContextOptions.ReplayChildren = a.context_options.replay_children) THEN {1} ELSE {}}
    \cup {"callback_options" : z \in IF a.callback_options.p /\ ~(w.CallbackOptions.has
                                          /\ w.CallbackOptions.TimeoutSeconds = a.callback_options.timeout_seconds
                                          /\ w.CallbackOptions.HeartbeatTimeoutSeconds = a.callback_options.heartbeat_timeout_seconds) THEN {1} ELSE {}}
    \cup {"next_attempt_delay_seconds" : z \in IF a.delay # "na" /\ ~(w.StepOptions.has
                                          /\ w.StepOptions.NextAttemptDelaySeconds = a.delay) THEN {1} ELSE {}}
    \cup {"chained_invoke_options" : z \in IF a.chained_invoke_options.p /\ ~(w.ChainedInvokeOptions.has
                                          /\ w.ChainedInvokeOptions.FunctionName = a.chained_invoke_options.function_name
                                          /\ CarriedS(w.ChainedInvokeOptions.TenantId, a.chained_invoke_options.tenant_id)) THEN {1} ELSE {}}
    \cup {"wait_options" : z \in IF a.wait_options.p /\ ~(w.WaitOptions.has
                                          /\ w.WaitOptions.WaitSeconds = a.wait_options.wait_seconds) THEN {1} ELSE {}}

-----------------------------------------------------------------------------
(* Flattening: an instance becomes a sequence of <<path, leaf token>> pairs (a sequence, not a function: TLC
   concatenates sequences without re-sorting).  Presence of a nested object is the
   pseudo-leaf "obj"/"noobj" at the object's own path; it is NOT compared (carve-out 3: an absent details
   object and one whose every leaf is absent are the same flattened value). *)
One(c, s)  == IF c THEN {s} ELSE {}
EmptyFn    == <<>>
Pres(b)    == IF b THEN "obj" ELSE "noobj"
ErrLeaves(pf, e) == << <<pf \o "message", e.message>>, <<pf \o "type", e.type>>, <<pf \o "data", e.data>>,
                    <<pf \o "stack_trace", e.stack_trace>> >>
ErrFlat(nm, e)   == << <<nm, Pres(e.p)>> >> \o ErrLeaves(nm \o ".", e)
CtxOLeaves(pf, o)  == << <<pf \o "replay_children", o.replay_children>> >>
StepOLeaves(pf, o) == << <<pf \o "next_attempt_delay_seconds", o.next_attempt_delay_seconds>> >>
WaitOLeaves(pf, o) == << <<pf \o "wait_seconds", o.wait_seconds>> >>
CbOLeaves(pf, o)   == << <<pf \o "timeout_seconds", o.timeout_seconds>>, <<pf \o "heartbeat_timeout_seconds", o.heartbeat_timeout_seconds>> >>
InvOLeaves(pf, o)  == << <<pf \o "function_name", o.function_name>>, <<pf \o "tenant_id", o.tenant_id>> >>
OptsFlat(u) ==
  << <<"context_options", Pres(u.context_options.p)>> >> \o CtxOLeaves("context_options.", u.context_options)
  \o << <<"wait_options", Pres(u.wait_options.p)>> >> \o WaitOLeaves("wait_options.", u.wait_options)
  \o << <<"callback_options", Pres(u.callback_options.p)>> >> \o CbOLeaves("callback_options.", u.callback_options)
  \o << <<"chained_invoke_options", Pres(u.chained_invoke_options.p)>> >> \o InvOLeaves("chained_invoke_options.", u.chained_invoke_options)
UpdFlat(u) ==
  << <<"operation_id", u.operation_id>>, <<"operation_type", u.operation_type>>, <<"action", u.action>>,
  <<"parent_id", u.parent_id>>, <<"name", u.name>>, <<"sub_type", u.sub_type>>, <<"payload", u.payload>> >>
  \o ErrFlat("error", u.error) \o OptsFlat(u)
  \o << <<"step_options", Pres(u.step_options.p)>> >> \o StepOLeaves("step_options.", u.step_options)
ArgsFlat(a) ==
  << <<"operation_id", a.operation_id>>, <<"parent_id", a.parent_id>>, <<"name", a.name>>, <<"payload", a.payload>>,
  <<"sub_type", a.sub_type>>, <<"delay", a.delay>> >> \o ErrFlat("error", a.error) \o OptsFlat(a)

OpFlat(pf, o) ==
  << <<pf \o "operation_id", o.operation_id>>, <<pf \o "operation_type", o.operation_type>>, <<pf \o "status", o.status>>,
  <<pf \o "parent_id", o.parent_id>>, <<pf \o "name", o.name>>,
  <<pf \o "start_timestamp", o.start_timestamp>>, <<pf \o "end_timestamp", o.end_timestamp>>, <<pf \o "sub_type", o.sub_type>>,
  <<pf \o "execution_details", Pres(o.execution_details.p)>>,
  <<pf \o "execution_details.input_payload", o.execution_details.input_payload>>,
  <<pf \o "context_details", Pres(o.context_details.p)>>,
  <<pf \o "context_details.replay_children", o.context_details.replay_children>>,
  <<pf \o "context_details.result", o.context_details.result>> >>
  \o ErrFlat(pf \o "context_details.error", o.context_details.error)
  \o << <<pf \o "step_details", Pres(o.step_details.p)>>,
  <<pf \o "step_details.attempt", o.step_details.attempt>>,
  <<pf \o "step_details.next_attempt_timestamp", o.step_details.next_attempt_timestamp>>,
  <<pf \o "step_details.result", o.step_details.result>> >>
  \o ErrFlat(pf \o "step_details.error", o.step_details.error)
  \o << <<pf \o "wait_details", Pres(o.wait_details.p)>>,
  <<pf \o "wait_details.scheduled_end_timestamp", o.wait_details.scheduled_end_timestamp>>,
  <<pf \o "callback_details", Pres(o.callback_details.p)>>,
  <<pf \o "callback_details.callback_id", o.callback_details.callback_id>>,
  <<pf \o "callback_details.result", o.callback_details.result>> >>
  \o ErrFlat(pf \o "callback_details.error", o.callback_details.error)
  \o << <<pf \o "chained_invoke_details", IF o.chained_invoke_details = RawInv THEN "rawdict" ELSE Pres(o.chained_invoke_details.p)>>,
  <<pf \o "chained_invoke_details.result", IF o.chained_invoke_details = RawInv THEN "absent" ELSE o.chained_invoke_details.result>> >>
  \o ErrFlat(pf \o "chained_invoke_details.error", o.chained_invoke_details.error)

RECURSIVE OpsFlatFrom(_, _, _)
OpsFlatFrom(pf, s, i) == IF i > Len(s) THEN EmptyFn
                         ELSE OpFlat(pf \o ToString(i - 1) \o ".", s[i]) \o OpsFlatFrom(pf, s, i + 1)
OpsFlat(pf, s) == << <<pf \o "len", ToString(Len(s))>> >> \o OpsFlatFrom(pf, s, 1)
OutFlat(o)   == << <<"status", o.status>>, <<"result", o.result>> >> \o ErrFlat("error", o.error)
IesFlat(pf, s) == << <<pf \o "next_marker", s.next_marker>> >> \o OpsFlat(pf \o "operations.", s.operations)
InFlat(v)    == << <<"durable_execution_arn", v.durable_execution_arn>>, <<"checkpoint_token", v.checkpoint_token>> >>
                \o IesFlat("initial_execution_state.", v.initial_execution_state)
StateFlat(pf, s) == << <<pf \o "next_marker", s.next_marker>> >> \o OpsFlat(pf \o "operations.", s.operations)
CkptFlat(c)  == << <<"checkpoint_token", c.checkpoint_token>> >> \o StateFlat("new_execution_state.", c.new_execution_state)
SrcFlat(v)   == << <<"opsKey", v.opsKey>>, <<"marker", v.marker>>, <<"token", v.token>>, <<"nes", v.nes>> >> \o OpsFlat("ops.", v.ops)

(* wire dictionaries, flattened the same way: a nested dict's own path carries "dict"/"nokey" *)
WHas(b) == IF b THEN "dict" ELSE "nokey"
WErrFlat(nm, w) == << <<nm, WHas(w.has)>>, <<nm \o ".ErrorMessage", w.ErrorMessage>>, <<nm \o ".ErrorType", w.ErrorType>>,
                   <<nm \o ".ErrorData", w.ErrorData>>, <<nm \o ".StackTrace", w.StackTrace>> >>
WCtxOFlat(nm, w)  == << <<nm, WHas(w.has)>>, <<nm \o ".ReplayChildren", w.ReplayChildren>> >>
WStepOFlat(nm, w) == << <<nm, WHas(w.has)>>, <<nm \o ".NextAttemptDelaySeconds", w.NextAttemptDelaySeconds>> >>
WWaitOFlat(nm, w) == << <<nm, WHas(w.has)>>, <<nm \o ".WaitSeconds", w.WaitSeconds>> >>
WCbOFlat(nm, w)   == << <<nm, WHas(w.has)>>, <<nm \o ".TimeoutSeconds", w.TimeoutSeconds>>, <<nm \o ".HeartbeatTimeoutSeconds", w.HeartbeatTimeoutSeconds>> >>
WInvOFlat(nm, w)  == << <<nm, WHas(w.has)>>, <<nm \o ".FunctionName", w.FunctionName>>, <<nm \o ".TenantId", w.TenantId>> >>
WUpdFlat(w) ==
  << <<"Id", w.Id>>, <<"Type", w.Type>>, <<"Action", w.Action>>, <<"ParentId", w.ParentId>>, <<"Name", w.Name>>,
  <<"SubType", w.SubType>>, <<"Payload", w.Payload>> >> \o WErrFlat("Error", w.Error)
  \o WCtxOFlat("ContextOptions", w.ContextOptions) \o WStepOFlat("StepOptions", w.StepOptions)
  \o WWaitOFlat("WaitOptions", w.WaitOptions) \o WCbOFlat("CallbackOptions", w.CallbackOptions)
  \o WInvOFlat("ChainedInvokeOptions", w.ChainedInvokeOptions)
WOpFlat(pf, w) ==
  << <<pf \o "Id", w.Id>>, <<pf \o "Type", w.Type>>, <<pf \o "Status", w.Status>>, <<pf \o "ParentId", w.ParentId>>,
  <<pf \o "Name", w.Name>>, <<pf \o "StartTimestamp", w.StartTimestamp>>, <<pf \o "EndTimestamp", w.EndTimestamp>>,
  <<pf \o "SubType", w.SubType>>,
  <<pf \o "ExecutionDetails", WHas(w.ExecutionDetails.has)>>, <<pf \o "ExecutionDetails.InputPayload", w.ExecutionDetails.InputPayload>>,
  <<pf \o "ContextDetails", WHas(w.ContextDetails.has)>>, <<pf \o "ContextDetails.ReplayChildren", w.ContextDetails.ReplayChildren>>,
  <<pf \o "ContextDetails.Result", w.ContextDetails.Result>> >> \o WErrFlat(pf \o "ContextDetails.Error", w.ContextDetails.Error)
  \o << <<pf \o "StepDetails", WHas(w.StepDetails.has)>>, <<pf \o "StepDetails.Attempt", w.StepDetails.Attempt>>,
  <<pf \o "StepDetails.NextAttemptTimestamp", w.StepDetails.NextAttemptTimestamp>>,
  <<pf \o "StepDetails.Result", w.StepDetails.Result>> >> \o WErrFlat(pf \o "StepDetails.Error", w.StepDetails.Error)
  \o << <<pf \o "WaitDetails", WHas(w.WaitDetails.has)>>, <<pf \o "WaitDetails.ScheduledEndTimestamp", w.WaitDetails.ScheduledEndTimestamp>>,
  <<pf \o "CallbackDetails", WHas(w.CallbackDetails.has)>>, <<pf \o "CallbackDetails.CallbackId", w.CallbackDetails.CallbackId>>,
  <<pf \o "CallbackDetails.Result", w.CallbackDetails.Result>> >> \o WErrFlat(pf \o "CallbackDetails.Error", w.CallbackDetails.Error)
  \o << <<pf \o "ChainedInvokeDetails", WHas(w.ChainedInvokeDetails.has)>>, <<pf \o "ChainedInvokeDetails.Result", w.ChainedInvokeDetails.Result>> >>
  \o WErrFlat(pf \o "ChainedInvokeDetails.Error", w.ChainedInvokeDetails.Error)
RECURSIVE WOpsFlatFrom(_, _, _)
WOpsFlatFrom(pf, s, i) == IF i > Len(s) THEN EmptyFn
                          ELSE WOpFlat(pf \o ToString(i - 1) \o ".", s[i]) \o WOpsFlatFrom(pf, s, i + 1)
WStateFlat(pf, w) == << <<pf \o "Operations", w.OperationsKey>>, <<pf \o "Operations.len", ToString(Len(w.Operations))>> >>
                     \o WOpsFlatFrom(pf \o "Operations.", w.Operations, 1) \o << <<pf \o "NextMarker", w.NextMarker>> >>
WOutFlat(w) == << <<"Status", w.Status>>, <<"Result", w.Result>> >> \o WErrFlat("Error", w.Error)
WInFlat(w)  == << <<"DurableExecutionArn", w.DurableExecutionArn>>, <<"CheckpointToken", w.CheckpointToken>>,
               <<"InitialExecutionState", WHas(w.InitialExecutionState.has)>> >> \o WStateFlat("InitialExecutionState.", w.InitialExecutionState)
WCkptFlat(w) == << <<"CheckpointToken", w.CheckpointToken>>, <<"NewExecutionState", WHas(w.NewExecutionState.has)>> >>
                \o WStateFlat("NewExecutionState.", w.NewExecutionState)

(* ~ : equality of flattened leaves modulo exactly the stated carve-outs *)
Norm(v) == CASE v = "empty" -> "absent"                    \* empty optional string == absent ("rempty" is NOT normalised)
             [] v \in {"subms", "submsT"} -> "S"           \* millisecond truncation
             [] v \in {"tzoff", "tzoffU"} -> "Z"           \* same instant, other tzinfo
             [] OTHER -> v
Lost(a, b) == {a[j][1] : j \in {i \in 1..Len(a) :
                   \/ a[i][2] \notin {"obj", "noobj"} /\ (i > Len(b) \/ b[i][1] # a[i][1] \/ Norm(a[i][2]) # Norm(b[i][2]))
                   \/ i <= Len(b) /\ b[i][2] = "rawdict"}}          \* a value of the wrong type where an object or None belongs

-----------------------------------------------------------------------------
(* The named deviations of the code, characterised on the INSTANCE (not on the computed round trip).
   K1 context-details-dropped : Operation.to_dict emits only Result for ContextDetails
   K2 epoch0-timestamp        : `if ms := ...` / `if ts := ...` skip a millisecond value of 0
   K3 ms-rounding             : int(dt.timestamp() * 1000) lands 1 ms toward zero for some ms-aligned instants
   K4 far-future-us-drift     : fromtimestamp(ms / 1000) is 1 us off the exact millisecond for some instants >= 2^33 s
   K5 chained-invoke-empty-dict : Operation.from_dict leaves the raw {} in chained_invoke_details when the wire dict is empty *)
ErrSurvivors(pf, e) == {pf \o k : k \in {j \in {"message", "type", "data", "stack_trace"} : Norm(e[j]) # "absent"}}
OpK1(pf, o) == IF o.context_details.p
               THEN One(o.context_details.replay_children = "T", pf \o "context_details.replay_children")
                    \cup ErrSurvivors(pf \o "context_details.error.", o.context_details.error)
               ELSE {}
OpTs(pf, o, tok) == One(o.start_timestamp = tok, pf \o "start_timestamp") \cup One(o.end_timestamp = tok, pf \o "end_timestamp")
                    \cup One(o.step_details.next_attempt_timestamp = tok, pf \o "step_details.next_attempt_timestamp")
                    \cup One(o.wait_details.scheduled_end_timestamp = tok, pf \o "wait_details.scheduled_end_timestamp")
OpK5(pf, o, vals) == One(o.chained_invoke_details.p /\ o.chained_invoke_details.result \in vals /\ ~o.chained_invoke_details.error.p,
                         pf \o "chained_invoke_details")
OpsK5(pf, s, vals) == UNION {OpK5(pf \o ToString(i - 1) \o ".", s[i], vals) : i \in 1..Len(s)}
OpsK1(pf, s)      == UNION {OpK1(pf \o ToString(i - 1) \o ".", s[i]) : i \in 1..Len(s)}
OpsTs(pf, s, tok) == UNION {OpTs(pf \o ToString(i - 1) \o ".", s[i], tok) : i \in 1..Len(s)}

NoLoss == [dict |-> {}, json |-> {}, idict |-> {}, ijson |-> {}, carry |-> {}]
K1of(x) == CASE x.cls = "Operation" -> OpK1("", x.v)
             [] x.cls = "InvocationInput" -> OpsK1("initial_execution_state.operations.", x.v.initial_execution_state.operations)
             [] OTHER -> {}
TsOf(x, tok) == CASE x.cls = "Operation" -> OpTs("", x.v, tok)
             [] x.cls = "InvocationInput" -> OpsTs("initial_execution_state.operations.", x.v.initial_execution_state.operations, tok)
             [] OTHER -> {}
K5of(x, vals) == CASE x.cls = "Operation" -> OpK5("", x.v, vals)
             [] x.cls = "InvocationInput" -> OpsK5("initial_execution_state.operations.", x.v.initial_execution_state.operations, vals)
             [] x.cls \in {"StateOutput", "CheckpointUpdatedExecutionState"} -> IF x.v.opsKey = "list" THEN OpsK5("operations.", x.v.ops, vals) ELSE {}
             [] x.cls = "CheckpointOutput" -> IF x.v.opsKey = "list" /\ x.v.nes = "dict" THEN OpsK5("new_execution_state.operations.", x.v.ops, vals) ELSE {}
             [] OTHER -> {}
K5enc(x) == K5of(x, {"absent", "empty"})     \* the SDK's to_dict omits a falsy Result
K5dec(x) == K5of(x, {"absent"})              \* an exact encoder omits only None
K2of(x) == TsOf(x, "epoch0")
K3of(x) == TsOf(x, "unlucky")
K4of(x) == TsOf(x, "drift")
Expected(x) == IF Fixed THEN NoLoss                    \* repaired code: nothing may be lost, there is no Known escape
               ELSE IF x.cls \in {"StateOutput", "CheckpointUpdatedExecutionState", "CheckpointOutput"}
               THEN [NoLoss EXCEPT !.idict = K5dec(x)]          \* decode-only classes
               ELSE
               [dict |-> K1of(x) \cup K5enc(x), json |-> K1of(x) \cup K2of(x) \cup K3of(x) \cup K4of(x) \cup K5enc(x),
                idict |-> K5dec(x), ijson |-> K2of(x) \cup K4of(x) \cup K5dec(x), carry |-> {}]

(* The losses the transcribed code actually has *)
DecodeGot(x) == IF x.cls = "CheckpointOutput" THEN CkptFlat(CkptFromDict(CkptWire(x.v)))
                ELSE StateFlat("", StateFromDict(StateWire(x.v)))
DecodeExp(x) == IF x.cls = "CheckpointOutput" THEN CkptFlat(CkptExpect(x.v)) ELSE StateFlat("", StateExpect(x.v))
Losses(x) ==
  LET v == x.v IN
  CASE x.cls = "ErrorObject" -> [NoLoss EXCEPT !.dict = Lost(ErrLeaves("", v), ErrLeaves("", ErrFromDict(ErrToDict(v))))]
    [] x.cls = "ContextOptions" -> [NoLoss EXCEPT !.dict = Lost(CtxOLeaves("", v), CtxOLeaves("", CtxOFromDict(CtxOToDict(v))))]
    [] x.cls = "StepOptions" -> [NoLoss EXCEPT !.dict = Lost(StepOLeaves("", v), StepOLeaves("", StepOFromDict(StepOToDict(v))))]
    [] x.cls = "WaitOptions" -> [NoLoss EXCEPT !.dict = Lost(WaitOLeaves("", v), WaitOLeaves("", WaitOFromDict(WaitOToDict(v))))]
    [] x.cls = "CallbackOptions" -> [NoLoss EXCEPT !.dict = Lost(CbOLeaves("", v), CbOLeaves("", CbOFromDict(CbOToDict(v))))]
    [] x.cls = "ChainedInvokeOptions" -> [NoLoss EXCEPT !.dict = Lost(InvOLeaves("", v), InvOLeaves("", InvOFromDict(InvOToDict(v))))]
    [] x.cls = "OperationUpdate" -> [NoLoss EXCEPT !.dict = Lost(UpdFlat(v), UpdFlat(UpdFromDict(UpdToDict(v)))),
                                                  !.idict = Lost(UpdFlat(v), UpdFlat(UpdFromDict(UpdIdealToDict(v))))]
    [] x.cls = "Operation" -> [NoLoss EXCEPT !.dict = Lost(OpFlat("", v), OpFlat("", OpFromDict(OpToDict(v)))),
                                            !.json = Lost(OpFlat("", v), OpFlat("", OpFromJsonDict(OpToJsonDict(v)))),
                                            !.idict = Lost(OpFlat("", v), OpFlat("", OpFromDict(OpIdealToDict(v)))),
                                            !.ijson = Lost(OpFlat("", v), OpFlat("", OpFromJsonDict(OpIdealToJsonDict(v))))]
    [] x.cls = "InvocationOutput" -> [NoLoss EXCEPT !.dict = Lost(OutFlat(v), OutFlat(OutFromDict(OutToDict(v))))]
    [] x.cls = "InvocationInput" -> [NoLoss EXCEPT !.dict = Lost(InFlat(v), InFlat(InFromDict(InToDict(v, OpToDict), OpFromDict))),
                                                  !.json = Lost(InFlat(v), InFlat(InFromDict(InToDict(v, OpToJsonDict), OpFromJsonDict))),
                                                  !.idict = Lost(InFlat(v), InFlat(InFromDict(InToDict(v, OpIdealToDict), OpFromDict))),
                                                  !.ijson = Lost(InFlat(v), InFlat(InFromDict(InToDict(v, OpIdealToJsonDict), OpFromJsonDict)))]
    [] x.cls \in {"StateOutput", "CheckpointUpdatedExecutionState", "CheckpointOutput"} ->
                                     [NoLoss EXCEPT !.idict = Lost(DecodeExp(x), DecodeGot(x))]
    [] x.cls = "Factory" -> [NoLoss EXCEPT !.carry = CarryLost(x.f, v)]

Kinds == {"dict", "json", "idict", "ijson", "carry"}
UnionOf(l)       == UNION {l[k] : k \in Kinds}
LosslessL(l)     == \A k \in Kinds : l[k] = {}
OnlyKnownL(l, e) == \A k \in Kinds : l[k] \subseteq e[k]
KnownL(l, e)     == ~LosslessL(l) /\ OnlyKnownL(l, e)
Lossless(x)   == LosslessL(Losses(x))                    \* FromDict(ToDict(x)) ~ x, FromJsonDict(ToJsonDict(x)) ~ x, ...
Known(x)      == KnownL(Losses(x), Expected(x))          \* something is lost, and only what a named scenario explains
UpdateCarriesOptions(x) == Losses(x).carry = {}
Sigs(x) == LET l == Losses(x) a == UnionOf(l) IN
   One(a \cap K1of(x) # {}, "context-details-dropped") \cup One(a \cap K2of(x) # {}, "epoch0-timestamp")
   \cup One(a \cap K3of(x) # {}, "ms-rounding") \cup One(a \cap K4of(x) # {}, "far-future-us-drift")
   \cup One(a \cap K5enc(x) # {}, "chained-invoke-empty-dict")
   \cup One(~OnlyKnownL(l, Expected(x)), "UNEXPECTED")

(* INVARIANTS (each evaluates the round trips once) *)
Inv_LosslessOrKnown == LET l == Losses(inst) IN LosslessL(l) \/ KnownL(l, Expected(inst))     \* = Lossless(inst) \/ Known(inst)
Inv_Lossless == Fixed => Lossless(inst)                    \* the repaired code: Lossless without any escape
Inv_UpdateCarriesOptions == UpdateCarriesOptions(inst)
Inv_KnownExact == LET l == Losses(inst) e == Expected(inst) IN \A k \in Kinds : l[k] = e[k]   \* the named scenarios characterise the losses exactly
(* all three at once, for the quick tier *)
Inv_All == LET l == Losses(inst) e == Expected(inst) IN
             /\ LosslessL(l) \/ KnownL(l, e)
             /\ l.carry = {}
             /\ \A k \in Kinds : l[k] = e[k]
(* probes: each must be VIOLATED, i.e. the named scenario is still reachable in the transcription *)
Probe_NoContextDetailsDropped == "context-details-dropped" \notin Sigs(inst)
Probe_NoEpoch0Timestamp       == "epoch0-timestamp" \notin Sigs(inst)
Probe_NoMsRounding            == "ms-rounding" \notin Sigs(inst)
Probe_NoFarFutureDrift        == "far-future-us-drift" \notin Sigs(inst)
Probe_NoChainedInvokeEmptyDict == "chained-invoke-empty-dict" \notin Sigs(inst)
Probe_NothingLost             == Lossless(inst)

-----------------------------------------------------------------------------
(* DOMAIN.  The codecs treat every field independently, so the instance space is covered by slices:
   every enum combination; every presence/emptiness vector of the scalar fields; every nested object with
   its full leaf domain on its own; and the presence vectors of all nested objects together (reduced leaves). *)
Inst(c, s, V) == {[cls |-> c, slice |-> s, f |-> "", v |-> v] : v \in V}

UpdBase == [operation_id |-> "val", operation_type |-> "STEP", action |-> "START", parent_id |-> "absent", name |-> "absent",
            sub_type |-> "absent", payload |-> "absent", error |-> NoErr, context_options |-> NoCtxO, step_options |-> NoStepO,
            wait_options |-> NoWaitO, callback_options |-> NoCbO, chained_invoke_options |-> NoInvO]
NoOpts == [context_options |-> NoCtxO, step_options |-> NoStepO, wait_options |-> NoWaitO, callback_options |-> NoCbO,
           chained_invoke_options |-> NoInvO]
OptCombos == {NoOpts}
   \cup {[NoOpts EXCEPT !.context_options = o] : o \in CtxODom} \cup {[NoOpts EXCEPT !.step_options = o] : o \in StepODom}
   \cup {[NoOpts EXCEPT !.wait_options = o] : o \in WaitODom} \cup {[NoOpts EXCEPT !.callback_options = o] : o \in CbODom}
   \cup {[NoOpts EXCEPT !.chained_invoke_options = o] : o \in InvODom}
   \cup {[context_options |-> [p |-> TRUE, replay_children |-> "T"], step_options |-> [p |-> TRUE, next_attempt_delay_seconds |-> "pos"],
          wait_options |-> [p |-> TRUE, wait_seconds |-> "pos"],
          callback_options |-> [p |-> TRUE, timeout_seconds |-> "pos", heartbeat_timeout_seconds |-> "pos"],
          chained_invoke_options |-> [p |-> TRUE, function_name |-> "val", tenant_id |-> "val"]],
         [context_options |-> [p |-> TRUE, replay_children |-> "F"], step_options |-> [p |-> TRUE, next_attempt_delay_seconds |-> "zero"],
          wait_options |-> [p |-> TRUE, wait_seconds |-> "zero"],
          callback_options |-> [p |-> TRUE, timeout_seconds |-> "zero", heartbeat_timeout_seconds |-> "zero"],
          chained_invoke_options |-> [p |-> TRUE, function_name |-> "rempty", tenant_id |-> "empty"]]}
UpdEnum == {[UpdBase EXCEPT !.operation_type = t, !.action = a, !.sub_type = s] : t \in Types, a \in Actions, s \in SubTypes \cup {"absent"}}
UpdErr  == {[UpdBase EXCEPT !.error = e, !.payload = pl] : e \in ErrFull, pl \in OptStr}
UpdPres == {[UpdBase EXCEPT !.operation_id = i, !.parent_id = pa, !.name = n, !.payload = pl, !.error = e, !.sub_type = s,
                            !.context_options = oc.context_options, !.step_options = oc.step_options, !.wait_options = oc.wait_options,
                            !.callback_options = oc.callback_options, !.chained_invoke_options = oc.chained_invoke_options]
            : i \in ReqStr, pa \in OptStr, n \in OptStr, pl \in OptStr, e \in ErrSmall, s \in {"absent", "Map"}, oc \in OptCombos}

OpBase == [operation_id |-> "val", operation_type |-> "STEP", status |-> "SUCCEEDED", parent_id |-> "absent", name |-> "absent",
           start_timestamp |-> "absent", end_timestamp |-> "absent", sub_type |-> "absent", execution_details |-> NoExec,
           context_details |-> NoCtx, step_details |-> NoStep, wait_details |-> NoWait, callback_details |-> NoCb,
           chained_invoke_details |-> NoInv]
OpEnum == {[OpBase EXCEPT !.operation_type = t, !.status = st, !.sub_type = s] : t \in Types, st \in Statuses, s \in SubTypes \cup {"absent"}}
OpHead == {[OpBase EXCEPT !.operation_id = i, !.parent_id = pa, !.name = n, !.start_timestamp = a, !.end_timestamp = b, !.sub_type = s]
           : i \in ReqStr, pa \in OptStr, n \in OptStr, a \in TsDom, b \in TsDom, s \in {"absent", "Step"}}
ExecDom == [p : {TRUE}, input_payload : OptStr]
CtxDom  == [p : {TRUE}, replay_children : Bools, result : OptStr, error : ErrFull]
StepDom == [p : {TRUE}, attempt : Ints, next_attempt_timestamp : TsDom, result : OptStr, error : ErrFull]
WaitDom == [p : {TRUE}, scheduled_end_timestamp : TsDom]
CbDom   == [p : {TRUE}, callback_id : ReqStr, result : OptStr, error : ErrFull]
InvDom  == [p : {TRUE}, result : OptStr, error : ErrFull]
OpDet == {[OpBase EXCEPT !.execution_details = d] : d \in ExecDom} \cup {[OpBase EXCEPT !.context_details = d] : d \in CtxDom}
         \cup {[OpBase EXCEPT !.step_details = d] : d \in StepDom} \cup {[OpBase EXCEPT !.wait_details = d] : d \in WaitDom}
         \cup {[OpBase EXCEPT !.callback_details = d] : d \in CbDom} \cup {[OpBase EXCEPT !.chained_invoke_details = d] : d \in InvDom}
ExecR == {NoExec, [p |-> TRUE, input_payload |-> "absent"], [p |-> TRUE, input_payload |-> "val"]}
CtxR  == {NoCtx, [p |-> TRUE, replay_children |-> "F", result |-> "absent", error |-> NoErr],
          [p |-> TRUE, replay_children |-> "T", result |-> "val", error |-> ErrFullV]}
StepR == {NoStep, [p |-> TRUE, attempt |-> "zero", next_attempt_timestamp |-> "absent", result |-> "absent", error |-> NoErr],
          [p |-> TRUE, attempt |-> "pos", next_attempt_timestamp |-> "aligned", result |-> "val", error |-> ErrFullV],
          [p |-> TRUE, attempt |-> "zero", next_attempt_timestamp |-> "epoch0", result |-> "empty", error |-> ErrAllNone]}
WaitR == {NoWait} \cup [p : {TRUE}, scheduled_end_timestamp : {"absent", "aligned", "epoch0"}]
CbR   == {NoCb, [p |-> TRUE, callback_id |-> "val", result |-> "absent", error |-> NoErr],
          [p |-> TRUE, callback_id |-> "rempty", result |-> "empty", error |-> ErrAllNone],
          [p |-> TRUE, callback_id |-> "val", result |-> "val", error |-> ErrFullV]}
InvR  == {NoInv, [p |-> TRUE, result |-> "absent", error |-> NoErr], [p |-> TRUE, result |-> "val", error |-> ErrFullV],
          [p |-> TRUE, result |-> "empty", error |-> ErrAllNone]}
OpCombo == {[OpBase EXCEPT !.start_timestamp = a, !.execution_details = e, !.context_details = c, !.step_details = s,
                           !.wait_details = w, !.callback_details = cb, !.chained_invoke_details = i]
            : a \in {"absent", "epoch0", "subms"}, e \in ExecR, c \in CtxR, s \in StepR, w \in WaitR, cb \in CbR, i \in InvR}

OpArch == {OpBase,
           [OpBase EXCEPT !.operation_type = "EXECUTION", !.status = "STARTED", !.start_timestamp = "epoch0",
                          !.execution_details = [p |-> TRUE, input_payload |-> "val"]],
           [OpBase EXCEPT !.operation_type = "CONTEXT", !.sub_type = "Map",
                          !.context_details = [p |-> TRUE, replay_children |-> "T", result |-> "val", error |-> ErrFullV]],
           [OpBase EXCEPT !.name = "val", !.start_timestamp = "subms", !.sub_type = "Step",
                          !.step_details = [p |-> TRUE, attempt |-> "pos", next_attempt_timestamp |-> "aligned", result |-> "val", error |-> ErrFullV]],
           [OpBase EXCEPT !.operation_type = "WAIT", !.parent_id = "val", !.end_timestamp = "tzoff",
                          !.wait_details = [p |-> TRUE, scheduled_end_timestamp |-> "unlucky"]],
           [OpBase EXCEPT !.operation_type = "CHAINED_INVOKE", !.status = "STARTED", !.sub_type = "ChainedInvoke",
                          !.chained_invoke_details = [p |-> TRUE, result |-> "absent", error |-> NoErr]]}
OpSeqs == {<<>>} \cup {<<a>> : a \in OpArch} \cup {<<a, b>> : a \in OpArch, b \in OpArch}
OpSeqs1 == {<<>>} \cup {<<a>> : a \in OpArch}
InDom == [durable_execution_arn : ReqStr, checkpoint_token : ReqStr,
          initial_execution_state : [operations : OpSeqs, next_marker : {"empty", "val"}]]
OutDom == [status : InvStatuses, result : OptStr, error : ErrFull]
StateSrc == [ops : OpSeqs, opsKey : {"list"}, marker : {"nokey", "none", "empty", "val"}, token : {"nokey"}, nes : {"dict"}]
            \cup [ops : {<<>>}, opsKey : {"nokey"}, marker : {"nokey", "none", "empty", "val"}, token : {"nokey"}, nes : {"dict"}]
CkptSrc == [ops : {<<>>}, opsKey : {"nokey"}, marker : {"nokey"}, token : {"nokey", "rempty", "val"}, nes : {"nokey", "emptydict"}]
           \cup [ops : OpSeqs1, opsKey : {"list", "nokey"}, marker : {"nokey", "none", "empty", "val"}, token : {"nokey", "rempty", "val"}, nes : {"dict"}]

IdArgs == {[NoArgs EXCEPT !.operation_id = i, !.parent_id = pa, !.name = n] : i \in ReqStr, pa \in OptStr, n \in OptStr}
Payloads == {"empty", "val"}
Factories == {"create_callback", "create_context_start", "create_context_succeed", "create_context_fail", "create_execution_succeed",
              "create_execution_fail", "create_step_succeed", "create_step_fail", "create_step_start", "create_step_retry",
              "create_invoke_start", "create_wait_for_condition_start", "create_wait_for_condition_succeed",
              "create_wait_for_condition_retry", "create_wait_for_condition_fail", "create_wait_start"}
FactoryArgs(f) ==
  CASE f = "create_callback" -> {[a EXCEPT !.callback_options = c] : a \in IdArgs, c \in CbODom}
    [] f = "create_context_start" -> {[a EXCEPT !.sub_type = s] : a \in IdArgs, s \in SubTypes}
    [] f = "create_context_succeed" -> {[a EXCEPT !.sub_type = s, !.payload = pl, !.context_options = c]
                                        : a \in IdArgs, s \in SubTypes, pl \in Payloads, c \in CtxODom \cup {NoCtxO}}
    [] f = "create_context_fail" -> {[a EXCEPT !.sub_type = s, !.error = e] : a \in IdArgs, s \in SubTypes, e \in ErrGiven}
    [] f = "create_execution_succeed" -> {[NoArgs EXCEPT !.payload = pl] : pl \in Payloads}
    [] f = "create_execution_fail" -> {[NoArgs EXCEPT !.error = e] : e \in ErrPresent}
    [] f \in {"create_step_succeed", "create_wait_for_condition_succeed"} -> {[a EXCEPT !.payload = pl] : a \in IdArgs, pl \in Payloads}
    [] f \in {"create_step_fail", "create_wait_for_condition_fail"} -> {[a EXCEPT !.error = e] : a \in IdArgs, e \in ErrGiven}
    [] f \in {"create_step_start", "create_wait_for_condition_start"} -> IdArgs
    [] f = "create_step_retry" -> {[a EXCEPT !.error = e, !.delay = d] : a \in IdArgs, e \in ErrGiven, d \in Ints}
    [] f = "create_wait_for_condition_retry" -> {[a EXCEPT !.payload = pl, !.delay = d] : a \in IdArgs, pl \in Payloads, d \in Ints}
    [] f = "create_invoke_start" -> {[a EXCEPT !.payload = pl, !.chained_invoke_options = o] : a \in IdArgs, pl \in Payloads, o \in InvODom}
    [] f = "create_wait_start" -> {[a EXCEPT !.wait_options = o] : a \in IdArgs, o \in WaitODom}

SliceSet(s) ==
  CASE s = "err" -> Inst("ErrorObject", s, ErrPresent)
    [] s = "opts" -> Inst("ContextOptions", s, CtxODom) \cup Inst("StepOptions", s, StepODom) \cup Inst("WaitOptions", s, WaitODom)
                     \cup Inst("CallbackOptions", s, CbODom) \cup Inst("ChainedInvokeOptions", s, InvODom)
    [] s = "upd_enum" -> Inst("OperationUpdate", s, UpdEnum)
    [] s = "upd_err" -> Inst("OperationUpdate", s, UpdErr)
    [] s = "upd_pres" -> Inst("OperationUpdate", s, UpdPres)
    [] s = "op_enum" -> Inst("Operation", s, OpEnum)
    [] s = "op_head" -> Inst("Operation", s, OpHead)
    [] s = "op_det" -> Inst("Operation", s, OpDet)
    [] s = "op_combo" -> Inst("Operation", s, OpCombo)
    [] s = "out" -> Inst("InvocationOutput", s, OutDom)
    [] s = "inp" -> Inst("InvocationInput", s, InDom)
    [] s = "decode" -> Inst("StateOutput", s, StateSrc) \cup Inst("CheckpointUpdatedExecutionState", s, StateSrc)
                       \cup Inst("CheckpointOutput", s, CkptSrc)
    [] s = "factory" -> UNION {{[cls |-> "Factory", slice |-> s, f |-> f, v |-> a] : a \in FactoryArgs(f)} : f \in Factories}
AllSlices == {"err", "opts", "upd_enum", "upd_err", "upd_pres", "op_enum", "op_head", "op_det", "op_combo", "out", "inp", "decode", "factory"}

-----------------------------------------------------------------------------
(* dump: one JSON line per instance = the instance, the wire forms and the model's prediction *)
Sparse(f, drop) == SelectSeq(f, LAMBDA pr : pr[2] \notin drop)
Diff(f, g)      == {f[i] : i \in {j \in 1..Len(f) : f[j] # g[j]}}
XFlat(x) == LET v == x.v IN
  CASE x.cls = "ErrorObject" -> ErrLeaves("", v)
    [] x.cls = "ContextOptions" -> CtxOLeaves("", v) [] x.cls = "StepOptions" -> StepOLeaves("", v)
    [] x.cls = "WaitOptions" -> WaitOLeaves("", v) [] x.cls = "CallbackOptions" -> CbOLeaves("", v)
    [] x.cls = "ChainedInvokeOptions" -> InvOLeaves("", v)
    [] x.cls = "OperationUpdate" -> UpdFlat(v) [] x.cls = "Operation" -> OpFlat("", v)
    [] x.cls = "InvocationOutput" -> OutFlat(v) [] x.cls = "InvocationInput" -> InFlat(v)
    [] x.cls = "Factory" -> ArgsFlat(v)
    [] OTHER -> SrcFlat(v)
WireOf(x) == LET v == x.v IN
  CASE x.cls = "ErrorObject" -> WErrFlat("", ErrToDict(v))
    [] x.cls = "ContextOptions" -> WCtxOFlat("", CtxOToDict(v)) [] x.cls = "StepOptions" -> WStepOFlat("", StepOToDict(v))
    [] x.cls = "WaitOptions" -> WWaitOFlat("", WaitOToDict(v)) [] x.cls = "CallbackOptions" -> WCbOFlat("", CbOToDict(v))
    [] x.cls = "ChainedInvokeOptions" -> WInvOFlat("", InvOToDict(v))
    [] x.cls = "OperationUpdate" -> WUpdFlat(UpdToDict(v)) [] x.cls = "Operation" -> WOpFlat("", OpToDict(v))
    [] x.cls = "InvocationOutput" -> WOutFlat(OutToDict(v)) [] x.cls = "InvocationInput" -> WInFlat(InToDict(v, OpToDict))
    [] x.cls = "Factory" -> WUpdFlat(UpdToDict(Create(x.f, v)))
    [] x.cls = "CheckpointOutput" -> WCkptFlat(CkptWire(v))
    [] OTHER -> WStateFlat("", StateWire(v))
JWireOf(x) ==
  CASE x.cls = "Operation" -> WOpFlat("", OpToJsonDict(x.v))
    [] x.cls = "InvocationInput" -> WInFlat(InToDict(x.v, OpToJsonDict))
    [] OTHER -> WireOf(x)
Row(x) == LET l == Losses(x) w == WireOf(x) a == UnionOf(l) IN
  [cls |-> x.cls, slice |-> x.slice, f |-> x.f, x |-> Sparse(XFlat(x), {"absent", "noobj", "na"}),
   wire |-> Sparse(w, {"nokey"}), jwire |-> Diff(JWireOf(x), w),
   dict |-> l.dict, json |-> l.json, idict |-> l.idict, ijson |-> l.ijson, carry |-> l.carry,
   sigs |-> One(a \cap K1of(x) # {}, "context-details-dropped") \cup One(a \cap K2of(x) # {}, "epoch0-timestamp")
            \cup One(a \cap K3of(x) # {}, "ms-rounding") \cup One(a \cap K4of(x) # {}, "far-future-us-drift")
            \cup One(a \cap K5enc(x) # {}, "chained-invoke-empty-dict")
            \cup One(~OnlyKnownL(l, Expected(x)), "UNEXPECTED")]

Init     == \E s \in Slices : inst \in SliceSet(s)
InitDump == (\E s \in Slices : inst \in SliceSet(s)) /\ PrintT(ToJson(Row(inst)))
Next     == UNCHANGED inst
=============================================================================
