SPECIFICATION GenSpec
CONSTANTS
  Producers = {"p1"}
  NItems = 2
  Sizes = {400, 700}
  MaxOps = 2
  MaxBytes = 1000
  MayFail = TRUE
  FixedOrder = TRUE
  FixedOversize = TRUE
INVARIANT Emit
INVARIANT ReleaseSound
CHECK_DEADLOCK FALSE
