"""Execution driver: runs one durable *execution* (a sequence of invocations of the real SDK wrapper)
of an interpreted program against ModelBackend under detsched, following a `Scenario`.

Scenario fields (all optional, JSON-able so it can be stored in a replay file):
  seed          : int, drives every random choice
  strategy      : "random" | "pct"
  crash         : {inv_number: step}     crash invocation k at scheduling step s (s may exceed the run: no crash)
  crash_prob    : probability that an invocation gets a random crash point
  faults        : {api_call_number: fault_name}  (global numbering of checkpoint API calls)
  faults_after_apply : [api_call_number...]  fault raised after the backend applied the batch
  paging        : {inv_number: [first_page, page]} | "random"
  resp_page     : page size of checkpoint responses
  empty_pages   : [n, ...] the n-th page fetch returns no operations but a marker; trailing_empty_page: one more empty page at the end
  timer_lag     : seconds by which the backend lags in flipping timers
  api_latency   : virtual seconds a checkpoint API call takes (other threads run meanwhile)
  ext           : {path: [outcome, payload|error]} outcome of external completions (default SUCCEEDED)
  ext_order     : "timers_first" | "ext_first" | "random"
  max_inv       : bound on invocations
  gates         : {gate_name: opens_at_step | "never"}   (function/branch bodies block on their gate)
  scripts       : {inv_number: [choices...]} scripted schedules (replay)
"""
from __future__ import annotations

import gc
import json
import random

from . import detsched as ds
from . import install
from .backend import ModelBackend, FAULTS
from .interp import Recorder, build_handler, path_id


class LambdaCtx:
    aws_request_id = "req"
    log_group_name = None
    log_stream_name = None
    function_name = "f"
    memory_limit_in_mb = "128"
    function_version = "1"
    invoked_function_arn = "arn:aws:lambda:us-east-1:1:function:f"
    tenant_id = None
    client_context = None
    identity = None

    def get_remaining_time_in_millis(self):
        return 100000

    def log(self, msg):
        pass


class _GateStrategyMixin:
    pass


class InvocationResult:
    def __init__(self):
        self.inv = 0
        self.outcome = None        # "SUCCEEDED"|"FAILED"|"PENDING"|"RAISED"|"CRASHED"|"HANG"|...
        self.result = None         # dict returned by wrapper
        self.exc = None
        self.verdict = None
        self.verdict_info = None
        self.events = []
        self.choices = []
        self.steps = 0
        self.split = None
        self.alive_at_return = []
        self.api_calls_before = 0
        self.t_start = 0.0
        self.t_end = 0.0
        self.armed_at_end = None
        self.running_fns_at_return = None


class Execution:
    def __init__(self, prog: dict, scenario: dict | None = None):
        install.install()
        from . import exec_trace
        exec_trace.install_hooks()
        self.prog = prog
        self.sc = dict(scenario or {})
        self.rng = random.Random(self.sc.get("seed", 0))
        self.now = ds.EPOCH0
        self._sched = None
        self.backend = ModelBackend(self.clock, timer_lag=self.sc.get("timer_lag", 0.0))
        self.backend.resp_page = self.sc.get("resp_page")
        self.backend.empty_pages = set(self.sc.get("empty_pages") or [])       # page fetches answered with an empty page + marker
        self.backend.trailing_empty_page = bool(self.sc.get("trailing_empty_page"))
        self.backend.fail_get_state_at = self.sc.get("get_state_fault")     # n: the n-th page fetch (GetDurableExecutionState) fails
        for k, v in (self.sc.get("faults") or {}).items():
            self.backend.fail_at[int(k)] = v
        for k in self.sc.get("faults_after_apply") or []:
            self.backend.fail_after_apply.add(int(k))
        self.rec = Recorder(self.backend)
        self.handler = build_handler(prog, self.rec)
        from aws_durable_execution_sdk_python.execution import durable_execution
        self.wrapped = durable_execution(self.handler, boto3_client=self.backend)
        self.invocations: list[InvocationResult] = []
        self.final = None           # "SUCCEEDED" | "FAILED" | "STUCK" | "MAXINV" | "HANG"
        self.env_log: list = []
        self.backend.on_call = self._on_call
        self.backend.on_env = self._on_env
        self.trace: list = []       # the whole execution as one totally ordered event list (invocations + environment)

    def clock(self):
        return self._sched.now if self._sched is not None else self.now

    def _on_env(self, kind, oid, outcome):
        d = {"ev": "EnvTimer" if kind == "timer" else "EnvExternal", "id": oid, "outcome": outcome, "inv": self.rec.inv}
        if self._sched is not None:
            self._sched.log(d.pop("ev"), **d, mid=True)
        else:
            d["th"] = "env"
            self.trace.append(d)

    def _on_call(self, kind, info):
        s = self._sched
        if s is None:
            return
        if kind == "ApiCall":
            s.progress()
            s.log("ApiCall", n=info["n"], token=info["token"], updates=[[i, a] for i, a in info["updates"]],
                  inv=self.rec.inv)
        elif kind == "ApiApplied":
            s.log("ApiApplied", n=info["n"], inv=self.rec.inv)
            return      # no scheduling point between applying the batch and logging it
        elif kind == "ApiReturn":
            s.progress()
            s.log("ApiReturn", n=info["n"], ok=info["ok"], err=info["err"], inv=self.rec.inv,
                  changed=[c[:8] for c in info.get("changed", [])])
        elif kind == "GetStateFail":
            s.progress()
            s.log("GetStateFail", n=info["n"], inv=self.rec.inv)
            return
        # scheduling point so that a crash can separate "applied" from "response received"; the API call may also take
        # (virtual) time, so that other threads can enqueue while it is in flight
        sch, me = ds.current()
        if me is not None:
            lat = self.sc.get("api_latency", 0.0) if kind == "ApiCall" else 0.0
            if lat:
                ds.vsleep(lat)
            else:
                sch.yield_point(me, kind)

    # ---- one invocation -----------------------------------------------------------------------------
    def _strategy(self, inv):
        sc = self.sc
        scripts = sc.get("scripts") or {}
        crash_at = None
        cr = sc.get("crash") or {}
        if str(inv) in cr or inv in cr:
            crash_at = cr.get(str(inv), cr.get(inv))
        elif sc.get("crash_prob") and sum(1 for r in self.invocations if r.outcome == "CRASHED") < sc.get("max_crashes", 3) \
                and self.rng.random() < sc["crash_prob"]:
            crash_at = self.rng.randrange(1, sc.get("crash_max_step", 400))
        seed = self.rng.randrange(1 << 30)
        if sc.get("strategy") == "pct":
            base = ds.PCTStrategy(seed, depth=sc.get("pct_depth", 3), p_time=sc.get("p_time", 0.0), crash_at=crash_at)
        else:
            base = ds.RandomStrategy(seed, p_time=sc.get("p_time", 0.0), crash_at=crash_at, stick=sc.get("stick", 0.0))
        if sc.get("slow_holder"):
            base = ds.SlowHolderStrategy(base, sc["slow_holder"], budget=sc.get("slow_budget", 600), stall=sc.get("slow_stall", 0.5))
        if sc.get("slow_after"):
            sa = sc["slow_after"]
            base = ds.SlowAfterEventStrategy(base, sa["start"], nth=sa.get("nth", 1), until=tuple(sa.get("until", ("FnEnter", "BodyEnd"))),
                                             stall=sa.get("stall", 0.5))
        if str(inv) in scripts or inv in scripts:
            return ds.ScriptedStrategy(scripts.get(str(inv), scripts.get(inv)), fallback=base), crash_at
        return base, crash_at

    def invoke_once(self) -> InvocationResult:
        sc = self.sc
        inv = len(self.invocations) + 1
        r = InvocationResult()
        r.inv = inv
        paging = sc.get("paging")
        fp = pg = None
        if paging == "random":
            n = len(self.backend.order)
            if self.rng.random() < 0.7:
                fp = self.rng.randrange(0, n + 1)
                pg = self.rng.choice([1, 2, 3, 100])
        elif isinstance(paging, dict):
            p = paging.get(str(inv), paging.get(inv))
            if p:
                fp, pg = p
        self.rec.inv = inv
        self.rec.fn_running.clear()     # functions of an earlier (crashed) invocation died with its process
        ev, split = self.backend.start_invocation(fp, pg)
        r.split = split
        r.ops_at_start = {oid: rec["Status"] for oid, rec in self.backend.ops.items() if rec["Type"] != "EXECUTION"}
        r.attempts_at_start = {oid: rec.get("_attempt", 0) for oid, rec in self.backend.ops.items() if rec["Type"] == "STEP"}
        strategy, crash_at = self._strategy(inv)
        sched = ds.Scheduler(strategy, max_steps=sc.get("max_steps", 60000), hang_after=sc.get("hang_after", 90.0))
        sched.now = self.now
        sched.last_progress = self.now
        # gates
        self.rec.gates = {}
        gates = sc.get("gates") or {}
        opens = []
        for g, when in gates.items():
            e = ds.Event()
            self.rec.gates[g] = e
            if when != "never":
                opens.append((int(when), e))
        ext_mid = list(sc.get("ext_mid") or [])   # [[step, path, outcome, payload]]

        base_on_step = strategy.on_step

        def on_step(s, base_on_step=base_on_step):
            for when, e in opens:
                if not e._flag and s.steps >= when:
                    e._flag = True
            for item in list(ext_mid):
                if s.steps >= item[0]:
                    # (retried at the following steps until the operation exists and is outstanding)
                    if self._complete_ext(item[1], item[2], item[3] if len(item) > 3 else None, mid=True):
                        ext_mid.remove(item)
            base_on_step(s)
        strategy.on_step = on_step
        self._sched = sched
        r.api_calls_before = self.backend.api_calls
        r.t_start = self.now
        sched.log("InvStart", inv=inv, split=split, n_ops=len(self.backend.order), token=ev["CheckpointToken"])
        gc_was = gc.isenabled()
        gc.disable()
        from . import exec_trace
        exec_trace.BATCHER_CFG = sc.get("batcher")
        try:
            # the event goes through JSON exactly like the Lambda runtime would deliver it
            event = json.loads(json.dumps(ev))
            sched.run(self._main, event, name="main")
        finally:
            if gc_was:
                gc.enable()
            exec_trace.BATCHER_CFG = None
            self._sched = None
        self.now = sched.now
        r.events = sched.events
        r.choices = sched.choices
        r.steps = sched.steps
        r.verdict, r.verdict_info = sched.verdict, sched.verdict_info
        r.t_end = self.now
        mr = getattr(sched, "_main_ret", None)
        if sched.verdict == "crash" and not sched.main_done:
            r.outcome = "CRASHED"
        elif sched.verdict in ("hang", "deadlock", "steps") and not sched.main_done:
            r.outcome = "HANG"
        elif mr is not None and mr[0] == "ret":
            r.result = mr[1]
            r.outcome = mr[1].get("Status") if isinstance(mr[1], dict) else "BADRESULT"
        elif mr is not None and mr[0] == "exc":
            r.exc = mr[1]
            r.outcome = "RAISED"
        else:
            r.outcome = "CRASHED" if sched.verdict == "crash" else "HANG"
        r.alive_at_return = getattr(sched, "_alive_at_return", [])
        r.running_fns_at_return = getattr(sched, "_running_fns_at_return", None)
        sched.events.append({"seq": len(sched.events), "t": round(self.now - ds.EPOCH0, 3), "th": "env", "ev": "InvEnd",
                             "inv": inv, "outcome": r.outcome, "verdict": r.verdict,
                             "exc": type(r.exc).__name__ if r.exc else None})
        self.trace.extend(sched.events)
        self.invocations.append(r)
        return r

    def _main(self, event):
        s = self._sched
        try:
            out = self.wrapped(event, LambdaCtx())
            s._main_ret = ("ret", out)
        except ds.Abort:
            raise
        except BaseException as e:  # noqa: BLE001
            s._main_ret = ("exc", e)
        s._alive_at_return = [t.name for t in s.threads if t.state != "done" and t.name != "main"]
        s._running_fns_at_return = sorted(self.rec.fn_running)
        s.log("WrapperReturn", status=(s._main_ret[1].get("Status") if s._main_ret[0] == "ret" and isinstance(s._main_ret[1], dict) else None),
              raised=(type(s._main_ret[1]).__name__ if s._main_ret[0] == "exc" else None),
              alive=s._alive_at_return, inv=self.rec.inv)

    # ---- environment between invocations ---------------------------------------------------------------
    def _ext_outcome(self, oid):
        ext = self.sc.get("ext") or {}
        for path, spec in ext.items():
            try:
                if path_id(path) == oid:
                    return spec
            except ValueError:
                continue
        return ["SUCCEEDED", None]

    def _complete_ext(self, path_or_id, outcome=None, payload=None, mid=False):
        oid = path_or_id if len(path_or_id) == 64 else path_id(path_or_id)
        if oid not in self.backend.ops:
            return False
        spec = self._ext_outcome(oid)
        outcome = outcome or spec[0]
        payload = payload if payload is not None else (spec[1] if len(spec) > 1 else None)
        typ = self.backend.ops[oid]["Type"]
        if outcome == "SUCCEEDED":
            if payload is None:
                payload = json.dumps({"ext": oid[:6]}) if typ == "CHAINED_INVOKE" else f"payload-{oid[:6]}"
            ok = self.backend.complete_external(oid, "SUCCEEDED", payload=payload)
        else:
            err = {"ErrorMessage": payload or f"{outcome.lower()} {oid[:6]}", "ErrorType": "ExtError"}
            how = spec[2] if len(spec) > 2 else None
            if how == "noerr":
                err = None                                  # the backend reports the terminal status without any error object
            elif how == "nomsg":
                err = {"ErrorType": "ChainedInvoke.Timeout" if typ == "CHAINED_INVOKE" else "Callback.Timeout"}    # a type, no message
            ok = self.backend.complete_external(oid, outcome, error=err)
        if ok:
            self.env_log.append(("ext", oid, outcome, mid))
        return ok

    def wake(self) -> bool:
        """After PENDING: let the environment make progress (timer or external event). False = nothing can."""
        be = self.backend
        timers = sorted(be.timers)
        exts = [o for o in be.pending_externals() if self._ext_outcome(o)[0] != "NEVER"]
        if be.woke:
            return True   # a timer fired / an external event arrived while the invocation was still running
        order = self.sc.get("ext_order", "random")
        choose_ext = bool(exts) and (not timers or order == "ext_first" or (order == "random" and self.rng.random() < 0.5))
        if choose_ext:
            oid = exts[0] if order != "random" else self.rng.choice(exts)
            self._complete_ext(oid)
            self.now += 0.5
            return True
        if timers:
            due = timers[0][0] + be.timer_lag
            if due > self.now:
                self.now = due
            be.tick()
            self.env_log.append(("timer", timers[0][1], timers[0][2]))
            return True
        return False

    def run(self):
        max_inv = self.sc.get("max_inv", 12)
        while True:
            if len(self.invocations) >= max_inv:
                self.final = "MAXINV"
                break
            r = self.invoke_once()
            # scenario "corrupt": {path: text} - once the operation holds a SUCCEEDED record its stored payload is replaced (a history
            # the configured serializer can no longer restore: corruption, or a payload format that changed between deployments)
            for cpath, ctext in (self.sc.get("corrupt") or {}).items():
                crec = self.backend.ops.get(path_id(cpath))
                if crec is not None and crec["Status"] == "SUCCEEDED" and not crec.get("_corrupted"):
                    crec["_result"], crec["_corrupted"] = ctext, True
            if r.outcome in ("SUCCEEDED", "FAILED"):
                self.final = r.outcome
                break
            if r.outcome == "HANG":
                self.final = "HANG"
                break
            if r.outcome == "PENDING":
                if not self.wake():
                    self.final = "STUCK"
                    break
                continue
            if r.outcome in ("CRASHED", "RAISED"):
                if self.backend.exec_result is not None:
                    # the execution-level result was durably recorded before the invocation died: the execution is complete
                    self.final = "SUCCEEDED" if self.backend.exec_result[0] == "SUCCEED" else "FAILED"
                    break
                self.now += 0.25
                continue
            self.final = "BAD:" + str(r.outcome)
            break
        return self

    # ---- convenience ------------------------------------------------------------------------------------
    def all_events(self):
        out = []
        for r in self.invocations:
            out.extend(r.events)
        return out

    def describe(self):
        return {"prog": self.prog, "scenario": self.sc, "final": self.final,
                "invocations": [{"inv": r.inv, "outcome": r.outcome, "verdict": r.verdict, "steps": r.steps,
                                 "split": r.split, "exc": repr(r.exc)[:200] if r.exc else None} for r in self.invocations],
                "stream": [(u["inv"], u["id"][:8], u["type"], u["action"], u["legal"]) for u in self.backend.stream],
                "illegal": self.backend.illegal}
