"""Spec -> code replay of Batcher.tla behaviours (BatcherGen.tla) into the real checkpoint pipeline."""
from __future__ import annotations

from . import detsched as ds


def batcher_expected(hist):
    """Expand the labelled history of a BatcherGen behaviour into the events the harness must log (with the thread that logs
    them) and the markers ("run the consumer until it blocks")."""
    out = []

    def ev(name, t, **kw):
        d = {"ev": name, "_t": t}
        d.update(kw)
        out.append(d)

    for h in hist:
        a, p, i = h["a"], h["p"], h["i"]
        if a.startswith("~"):
            continue
        if a == "PCheck":
            ev("PCheck", p, p=p, seen=h["seen"])
            if h["seen"]:
                ev("PRet", p, p=p, i=0, o="err")
        elif a == "Put":
            ev("Put", p, p=p, i=i, size=h["size"], sync=h["sync"])
        elif a == "PRecheck":
            ev("PRecheck", p, p=p, seen=h["seen"])
            if h["seen"]:
                ev("PRet", p, p=p, i=i, o="err")
            elif not h["sync"]:
                ev("PRet", p, p=p, i=i, o="async")
        elif a == "PWait":
            ev("PRet", p, p=p, i=i, o=h["o"])
        elif a == "StopSet":
            ev("StopSet", "main")
        elif a == "CBlock":
            out.append({"ev": "CBlock", "_t": "consumer", "_marker": True})
        elif a == "COvGet":
            ev("OvGet", "consumer", i=i)
        elif a == "COvPutBack":
            ev("OvGet", "consumer", i=i)
            ev("OvPut", "consumer", i=i)
        elif a in ("CFirstGet", "CWinGet"):
            ev("MainGet", "consumer", i=i)
        elif a == "CWinToOverflow":
            ev("MainGet", "consumer", i=i)
            ev("OvPut", "consumer", i=i)
        elif a == "ApiCall":
            ev("ApiCall", "consumer", tok=h["tok"], items=list(h["items"]))
        elif a == "ApiRet":
            ev("ApiRet", "consumer", ok=(h["o"] == "ok"))
        elif a == "ApiRetPageFail":
            ev("ApiRet", "consumer", ok=True)
            ev("PageFail", "consumer")
        elif a == "CRelSet":
            ev("EvSet", "consumer", i=i, o="ok")
        elif a == "CFailSet":
            ev("EvSet", "consumer", i=i, o="err")
        elif a == "FlagSet":
            ev("FlagSet", "consumer")
        elif a in ("CFailOv", "CFailMain"):
            ev("OvGet" if a == "CFailOv" else "MainGet", "consumer", i=i)
            if h["sync"]:
                ev("EvSet", "consumer", i=i, o="err")
        elif a == "CExit":
            ev("CExit", "consumer")
        else:
            raise ValueError(f"unknown history label {a}")
    return out


def batcher_plan(hist, producers, nitems, maxops, maxbytes, window=1.0):
    calls = {p: [] for p in producers}
    fail_at = page_fail_at = None
    for h in hist:
        if h["a"] == "Put":
            calls[h["p"]].append(["empty" if h["size"] == 0 else h["size"], bool(h["sync"])])
        elif h["a"] == "PCheck" and h["seen"]:
            calls[h["p"]].append([300, True])       # raises at the flag check: the update is never looked at
        elif h["a"] == "ApiRet" and h["o"] == "fail":
            fail_at = h["i"]
        elif h["a"] == "ApiRetPageFail":
            page_fail_at = h["i"]
    for p in producers:
        if len(calls[p]) != nitems:
            raise ValueError(f"producer {p} made {len(calls[p])} calls in the behaviour, expected {nitems}")
    return {"producers": [calls[p] for p in producers], "maxops": maxops, "maxbytes": maxbytes, "window": window,
            "fail_at": fail_at, "page_fail_at": page_fail_at, "hang_after": 120.0}


class GuidedEvents(ds.Strategy):
    """Force the thread choices of a model behaviour: the thread that logs the next expected event runs (TIME when that
    thread is the consumer and it waits on a timeout); a marker runs the consumer until it blocks."""

    def __init__(self, expected, evs=None, patience=80):
        self.expected = expected
        self.real = [e for e in expected if not e.get("_marker")]
        # markers[m] = number of markers to satisfy once m real events have been logged
        self.marker_at = {}
        m = 0
        for e in expected:
            if e.get("_marker"):
                self.marker_at[m] = self.marker_at.get(m, 0) + 1
            else:
                m += 1
        self.done_markers = {}
        self.evs = evs
        self.diverged = None
        self.patience = patience
        self._k = -1
        self._same = 0

    def bind(self, evs):
        self.evs = evs

    def _by_name(self, cands, name):
        for c in cands:
            if c.name == name:
                return c
        return None

    def choose(self, sched, cands, can_time):
        k = len(self.evs)
        if self.diverged is not None or k > len(self.real):
            return cands[0] if cands else "TIME"
        self._same = self._same + 1 if k == self._k else 0
        self._k = k
        if self._same > self.patience:
            self.diverged = {"at_event": k, "want": self.real[k] if k < len(self.real) else None, "why": "no progress"}
            return cands[0] if cands else "TIME"
        if self.marker_at.get(k, 0) > self.done_markers.get(k, 0):
            c = self._by_name(cands, "consumer")
            if c is not None:
                return c
            if any(t.name == "consumer" for t in sched.threads):
                self.done_markers[k] = self.marker_at[k]         # the consumer is blocked
            else:
                m = self._by_name(cands, "main")
                if m is not None:
                    return m
        if k == len(self.real):
            return cands[0] if cands else "TIME"
        want = self.real[k]["_t"]
        c = self._by_name(cands, want)
        if c is not None:
            return c
        if not any(t.name == want for t in sched.threads):
            m = self._by_name(cands, "main")
            if m is not None:
                return m
        if want == "consumer" and can_time:
            return "TIME"
        if want == "main":
            # main joins the producers: let those that have returned from their last call terminate
            for c in cands:
                if c.name.startswith("p"):
                    return c
        self.diverged = {"at_event": k, "want": self.real[k], "why": "thread not enabled", "enabled": [c.name for c in cands]}
        return cands[0] if cands else "TIME"


def batcher_verdict(r, strat, outcome):
    """None when the real execution followed the behaviour; otherwise what differs."""
    if strat.diverged is not None:
        d = strat.diverged
        return (f"the real pipeline cannot follow a behaviour of the model: after {d['at_event']} events the model lets "
                f"{ {k: v for k, v in (d['want'] or {}).items() if not k.startswith('_')} } happen: {d['why']} {d.get('enabled', '')}")
    if r["verdict"] is not None:
        return f"forced execution did not finish: {r['verdict']} {r['verdict_info']}"
    exp = strat.real
    for n, (g, e) in enumerate(zip(r["evs"], exp)):
        for k, v in e.items():
            if k.startswith("_"):
                continue
            if g.get(k) != v:
                return f"event {n}: the model expects { {a: b for a, b in e.items() if not a.startswith('_')} }, the code logged { {a: g.get(a) for a in e if not a.startswith('_')} }"
    if len(r["evs"]) != len(exp):
        longer = r["evs"] if len(r["evs"]) > len(exp) else exp
        return f"the code logged {len(r['evs'])} events, the model behaviour has {len(exp)}; first unmatched: {longer[min(len(r['evs']), len(exp))]}"
    for i, o in outcome.items():
        got = r["outcomes"].get(int(i), "none")
        if got != o:
            return f"update {i}: model outcome {o}, code outcome {got}"
    return None
