"""Observation of the map/parallel executor from outside (attribute rebinding only) + conversion of a recorded execution
into the event sequence of spec/ExecutorTrace.tla."""
from __future__ import annotations

from . import detsched as ds
from .interp import path_id

_installed = False
# scenario option "batcher": {"bytes": .., "ops": .., "time": ..} -> CheckpointBatcherConfig of the ExecutionState the wrapper
# creates (the public entry point always uses the defaults: 750 KB / 250 updates / 1 s; small limits reach the overflow path)
BATCHER_CFG = None


def _log(ev, **kw):
    s = ds._CURRENT_SCHED
    if s is not None and not s.aborting:
        s.log(ev, **kw)


def install_hooks():
    global _installed
    if _installed:
        return
    from aws_durable_execution_sdk_python.concurrency.executor import ConcurrentExecutor
    from aws_durable_execution_sdk_python.concurrency.models import ExecutableWithState
    from aws_durable_execution_sdk_python.exceptions import (BackgroundThreadError, OrphanedChildException, SuspendExecution,
                                                             TimedSuspendExecution)
    from aws_durable_execution_sdk_python.state import ExecutionState

    orig_execute = ConcurrentExecutor.execute

    def execute(self, execution_state, executor_context):
        eid = executor_context._parent_id
        self._vx_eid = eid
        cc = self.completion_config
        _log("ExStart", e=eid, n=len(self.executables), maxc=self.max_concurrency or 0, mins=cc.min_successful or 0,
             tolc=99 if cc.tolerated_failure_count is None else cc.tolerated_failure_count,
             tolp=999 if cc.tolerated_failure_percentage is None else int(cc.tolerated_failure_percentage))

        def evhook(op, _ev):
            if op == "set":
                se = self._suspend_exception
                fatal = getattr(self, "_fatal_exception", None) is not None
                _log("EvSet", e=eid, susp="fatal" if fatal else ("none" if se is None else
                                                                ("timed" if isinstance(se, TimedSuspendExecution) else "indef")))
        try:
            self._completion_event._hook = evhook
        except AttributeError:
            pass
        try:
            r = orig_execute(self, execution_state, executor_context)
        except SuspendExecution:
            _log("ExReturn", e=eid, how="suspended")
            raise
        except BaseException as ex:  # noqa: BLE001
            _log("ExReturn", e=eid, how="raised:" + type(ex).__name__)
            raise
        _log("ExReturn", e=eid, how="returned")
        return r

    orig_item = ConcurrentExecutor._execute_item_in_child_context

    def item(self, executor_context, executable):
        eid = getattr(self, "_vx_eid", None)
        _log("BodyStart", e=eid, i=executable.index + 1)
        try:
            r = orig_item(self, executor_context, executable)
        except OrphanedChildException:
            _log("BodyEnd", e=eid, i=executable.index + 1, out="orphan")
            raise
        except TimedSuspendExecution as ts:
            _log("BodyEnd", e=eid, i=executable.index + 1, out="tsusp", until=round(float(ts.scheduled_timestamp) - ds.EPOCH0, 3))
            raise
        except SuspendExecution:
            _log("BodyEnd", e=eid, i=executable.index + 1, out="susp")
            raise
        except BackgroundThreadError:
            _log("BodyEnd", e=eid, i=executable.index + 1, out="bte")
            raise
        except ds.Abort:
            raise
        except BaseException:  # noqa: BLE001
            _log("BodyEnd", e=eid, i=executable.index + 1, out="fail")
            raise
        _log("BodyEnd", e=eid, i=executable.index + 1, out="ok")
        return r

    orig_done = ConcurrentExecutor._on_task_complete

    def done(self, exe_state, future, scheduler):
        try:
            return orig_done(self, exe_state, future, scheduler)
        finally:
            se = self._suspend_exception
            _log("OnDone", e=getattr(self, "_vx_eid", None), i=exe_state.index + 1, st=exe_state.status.name,
                 succ=self.counters.success_count, fail=self.counters.failure_count,
                 event=bool(self._completion_event._flag),
                 susp="none" if se is None else ("timed" if isinstance(se, TimedSuspendExecution) else "indef"))

    orig_create = ConcurrentExecutor._create_result

    def create(self):
        r = orig_create(self)
        _log("Build", e=getattr(self, "_vx_eid", None), items=[it.status.value for it in r.all], reason=r.completion_reason.value)
        return r

    orig_reset = ExecutableWithState.reset_to_pending

    def reset(self):
        orig_reset(self)
        _log("Resubmit", i=self.index + 1)

    orig_mark = ExecutionState._mark_orphans

    def mark(self, context_id):
        orig_mark(self, context_id)
        _log("MarkOrphans", ctx=context_id)

    orig_init = ExecutionState.__init__

    def init(self, *a, **kw):
        if BATCHER_CFG and kw.get("batcher_config") is None and len(a) < 5:
            from aws_durable_execution_sdk_python.state import CheckpointBatcherConfig
            d = CheckpointBatcherConfig()
            kw["batcher_config"] = CheckpointBatcherConfig(
                max_batch_size_bytes=BATCHER_CFG.get("bytes", d.max_batch_size_bytes),
                max_batch_time_seconds=BATCHER_CFG.get("time", d.max_batch_time_seconds),
                max_batch_operations=BATCHER_CFG.get("ops", d.max_batch_operations))
        orig_init(self, *a, **kw)

        def qhook(op, q, item=None):
            if op == "put" and item is not None and item.operation_update is not None:
                u = item.operation_update
                _log("Ckpt", id=u.operation_id, parent=u.parent_id, action=u.action.value, typ=u.operation_type.value, rejected=False)
            elif op == "put" and item is not None:
                _log("CkptEmpty")      # only the timer thread's resubmitter sends an empty ("state refresh") checkpoint
        try:
            self._checkpoint_queue._hook = qhook
        except AttributeError:
            pass

    orig_orphan_init = OrphanedChildException.__init__

    def orphan_init(self, message, operation_id):
        orig_orphan_init(self, message, operation_id)
        _log("Ckpt", id=operation_id, parent=None, action="?", typ="?", rejected=True)

    if hasattr(ExecutionState, "ensure_not_orphaned"):
        orig_ensure = ExecutionState.ensure_not_orphaned

        def ensure(self, operation_id, parent_id):
            # logged BEFORE the check (a failing one raises -> rejected Ckpt event): the event must not be later than the check
            _log("OrphanCheck", id=operation_id)
            orig_ensure(self, operation_id, parent_id)
        ExecutionState.ensure_not_orphaned = ensure

    ConcurrentExecutor.execute = execute
    ConcurrentExecutor._execute_item_in_child_context = item
    ConcurrentExecutor._on_task_complete = done
    ConcurrentExecutor._create_result = create
    ExecutableWithState.reset_to_pending = reset
    ExecutionState._mark_orphans = mark
    ExecutionState.__init__ = init
    OrphanedChildException.__init__ = orphan_init
    _installed = True


class Unsupported(Exception):
    pass


SKIP_REASONS = {}      # why executions / invocations were left out of ExecutorTrace validation (reported in the evidence)


def note_skip(exc):
    k = str(exc) or "?"
    SKIP_REASONS[k] = SKIP_REASONS.get(k, 0) + 1


def retry_atoms(n, a0):
    """atoms of a retrying step from attempt a0 on (a0 == 1: nothing recorded yet; a0 >= 2: the operation is found READY, so the
    attempt runs without a START).  Attempt a fails iff fail == -1 or a <= fail; the strategy allows `max` attempts.
    Returns (atoms, the error leaves the branch)."""
    f, m = n["fail"], n.get("max", 1)
    atoms, a = [], a0
    while True:
        fails = f == -1 or a <= f
        first = a == 1
        if not fails:
            atoms.append("step" if first else "sretry")
            return atoms, False
        if a < m:
            atoms.append("sfail" if first else "sretryfail")
            a += 1
            continue
        atoms.append("sfinal" if first else "sretryfinal")
        if n.get("caught"):
            return atoms, False
        atoms.append("fail")            # the error leaves the branch
        return atoms, True


def branch_script(nodes, prefix=None, ext=None):
    """script atoms of a branch body; only plain steps / one trailing callback / one leading wait are supported.
    prefix / ext: path prefix of the body's operations and the scenario's external outcomes (needed for invokes)"""
    atoms = []
    pos = 0
    for n in nodes:
        k = n["k"]
        if k != "log":
            pos += 1
        if k == "step" and not n.get("fail") and n.get("sem") != "AMO":
            atoms.append("step")
        elif k == "step" and n.get("sem") != "AMO" and n.get("fail") and n.get("strategy") != "pkg":
            sa, leaves = retry_atoms(n, 1)
            atoms += sa
            if leaves:
                return atoms
        elif k == "wfc" and n.get("polls", 1) == 1 and not n.get("fail_at"):
            atoms.append("step")                # one poll: START, check function, SUCCEED
        elif k == "wfc" and n.get("polls", 1) == 2 and not n.get("fail_at"):
            atoms += ["sfail", "step"]          # first poll: START, check, RETRY, park; second: START again, check, SUCCEED
        elif k == "cb" and not n.get("between"):
            atoms.append("susp")
            return atoms
        elif k == "invoke" and prefix is not None and "payload" not in n:
            # a chained invoke parks on a timed suspension for "now" and is polled through the timer thread's refresh checkpoints until
            # the backend reports its outcome: a tsusp with re-parks (the caller sets cf.lag); a failed call raises in the body
            outcome = ((ext or {}).get(f"{prefix}{pos}") or ["SUCCEEDED"])[0]
            atoms.append("tsusp")
            atoms.append("@invoke")
            if outcome != "SUCCEEDED" and not n.get("caught"):
                atoms.append("fail")
                return atoms
        elif k == "child" and not (n.get("large") or n.get("caught") or n.get("raises") or n.get("summary") or n.get("uni") or n.get("ser_size")):
            inner = branch_script(n.get("body", []), None if prefix is None else f"{prefix}{pos}/", ext)
            if any(a in ("susp", "fail", "cin") for a in inner):
                raise Unsupported("child body that fails, parks indefinitely or nests further")
            atoms += ["cin"] + inner + ["cout"]
        elif k == "wait":
            atoms.append("tsusp")
        else:
            raise Unsupported(k)
    return atoms


def ev(name, **kw):
    d = {"ev": name, "i": 0, "k": "", "rej": False, "out": "", "st": "", "succ": 0, "fail": 0, "event": False, "susp": "",
         "items": [], "reason": "", "how": ""}
    d.update(kw)
    return d


def convert(execution):
    """The FIRST invocation in which the (single, top-level) map/parallel executes -> ExecutorTrace events."""
    return convert_inv(execution, None)


def convert_all(execution):
    """One trace per invocation in which the (single, top-level) map/parallel executes and that the model can express:
    the first one, and every later one in which each branch context is either absent or already started (cf.pre) and each
    operation of a branch body is either absent or completed (completed ones are replayed without a checkpoint: dropped
    from the script).  Invocations outside this fragment are skipped (counted by the caller)."""
    out, skipped = [], 0
    first = True
    for r in execution.invocations:
        if not any(x["ev"] == "ExStart" for x in r.events):
            continue
        try:
            out.append(convert_inv(execution, r if not first else None))
        except Unsupported as u:
            skipped += 1
            note_skip(u)
        first = False
    return out, skipped


def convert_inv(execution, inv_rec):
    prog = execution.prog
    mp = [(k, n) for k, n in enumerate([x for x in prog["nodes"] if x["k"] != "log"], 1) if n["k"] in ("map", "par")]
    if len(mp) != 1:
        raise Unsupported("exactly one top-level map/parallel")
    pos, node = mp[0]
    path = str(pos)
    eid = path_id(path)
    braise = set(int(x) for x in (node.get("braise") or []))
    scripts = []
    has_invoke = False
    for bi, body in enumerate(node["branches"]):
        a = branch_script(body, f"{path}/b{bi}/", execution.sc.get("ext") or {})
        has_invoke = has_invoke or "@invoke" in a
        a = [x for x in a if x != "@invoke"]
        if not (a and a[-1] in ("susp", "fail")):
            a.append("fail" if bi in braise else "ok")
        scripts.append(a)
    # (oversized item results change the payload of the branch context's SUCCEED - a summary with ReplayChildren - not the events)
    ctx_ids = {path_id(f"{path}/b{bi}"): bi + 1 for bi in range(len(scripts))}
    step_parent = {}
    child_owner = {}
    thread_branch = {}
    seen_set = False
    pre = []
    if inv_rec is None:
        # the invocation where the executor ran for the first time
        inv = next((r for r in execution.invocations if any(x["ev"] == "ExStart" and x.get("e") == eid for x in r.events)), None)
        if inv is None:
            raise Unsupported("executor never started")
    else:
        inv = inv_rec
        at = inv.ops_at_start
        if at.get(eid) != "STARTED":
            raise Unsupported("the call's own context is not merely started")
        for bi, body in enumerate(node["branches"]):
            cst = at.get(path_id(f"{path}/b{bi}"))
            if cst is None:
                continue
            if cst in ("SUCCEEDED", "FAILED"):
                # the branch is replayed: its recorded outcome is returned / raised at once, the body does not run
                pre.append(bi + 1)
                scripts[bi] = ["rok" if cst == "SUCCEEDED" else "rfail"]
                continue
            if cst != "STARTED":
                raise Unsupported("branch context already completed")
            pre.append(bi + 1)
            # drop the atoms whose operation is complete (replayed without a checkpoint); everything else must be absent
            keep, k = [], 0
            for n in [x for x in body if x["k"] != "log"]:
                k += 1
                st = at.get(path_id(f"{path}/b{bi}/{k}"))
                if st == "SUCCEEDED" and (n["k"] in ("step", "wait", "wfc") or (n["k"] == "cb" and not n.get("between"))):
                    continue
                if st == "STARTED" and n["k"] == "step" and not n.get("fail") and n.get("sem") != "AMO":
                    # an at-least-once attempt that was interrupted (crash): it is run again without a START, like a READY attempt
                    keep.append("sretry")
                    continue
                retrying = n["k"] == "step" and n.get("fail") and n.get("sem") != "AMO" and n.get("strategy") != "pkg"
                if retrying and (st is None or st == "READY"):
                    # a retrying step met by a later invocation: not begun yet, or found READY after `att` recorded attempts
                    # (the retry timer fired while no invocation was running): attempt att + 1 runs without a START
                    att = getattr(inv, "attempts_at_start", {}).get(path_id(f"{path}/b{bi}/{k}"), 0)
                    if st == "READY" and att < 1:
                        raise Unsupported("READY operation without a recorded attempt")
                    sa, leaves = retry_atoms(n, 1 if st is None else att + 1)
                    keep += sa
                    if leaves:
                        break
                    continue
                if st is not None:
                    raise Unsupported(f"operation in state {st} at the start of the invocation")
                if n["k"] not in ("step", "wait", "cb") or n.get("fail") or n.get("sem") == "AMO":
                    raise Unsupported("retrying operation in a later invocation")
                keep.append({"step": "step", "wait": "tsusp", "cb": "susp"}[n["k"]])
                if n["k"] == "cb":
                    break
            if not (keep and keep[-1] in ("susp", "fail")):
                keep.append("fail" if bi in braise else "ok")
            scripts[bi] = keep
    # (a crashed or hung invocation contributes the prefix it produced: every prefix of a behaviour is checked like a full one)
    cfg = None
    out = []
    started = False
    for x in inv.events:
        n = x["ev"]
        if n == "ExStart":
            if x.get("e") != eid:
                raise Unsupported("nested executor")
            cfg = {"script": scripts, "maxc": x["maxc"], "mins": x["mins"], "tolc": x["tolc"], "tolp": x["tolp"],
                   "tfail": bool(execution.sc.get("faults") or execution.sc.get("faults_after_apply") or execution.sc.get("get_state_fault")),
                   "lag": bool(execution.sc.get("timer_lag")) or has_invoke,
                   "pre": pre}
            started = True
            continue
        if not started:
            continue
        if n == "BodyStart":
            thread_branch[x.get("th")] = x["i"]
            out.append(ev("BodyStart", i=x["i"]))
        elif n == "BodyEnd":
            out.append(ev("BodyEnd", i=x["i"], out=x["out"]))
        elif n == "Ckpt":
            oid = x["id"]
            if oid == eid:
                if x["action"] in ("SUCCEED", "FAIL"):
                    out.append(ev("ParentCkpt"))
                continue
            if oid in ctx_ids:
                k = "ctxStart" if x["action"] == "START" else ("ctxEnd" if x["action"] in ("SUCCEED", "FAIL") else "ctx?")
                if x["rejected"]:
                    k = "ctx?"
                out.append(ev("Ckpt", i=ctx_ids[oid], k=k, rej=bool(x["rejected"])))
                continue
            par = x.get("parent")
            if par in ctx_ids:
                step_parent[oid] = ctx_ids[par]
            elif par in child_owner:
                step_parent[oid] = child_owner[par]        # an operation inside a child context opened by the branch body
            if x["typ"] == "CONTEXT" and oid in step_parent and not x["rejected"]:
                child_owner[oid] = step_parent[oid]
                out.append(ev("Ckpt", i=step_parent[oid], k="cin" if x["action"] == "START" else "cout", rej=False))
                continue
            if x["rejected"] and oid not in step_parent and x.get("th") in thread_branch:
                out.append(ev("Ckpt", i=thread_branch[x["th"]], k="?", rej=True))
                continue
            if oid in step_parent:
                k = {"START": "start", "SUCCEED": "succeed", "RETRY": "retry", "FAIL": "fail"}.get(x["action"], x["action"])
                if x["rejected"]:
                    k = "step?"
                if x["typ"] not in ("STEP", "?"):
                    # wait / callback START inside a branch: the checkpoint with which a tsusp / susp atom begins
                    k = "wstart" if x["action"] == "START" else x["action"]
                out.append(ev("Ckpt", i=step_parent[oid], k=k, rej=bool(x["rejected"])))
        elif n == "EvSet":
            if not seen_set:
                out.append(ev("EvSet", susp=x["susp"]))      # only the first set() changes anything
            seen_set = True
        elif n == "Resubmit":
            out.append(ev("Resubmit", i=x["i"]))
        elif n == "CkptEmpty":
            out.append(ev("Refresh"))
        elif n == "Build":
            out.append(ev("Build", items=x["items"], reason=x["reason"]))
        elif n == "ExReturn":
            how = x["how"].split(":")[0]
            out.append(ev("ExReturn", how=how))
    if cfg is None:
        raise Unsupported("no ExStart")
    return {"cf": cfg, "evs": out}
