"""Program interpreter: turns a `Prog` value (JSON-able dict, the same shape the TLA+ specs use) into a real
handler that only uses the SDK's public API, with scripted, deterministic user functions that record
what they observed.

Program grammar (each node is a dict; `k` = kind):
  step   : sem ALO|AMO, fail (number of failing attempts, -1 = always), max (max attempts), delay, caught, val, gate
  wait   : s
  cb     : between [nodes], caught, timeout                  (create_callback ... result())
  invoke : caught
  wfc    : polls (poll number at which the strategy says stop), fail_at (poll number that raises, 0=never), delay, caught
  child  : body [nodes], caught, large, summary, raises
  wfcb   : caught, fail (submitter failures), max               (wait_for_callback)
  any    : mutate (the program modifies the delivered list / dict / set in place)
  map/par: branches [[nodes]...], maxc, cfg {min, tolc, tolp} | None, caught, large
  log    : pt
Paths are strings: "1", "2", "3/1", "4/b0/2" ... exactly the structure operation ids are derived from.
"""
from __future__ import annotations

import copy
import datetime
import decimal
import hashlib
import uuid

from . import detsched as ds

CHECKPOINT_LIMIT = 256 * 1024


def op_id(parent_id: str | None, n: int) -> str:
    """Independent re-computation of the SDK's id scheme (C08 oracle)."""
    s = f"{parent_id}-{n}" if parent_id else str(n)
    return hashlib.blake2b(s.encode()).hexdigest()[:64]


def path_id(path: str) -> str:
    """Id of the operation at structural path 'a/b/c' where components are ints or 'b<i>' (branch index i)."""
    pid = None
    for comp in path.split("/"):
        if ".t" in comp:
            # below a context opened by a user thread on a shared context: the call index depends on the arrival order of the threads
            return "unknown:" + path
        n = int(comp[1:]) if comp.startswith("b") else int(comp)
        pid = op_id(pid, n)
    return pid


def typed_repr(v) -> str:
    """Canonical text of a value including Python types at every level (C02/C15 equality)."""
    from aws_durable_execution_sdk_python.concurrency.models import BatchResult
    if v is None:
        return "None"
    t = type(v)
    if t is bool:
        return f"bool:{v}"
    if t is int:
        return f"int:{v}"
    if t is float:
        return f"float:{v!r}"
    if t is str:
        return f"str:{v!r}"
    if t is bytes:
        return f"bytes:{v!r}"
    if t is uuid.UUID:
        return f"uuid:{v}"
    if t is decimal.Decimal:
        return f"dec:{v.as_tuple()}"
    if t is datetime.datetime:
        return f"dt:{v.isoformat()}|{v.tzinfo!r}|{v.fold}"
    if t is datetime.date:
        return f"date:{v.isoformat()}"
    if t is list:
        return "list[" + ",".join(typed_repr(x) for x in v) + "]"
    if t is tuple:
        return "tuple(" + ",".join(typed_repr(x) for x in v) + ")"
    if t is dict:
        return "dict{" + ",".join(f"{typed_repr(k)}=>{typed_repr(x)}" for k, x in v.items()) + "}"
    if isinstance(v, BatchResult):
        items = []
        for it in v.all:
            e = None if it.error is None else (it.error.type, it.error.message)
            items.append(f"({it.index},{it.status.value},{typed_repr(it.result)},{e})")
        return f"BatchResult[{v.completion_reason.value}:" + ",".join(items) + "]"
    return f"{t.__name__}:{v!r}"


def exc_repr(e: BaseException) -> str:
    et = getattr(e, "error_type", None)
    return f"{type(e).__name__}|{e}|{et}"


VALUE_POOL = [
    lambda p, a: {"p": p, "a": a},
    lambda p, a: [1, 2.5, "x", None, True],
    lambda p, a: (1, (2, "t"), [3]),
    lambda p, a: {"t": "s", "v": p},                      # envelope look-alike
    lambda p, a: decimal.Decimal("10.500"),
    lambda p, a: datetime.datetime(2024, 5, 6, 7, 8, 9, 123456, tzinfo=datetime.timezone(datetime.timedelta(hours=2))),
    lambda p, a: {"k": (1, 2), "b": b"\x00\xff", "u": uuid.UUID(int=7), "d": datetime.date(2020, 2, 29)},
    lambda p, a: None,
    lambda p, a: f"plain-{p}-{a}",
    lambda p, a: 2 ** 70,
]


def wfc_state(node, k):
    """State returned by poll k of a wait_for_condition node (k = 0: the configured initial state)."""
    if k == 0:
        return copy.deepcopy(node.get("init", {"n": 0, "h": []}))
    if "states" in node:
        st = node["states"]
        v = st[min(k, len(st)) - 1]
        if isinstance(v, dict) and set(v) == {"pool"}:
            return VALUE_POOL[v["pool"] % len(VALUE_POOL)]("wfc", k)     # a value of the serializer's richer domain (aware datetime, Decimal, bytes, ...)
        return copy.deepcopy(v)      # (the program text itself must not be reachable from user-visible values)
    return {"n": k, "h": list(range(1, k + 1))}


class UserError(Exception):
    pass


class OtherError(Exception):
    pass


ERR_TYPES = {"UserError": UserError, "ValueError": ValueError, "OtherError": OtherError, "KeyError": KeyError}


class Recorder:
    """Per-execution record. Events go to the current scheduler's totally ordered log."""

    def __init__(self, backend):
        self.backend = backend
        self.inv = 0
        self.fn_entries: dict = {}     # (path, attempt) -> count
        self.delivered: dict = {}      # path -> list of (inv, kind, repr)
        self.logs: list = []           # (inv, point, extras)
        self.gates: dict = {}          # name -> shim Event
        self.polls: dict = {}          # path -> list of (inv, attempt, state_repr)
        self.strategy_calls: dict = {} # path -> list of (inv, attempts_made, decision, delay)
        self.fn_running: set = set()
        self.cb_ids: dict = {}         # path -> list of (inv, callback id)
        self.names: dict = {}
        self.branch_out: dict = {}     # branch path -> list of (inv, "ok"|"err", repr) : what the branch body really returned / raised

    def log(self, ev, **kw):
        s = ds._CURRENT_SCHED
        if s is not None and s.aborting:
            raise ds.Abort()          # the process is dead (crash): nothing more is observed or executed
        if s is not None:
            if ev == "LogCall":
                kw["done"] = sorted(o for o, r in self.backend.ops.items() if r["Status"] in
                                    ("SUCCEEDED", "FAILED", "CANCELLED", "TIMED_OUT", "STOPPED") and r["Type"] != "EXECUTION")
            s.log(ev, inv=self.inv, **kw)

    def fn_enter(self, path, kind="step"):
        s0 = ds._CURRENT_SCHED
        if s0 is not None and s0.aborting:
            raise ds.Abort()
        oid = path_id(path)
        rec = self.backend.ops.get(oid)
        be_status = rec["Status"] if rec else None
        be_attempt = rec.get("_attempt", 0) if rec else 0
        attempt = be_attempt + 1
        key = (path, attempt)
        self.fn_entries[key] = self.fn_entries.get(key, 0) + 1
        self.fn_running.add(path)
        s = ds._CURRENT_SCHED
        if s is not None:
            s.progress()
        self.log("FnEnter", path=path, attempt=attempt, be=be_status, kind=kind)
        return attempt, be_status

    def fn_exit(self, path, ok):
        self.fn_running.discard(path)
        s = ds._CURRENT_SCHED
        if s is not None:
            s.progress()
        self.log("FnExit", path=path, ok=ok)

    def deliver(self, path, kind, rep):
        self.delivered.setdefault(path, []).append((self.inv, kind, rep))
        oid = path_id(path) if not path.endswith("#cb") else path_id(path[:-3])
        rec = self.backend.ops.get(oid)
        if rec is None and oid.startswith("unknown:"):
            # below a context opened by a user thread the id depends on the arrival order: find the operation by its name
            rec = next((r for r in self.backend.ops.values() if r.get("Name") == path), None)
        self.log("Deliver", path=path, kind=kind, rep=rep[:160], be=rec["Status"] if rec else None)

    def gate(self, name):
        ev = self.gates.get(name)
        if ev is None:
            return
        self.log("GateWait", gate=name)
        ev.wait()


class SinkLogger:
    """LoggerInterface implementation capturing emissions (C17)."""

    def __init__(self, rec: Recorder):
        self.rec = rec

    def _emit(self, level, msg, *args, extra=None):
        self.rec.logs.append((self.rec.inv, str(msg), dict(extra or {})))
        self.rec.log("LogEmit", pt=str(msg), extra={k: str(v)[:70] for k, v in (extra or {}).items()})

    def debug(self, msg, *args, extra=None):
        self._emit("debug", msg, *args, extra=extra)

    def info(self, msg, *args, extra=None):
        self._emit("info", msg, *args, extra=extra)

    def warning(self, msg, *args, extra=None):
        self._emit("warning", msg, *args, extra=extra)

    def error(self, msg, *args, extra=None):
        self._emit("error", msg, *args, extra=extra)

    def exception(self, msg, *args, extra=None):
        self._emit("exception", msg, *args, extra=extra)


def build_handler(prog: dict, rec: Recorder):
    """Return the undecorated handler function(event, context)."""
    from aws_durable_execution_sdk_python.config import (
        CallbackConfig, ChildConfig, CompletionConfig, Duration, InvokeConfig, MapConfig, ParallelConfig,
        StepConfig, StepSemantics, WaitForCallbackConfig)
    from aws_durable_execution_sdk_python.exceptions import InvocationError
    from aws_durable_execution_sdk_python.retries import RetryDecision
    from aws_durable_execution_sdk_python.waits import WaitForConditionConfig, WaitForConditionDecision

    def mk_retry(path, node):
        mx = node.get("max", 1)
        delay = node.get("delay", 1)

        def strat(err, attempts_made):
            retry = attempts_made < mx
            rec.strategy_calls.setdefault(path, []).append((rec.inv, attempts_made, retry, delay))
            rec.log("StrategyCall", path=path, attempts=attempts_made, retry=retry, delay=delay, err=type(err).__name__)
            return RetryDecision.retry(Duration(seconds=delay)) if retry else RetryDecision.no_retry()
        return strat

    def value_for(node, path, attempt):
        v = node.get("val")
        if v is None:
            return {"p": path, "a": attempt}
        if isinstance(v, int):
            return VALUE_POOL[v % len(VALUE_POOL)](path, attempt)
        if isinstance(v, dict) and "size" in v:
            return "L" * int(v["size"])
        return v

    def run_nodes(ctx, nodes, prefix, obs):
        """Run the nodes of one context in order; operation n of the context gets path prefix+str(n)."""
        i = 0
        for node in nodes:
            k = node["k"]
            if k == "log":
                rec.log("LogCall", pt=f"{prefix}@{node['pt']}")
                # every level of the logger interface is replay-aware (lvl: debug / info / warning / error / exception)
                getattr(ctx.logger, node.get("lvl", "info"))(f"{prefix}@{node['pt']}")
                continue
            i += 1
            run_node(ctx, node, f"{prefix}{i}", obs)
            if k == "cb":
                # operations between create_callback and result() consumed the next counter values
                i += sum(1 for n in node.get("between", []) if n["k"] != "log")

    def guarded(node, path, obs, thunk):
        """Run one durable call; record what it delivered; honour `caught`."""
        try:
            v = thunk()
        except Exception as e:  # ordinary errors only: SDK BaseExceptions (suspend, orphan, background) propagate
            rec.deliver(path, "error", exc_repr(e))
            # caught=True: try/except by ordinary exception classes (invocation-level errors are left to propagate, as the SDK
            # requires); caught="all": a blanket `except Exception` that swallows everything (C06/C18: must still be fail-stop)
            if node.get("caught") == "all" or (node.get("caught") and not isinstance(e, InvocationError)):
                obs.append("E:" + exc_repr(e))
                return None
            raise
        rec.deliver(path, "value", typed_repr(v))
        obs.append(typed_repr(v))
        if node.get("mutate"):
            # user code that modifies what it was given (in place): the next delivery at this position - and any other position
            # with an equal recorded value - must not see the modification
            if isinstance(v, list):
                v.append("mutated-by-user")
            elif isinstance(v, dict):
                v["mutated-by-user"] = True
            elif isinstance(v, (set, bytearray)):
                v.clear()
        return v

    def run_node(ctx, node, path, obs):
        k = node["k"]
        name = path
        if k == "step":
            def fn(step_ctx, node=node, path=path):
                attempt, be = rec.fn_enter(path)
                if node.get("loginside"):
                    rec.log("LogCall", pt=f"{path}@inside")
                    step_ctx.logger.info(f"{path}@inside")
                rec.gate(node.get("gate") or f"fn:{path}")
                if node.get("dur"):
                    ds.vsleep(node["dur"])      # the user function takes (virtual) time
                nfail = node.get("fail", 0)
                if nfail == -1 or attempt <= nfail:
                    rec.fn_exit(path, False)
                    if node.get("errmsg") is not None:
                        # an exception with a given (possibly empty) message: `raise ValueError` / `raise ValueError("")`
                        arg = {"<set>": {1, 2}, "<exc>": KeyError("inner"), "<long>": "long message " + "E" * 40000}.get(node["errmsg"], node["errmsg"]) \
                            if isinstance(node["errmsg"], str) else node["errmsg"]
                        raise ERR_TYPES[node.get("errtype", "UserError")](*([arg] if node["errmsg"] != "<none>" else []))
                    raise ERR_TYPES[node.get("errtype", "UserError")](f"fail {path} a{attempt}")
                v = value_for(node, path, attempt)
                rec.fn_exit(path, True)
                return v
            sem = StepSemantics.AT_MOST_ONCE_PER_RETRY if node.get("sem") == "AMO" else StepSemantics.AT_LEAST_ONCE_PER_RETRY
            if node.get("strategy") == "pkg":
                from aws_durable_execution_sdk_python.config import JitterStrategy
                from aws_durable_execution_sdk_python.retries import RetryStrategyConfig, create_retry_strategy
                rs = create_retry_strategy(RetryStrategyConfig(max_attempts=node.get("max", 1),
                                                               initial_delay=Duration(seconds=node.get("delay", 1)),
                                                               backoff_rate=1, jitter_strategy=JitterStrategy.NONE))
            elif node.get("strategy") == "default":
                rs = None
            else:
                rs = mk_retry(path, node)
            cfg = StepConfig(retry_strategy=rs, step_semantics=sem)
            guarded(node, path, obs, lambda: ctx.step(fn, name=name, config=cfg))
        elif k == "wait":
            guarded(node, path, obs, lambda: ctx.wait(Duration(seconds=node.get("s", 1)), name=name))
        elif k == "cb":
            cfg = CallbackConfig(timeout=Duration(seconds=node.get("timeout", 0)))
            try:
                cb = ctx.create_callback(name=name, config=cfg)
            except Exception as e:
                rec.deliver(path + "#create", "error", exc_repr(e))
                raise
            rec.cb_ids.setdefault(path, []).append((rec.inv, cb.callback_id))
            rec.log("CbCreated", path=path, cbid=cb.callback_id)
            sub = []
            run_nodes_between(ctx, node.get("between", []), path, obs)
            rec.log("CbBetweenDone", path=path)
            guarded(node, path, obs, cb.result)
        elif k == "invoke":
            payload = node["payload"] if "payload" in node else {"from": path}
            guarded(node, path, obs, lambda: ctx.invoke("target-fn", payload, name=name, config=InvokeConfig()))
        elif k == "wfc":
            stop_at = node.get("polls", 1)
            fail_at = node.get("fail_at", 0)
            delay = node.get("delay", 1)

            def check(state, cctx, path=path):
                attempt, be = rec.fn_enter(path, kind="poll")
                rec.polls.setdefault(path, []).append((rec.inv, attempt, typed_repr(state)))
                rec.log("PollCall", path=path, attempt=attempt, state=typed_repr(state)[:80])
                rec.gate(f"fn:{path}")
                if node.get("dur"):
                    ds.vsleep(node["dur"])      # the check function takes (virtual) time
                if fail_at and attempt == fail_at:
                    rec.fn_exit(path, False)
                    raise UserError(f"poll fail {path} a{attempt}")
                new = wfc_state(node, attempt)
                if node.get("mutate_state") and isinstance(state, dict):
                    # a check function that updates the state object it was given IN PLACE and returns it
                    state.clear()
                    state.update(new if isinstance(new, dict) else {"v": new})
                    new = state
                rec.fn_exit(path, True)
                return new

            def wstrat(state, attempt, path=path):
                cont = attempt < stop_at
                rec.strategy_calls.setdefault(path, []).append((rec.inv, attempt, cont, delay))
                rec.log("WaitStrategyCall", path=path, attempt=attempt, cont=cont, delay=delay)
                if cont and node.get("raw_decision"):
                    # a strategy that builds the decision itself instead of going through the factory
                    return WaitForConditionDecision(should_continue=True, delay=Duration(seconds=delay))
                if cont:
                    return WaitForConditionDecision.continue_waiting(Duration(seconds=delay))
                return WaitForConditionDecision.stop_polling()
            cfg = WaitForConditionConfig(wait_strategy=wstrat, initial_state=wfc_state(node, 0))
            guarded(node, path, obs, lambda: ctx.wait_for_condition(check, cfg, name=name))
        elif k == "child":
            def body(cctx, node=node, path=path):
                rec.log("BodyEnter", path=path)
                inner = []
                run_nodes(cctx, node.get("body", []), path + "/", inner)
                if node.get("raises"):
                    raise UserError(f"child {path} raises")
                if node.get("large"):
                    return ["L" * (CHECKPOINT_LIMIT + 10), inner]
                if node.get("uni"):
                    # non-ASCII text: `uni` characters, 2 bytes each in UTF-8, 6 characters each in the default (escaped) JSON encoding
                    return "\u00e9" * int(node["uni"])
                if node.get("ser_size"):
                    # a string whose default serialization ('"' + chars + '"') has exactly ser_size characters
                    return "S" * (int(node["ser_size"]) - 2)
                return inner
            cfg = None
            if node.get("summary"):
                cfg = ChildConfig(summary_generator=lambda r: '{"summary": true}')
            guarded(node, path, obs, lambda: ctx.run_in_child_context(body, name=name, config=cfg))
        elif k == "uthreads":
            # user code that runs several child contexts CONCURRENTLY from its own threads, all opened on this one context
            # (the SDK documents id allocation on a shared context as thread-safe).  Names: "<path>.t<j>" and "<path>.t<j>/<n>"
            def worker(j, body):
                def fn(cctx, j=j, body=body):
                    inner = []
                    run_nodes(cctx, body, f"{path}.t{j}/", inner)
                    return inner
                try:
                    ctx.run_in_child_context(fn, name=f"{path}.t{j}")
                except Exception as e:  # noqa: BLE001
                    rec.log("UThreadError", path=f"{path}.t{j}", rep=exc_repr(e))
            ths = [ds.Thread(target=worker, args=(j, body), name=f"user-{path}-{j}") for j, body in enumerate(node["bodies"])]
            for th in ths:
                th.start()
            if not node.get("nojoin"):
                for th in ths:
                    th.join()
            # (nojoin: the handler goes on - and may return - while its helper threads are still inside durable calls)
        elif k == "wfcb":
            def submitter(cbid, wctx, path=path):
                # the submitter runs inside step "<path>/2"
                attempt, be = rec.fn_enter(path + "/2", kind="submitter")
                rec.cb_ids.setdefault(path + "/1", []).append((rec.inv, cbid))
                nfail = node.get("fail", 0)
                if attempt <= nfail:
                    rec.fn_exit(path + "/2", False)
                    raise UserError(f"submit fail {path} a{attempt}")
                rec.fn_exit(path + "/2", True)
            cfg = WaitForCallbackConfig(retry_strategy=mk_retry(path + "/2", node))
            guarded(node, path, obs, lambda: ctx.wait_for_callback(submitter, name=name, config=cfg))
        elif k in ("map", "par"):
            branches = node["branches"]
            cc = node.get("cfg")
            comp = None
            if cc is not None:
                comp = CompletionConfig(min_successful=cc.get("min"), tolerated_failure_count=cc.get("tolc"),
                                        tolerated_failure_percentage=cc.get("tolp"))

            def branch_fn(bctx, idx, path=path):
                bpath = f"{path}/b{idx}"
                rec.log("BranchEnter", path=bpath)
                rec.fn_running.add(bpath)
                try:
                    rec.gate(f"br:{bpath}")
                    inner = []
                    try:
                        run_nodes(bctx, branches[idx], bpath + "/", inner)
                        spec = node.get("braise") or []
                        if idx in spec or str(idx) in spec:
                            raise UserError(f"branch {bpath} raises")
                    except Exception as be:
                        rec.branch_out.setdefault(bpath, []).append((rec.inv, "err", exc_repr(be)))
                        raise
                    res = ["L" * (CHECKPOINT_LIMIT + 10), inner] if (node.get("large_item") or idx in (node.get("large_items") or [])) else inner
                    if idx in (node.get("medium_items") or []):
                        res = ["M" * (100 * 1024), inner]        # below the limit alone; three of them make the call's result oversized
                    rec.branch_out.setdefault(bpath, []).append((rec.inv, "ok", typed_repr(res)))
                    return res
                finally:
                    rec.fn_running.discard(bpath)
                    rec.log("BranchExit", path=bpath)
            sd_kw = {}
            if node.get("bad_serdes"):
                # the BatchResult of the whole call cannot be serialized (items can): the map / parallel context itself FAILs,
                # possibly while branches that lost an early completion are still running
                from aws_durable_execution_sdk_python.serdes import ExtendedTypeSerDes, SerDes as _SerDes

                class BrokenSerDes(_SerDes):
                    def serialize(self, value, serdes_context):
                        raise UserError(f"cannot serialize the result of {path}")

                    def deserialize(self, data, serdes_context):
                        raise UserError(f"cannot deserialize the result of {path}")
                sd_kw = {"serdes": BrokenSerDes(), "item_serdes": ExtendedTypeSerDes()}
            if node.get("item_serdes") == "wrap":
                # the caller's own item encoding, distinguishable from the default one: whatever decodes an item must use it
                import json as _j
                from aws_durable_execution_sdk_python.serdes import SerDes as _SerDes2

                class WrapSerDes(_SerDes2):
                    def serialize(self, value, serdes_context):
                        return _j.dumps({"w": value})

                    def deserialize(self, data, serdes_context):
                        return _j.loads(data)["w"]
                sd_kw = {"item_serdes": WrapSerDes()}
            if k == "map":
                kw = dict(sd_kw)
                if comp is not None:
                    kw["completion_config"] = comp
                cfg = MapConfig(max_concurrency=node.get("maxc"), **kw) if (comp is not None or node.get("maxc") or node.get("explicit_cfg") or sd_kw) else None
                guarded(node, path, obs,
                        lambda: ctx.map(list(range(len(branches))), lambda bctx, item, i, items: branch_fn(bctx, i),
                                        name=name, config=cfg))
            else:
                kw = dict(sd_kw)
                if comp is not None:
                    kw["completion_config"] = comp
                cfg = ParallelConfig(max_concurrency=node.get("maxc"), **kw) if (comp is not None or node.get("maxc") or node.get("explicit_cfg") or sd_kw) else None
                fns = [(lambda bctx, i=i: branch_fn(bctx, i)) for i in range(len(branches))]
                guarded(node, path, obs, lambda: ctx.parallel(fns, name=name, config=cfg))
        else:
            raise ValueError(f"unknown node kind {k}")

    def run_nodes_between(ctx, nodes, cbpath, obs):
        # nodes between create_callback and result(): they are siblings in the same context; numbering continues
        # from the callback's own index, so they are executed through the shared counter of `ctx`.
        for j, node in enumerate(nodes):
            if node["k"] == "log":
                rec.log("LogCall", pt=f"{cbpath}@{node['pt']}")
                ctx.logger.info(f"{cbpath}@{node['pt']}")
                continue
            comps = cbpath.split("/")
            base = int(comps[-1])
            # siblings after the callback take the next counter values
            nth = sum(1 for n in nodes[:j + 1] if n["k"] != "log")
            path = "/".join(comps[:-1] + [str(base + nth)])
            run_node(ctx, node, path, obs)

    def handler(event, context):
        context.set_logger(SinkLogger(rec))
        rec.log("HandlerEnter")
        obs = []
        run_nodes(context, prog["nodes"], "", obs)
        if prog.get("final_large") == "unicode":
            # 3.5 M characters: under the response limit counted in characters, 7 MB as UTF-8, 21 MB as \uXXXX escapes
            return ["\u00e9" * 3_500_000, obs]
        if prog.get("final_large"):
            return ["F" * (6 * 1024 * 1024), obs]
        frl = prog.get("final_raise_large")
        if frl == "escape":
            # 4 MiB of text whose JSON encoding (escaped quotes and newlines) is 8 MiB
            raise UserError('"\n' * (2 * 1024 * 1024))
        if frl == "unicode":
            raise UserError("\u00e9" * (2 * 1024 * 1024))      # 2 Mi characters, 12 MiB as \uXXXX escapes
        if frl == "boundary":
            # the message alone is below the limit, the encoded FAILED response (message + envelope) is above it
            raise UserError("E" * (6 * 1024 * 1024 - 50 - 40))
        if frl:
            raise UserError("E" * (6 * 1024 * 1024))
        if prog.get("final_raise") == "int":
            raise ValueError(404)                    # an exception whose single argument is not a string
        if prog.get("final_raise") == "set":
            raise RuntimeError({"a", "b"})           # ... and not even JSON-encodable
        if prog.get("final_raise"):
            raise UserError("handler raises")
        fv = prog.get("final_value")
        if fv:
            # the handler RETURNS something json cannot encode: the invocation must end FAILED (well-formed), not raise
            return {"set": {"a", "b"}, "bytes": b"\x00\xff", "datetime": datetime.datetime(2024, 5, 6, tzinfo=datetime.timezone.utc),
                    "decimal": [obs, decimal.Decimal("1.5")], "tuplekey": {(1, 2): obs}, "object": {"o": object()},
                    "nan": obs}[fv]
        return obs

    return handler


def count_ops(nodes) -> int:
    n = 0
    for node in nodes:
        if node["k"] == "log":
            continue
        n += 1
        if node["k"] == "cb":
            n += count_ops(node.get("between", []))
    return n
