"""Convert a recorded execution (harness/driver.py Execution) of a sequential program into the event
sequence consumed by spec/DurableTrace.tla.  The projection value -> symbol is defined here."""
from __future__ import annotations

import re

from .backend import FAULTS
from .interp import path_id
from .progspec import flatten

OP_KINDS = {"STEP", "WAIT", "CBCREATE", "INVOKE", "WFC", "CHILD_BEGIN"}

CLS = {"CallableRuntimeError": "Callable", "UserError": "Orig", "ValueError": "Orig", "OtherError": "Orig", "KeyError": "Orig",
       "StepInterruptedError": "Interrupted", "CallbackError": "Callback", "InvalidStateError": "InvalidState"}


class Unsupported(Exception):
    pass


def ev(name, **kw):
    d = {"ev": name, "i": 0, "att": 0, "cls": "", "sym": 0, "us": [], "ok": True, "fcls": "", "o": ""}
    d.update(kw)
    return d


def convert(execution) -> dict:
    prog = execution.prog
    try:
        instrs = flatten(prog)
    except ValueError as ex:       # map / parallel: validated against Executor.tla, not Durable.tla
        raise Unsupported(str(ex)) from None
    # wait_for_callback internals are not observed by the interpreter: their deliveries are 'quiet'
    by_path, by_id = {}, {}
    quiet_parents = set()
    for k, d in enumerate(instrs, 1):
        d["quiet"] = False
        if d["kind"] in ("CBCREATE", "INVOKE"):
            d["ext"] = ["SUCCEEDED", "FAILED", "TIMED_OUT", "STOPPED", "CANCELLED"]   # the trace fixes the outcome
    for k, d in enumerate(instrs, 1):
        by_path[d["path"]] = k
        if d["kind"] in OP_KINDS:
            by_id[path_id(d["path"])] = k
    # mark instrs of wfcb children quiet: recognised by the interpreter node kind
    def mark(nodes, prefix):
        i = 0
        for node in nodes:
            if node["k"] == "log":
                continue
            i += 1
            path = f"{prefix}{i}"
            if node["k"] == "wfcb":
                for sub in (path + "/1", path + "/2", path + "/1#r"):
                    instrs[by_path[sub] - 1]["quiet"] = True
            if node["k"] == "child":
                mark(node.get("body", []), path + "/")
            if node["k"] == "cb":
                extra = [n for n in node.get("between", []) if n["k"] != "log"]
                # between nodes are numbered after the callback
                comps = path.split("/")
                for j, sub in enumerate(extra, 1):
                    sp = "/".join(comps[:-1] + [str(int(comps[-1]) + j)])
                    if sub["k"] == "child":
                        mark(sub.get("body", []), sp + "/")
                i += len(extra)
    mark(prog["nodes"], "")
    wfc_nodes = {}
    custom_val = set()
    custom_err = set()        # steps whose scripted exception message does not encode the attempt

    def collect(nodes, prefix):
        i = 0
        for node in nodes:
            if node["k"] == "log":
                continue
            i += 1
            path = f"{prefix}{i}"
            if node["k"] == "wfc":
                wfc_nodes[path] = node
            if node["k"] == "step" and node.get("val") is not None:
                custom_val.add(path)
            if node["k"] == "step" and node.get("errmsg") is not None:
                custom_err.add(path)
            if node["k"] == "child":
                collect(node.get("body", []), path + "/")
            if node["k"] == "cb":
                extra = [n for n in node.get("between", []) if n["k"] != "log"]
                comps = path.split("/")
                for j, sub in enumerate(extra, 1):
                    if sub["k"] == "wfc":
                        wfc_nodes["/".join(comps[:-1] + [str(int(comps[-1]) + j)])] = sub
                    if sub["k"] == "step" and sub.get("val") is not None:
                        custom_val.add("/".join(comps[:-1] + [str(int(comps[-1]) + j)]))
                i += len(extra)
    collect(prog["nodes"], "")

    def idx_of_path(path, for_delivery=False):
        k = by_path.get(path)
        if k is None:
            raise Unsupported(f"path {path}")
        if for_delivery and instrs[k - 1]["kind"] == "CBCREATE":
            return by_path[path + "#r"]
        return k

    def sym_of(k, kind, rep):
        d = instrs[k - 1]
        ik = d["kind"]
        if kind == "value":
            if ik == "STEP":
                if d["path"] in custom_val:
                    return -1          # the scripted value does not encode the attempt: symbol not projected
                m = re.search(r"'a'=>int:(\d+)", rep)
                return int(m.group(1)) if m else -2
            if ik == "WFC":
                node = wfc_nodes.get(d["path"])
                if node is not None and "states" in node:
                    from .interp import typed_repr, wfc_state
                    for kk in range(node.get("polls", 1), 0, -1):
                        if typed_repr(wfc_state(node, kk)) == rep:
                            return kk
                    return -2
                m = re.search(r"'n'=>int:(\d+)", rep)
                return int(m.group(1)) if m else -2
            if ik == "WAIT":
                return 0
            if ik == "CBRESULT":
                return d["cb"]
            if ik in ("INVOKE", "CHILD_BEGIN", "CBCREATE"):
                return k
            return -2
        # errors: rep = Class|message|error_type
        cls = rep.split("|")[0]
        msg = rep.split("|")[1] if "|" in rep else ""
        if cls == "StepInterruptedError":
            return -1
        if ik == "STEP" and d["path"] in custom_err:
            return -1
        if ik in ("STEP", "WFC"):
            m = re.search(r" a(\d+)$", msg)
            if m:
                return int(m.group(1))
            return -1 if "previously interrupted" in msg else -2
        if ik == "CBRESULT":
            return d["cb"] if "Callback must exist" not in msg else 0
        return k

    out = []
    pending_call = None
    pending_applied = False
    pending_log = None
    skip_invend = False
    log_idx = {d["pt"]: k for k, d in enumerate(instrs, 1) if d["kind"] == "LOG"}
    for e in execution.trace:
        n = e["ev"]
        if n == "InvStart":
            sp = e.get("split")
            out.append(ev("InvStart", o="small" if (sp is not None and sp[0] <= 1) else ""))
        elif n == "LogCall":
            k = log_idx.get(e["pt"])
            if k is not None:
                pending_log = ev("Log", i=k, cls="nolog")
                out.append(pending_log)
        elif n == "Abort":
            # the process was killed right after (possibly inside) the log call: whether the record would have been emitted is unknown
            if pending_log is not None and out and out[-1] is pending_log:
                out.pop()
            pending_log = None
        elif n == "LogEmit":
            if pending_log is not None and log_idx.get(e["pt"]) == pending_log["i"]:
                pending_log["cls"] = "log"
                pending_log = None
        elif n == "ApiCall":
            us = []
            for oid, act in e["updates"]:
                if oid in by_id:
                    us.append([by_id[oid], act])
                elif oid.startswith("execution-result") or oid == "exec-op":
                    us.append([0, act])
                else:
                    raise Unsupported(f"update for unknown id {oid[:8]}")
            pending_call = ev("Api", us=us, ok=True)
            pending_applied = False
        elif n == "ApiApplied":
            pending_applied = True
        elif n == "ApiReturn":
            if pending_call is None:
                continue
            if e["ok"]:
                out.append(pending_call)
            else:
                name = e["err"].replace("-after-apply", "")
                if e["err"].endswith("-after-apply"):
                    pending_call["o"] = "applied"       # the backend applied the batch, the answer was lost
                pending_call["ok"] = False
                pending_call["fcls"] = "retriable" if FAULTS[name][3] else "fatal"
                out.append(pending_call)
            pending_call = None
        elif n == "GetStateFail":
            # fetching a further page of a checkpoint RESPONSE failed: the call was applied, the SDK treats it as failed
            last_api = next((x for x in reversed(out) if x["ev"] in ("Api", "InvStart")), None)
            if last_api is not None and last_api["ev"] == "InvStart" and out and out[-1] is last_api:
                # the initial history could not be loaded: the whole invocation is one "started and raised" step
                out[-1] = ev("InvLoadFail")
                skip_invend = True
                continue
            if last_api is None or last_api["ev"] != "Api" or not last_api["ok"]:
                raise Unsupported("page fetch failed at an unexpected point")
            last_api["ok"], last_api["o"], last_api["fcls"] = False, "applied", "retriable"
        elif n == "FnEnter":
            out.append(ev("FnEnter", i=idx_of_path(e["path"]), att=e["attempt"]))
        elif n == "Deliver":
            k = idx_of_path(e["path"], for_delivery=True)
            if e["kind"] == "value":
                out.append(ev("Deliver", i=k, cls="val", sym=sym_of(k, "value", e["rep"])))
            else:
                c = e["rep"].split("|")[0]
                out.append(ev("Deliver", i=k, cls=CLS.get(c, c), sym=sym_of(k, "error", e["rep"])))
        elif n == "CbCreated":
            k = idx_of_path(e["path"])
            out.append(ev("Deliver", i=k, cls="val", sym=k))
        elif n == "EnvTimer":
            out.append(ev("EnvTimer", i=by_id[e["id"]]))
        elif n == "EnvExternal":
            out.append(ev("EnvExt", i=by_id[e["id"]], o=e["outcome"]))
        elif n == "InvEnd":
            if pending_call is not None:
                if pending_applied:
                    # the backend applied the batch but the invocation died before the response arrived
                    out.append(pending_call)
                pending_call = None
            o = e["outcome"]
            if skip_invend:
                skip_invend = False
                if o != "RAISED":
                    raise Unsupported(f"history load failed but the invocation ended {o}")
                continue
            if o not in ("SUCCEEDED", "FAILED", "PENDING", "RAISED", "CRASHED"):
                raise Unsupported(f"invocation outcome {o}")
            out.append(ev("InvEnd", o=o))
    return {"prog": instrs, "evs": out}
