"""Drive the real OrderedLock / OrderedCounter under detsched and record OrderedLockTrace events."""
from __future__ import annotations

from . import detsched as ds
from . import install


class Boom(Exception):
    pass


class BoomBase(BaseException):
    """a holder may also leave its critical section with a BaseException (KeyboardInterrupt-like)"""


SPEC_EVENT = {"A1": "InnerAcq", "E1": "InnerAcq", "R1": "InnerAcq", "X1": "InnerAcq", "A2": "EvNew",
              "A2s": "EvSet", "E2s": "EvSet", "R2s": "EvSet", "A3": "InnerRel", "A3x": "InnerRel", "E3": "InnerRel",
              "R3": "InnerRel", "X3": "InnerRel", "A4": "EvWake", "A5": "AcqRet", "CS": "Body"}
UNLOGGED = ("ResetRet", "IncRet")


def expected_events(hist):
    """The events the harness must log along a labelled behaviour of OrderedLockGen.tla (silent actions dropped)."""
    out = []
    for h in hist:
        ev = SPEC_EVENT.get(h["a"])
        if ev is None:
            continue
        d = {"ev": ev, "t": h["t"], "q": h["q"], "b": h["b"]}
        if ev == "EvSet":
            d["c"] = list(h["c"])
        if ev == "AcqRet":
            d["o"] = h["o"]
        if ev == "Body":
            d["v"] = h["v"]
        out.append(d)
    return out


class GuidedStrategy(ds.Strategy):
    """Spec -> code: force the thread choices of a TLC behaviour.  At every scheduling decision the thread that logs the
    next expected event runs; `main` runs while that thread has not been spawned yet.  A behaviour the code cannot follow
    (the thread is not enabled, or keeps running without producing the event) is recorded in `diverged`."""

    def __init__(self, expected, patience=40):
        self.expected = expected
        self.evs = None
        self.diverged = None
        self.patience = patience
        self._k = -1
        self._same = 0

    def bind(self, evs):
        self.evs = evs

    def choose(self, sched, cands, can_time):
        if not cands:
            return "TIME"
        k = sum(1 for e in self.evs if e["ev"] not in UNLOGGED)
        if self.diverged is not None or k >= len(self.expected):
            return cands[0]
        want = self.expected[k]["t"]
        self._same = self._same + 1 if k == self._k else 0
        self._k = k
        for c in cands:
            if c.name == want and self._same <= self.patience:
                return c
        for c in cands:
            if c.name == "main":
                return c
        self.diverged = {"at_event": k, "want": self.expected[k], "enabled": [c.name for c in cands], "stalled": self._same > self.patience}
        return cands[0]


def run_lock(n_threads: int, rounds: int, breaker, strategy, counter_mode=False, max_steps=20000, resets=0, exc_kind="msg"):
    """breaker: (thread_name, round) or None.  resets: number of reset() calls made by one more thread ("rx") at
    scheduler-chosen moments.  Returns dict with trace, outcomes, verdict."""
    mods = install.install()
    sdk_thr = mods["threading"]
    from aws_durable_execution_sdk_python.exceptions import OrderedLockError

    evs: list = []
    if hasattr(strategy, "bind"):
        strategy.bind(evs)
    ev_call: dict = {}        # id(event) -> [t, r]
    cur_round: dict = {}
    outcomes: dict = {}
    got: dict = {}
    state = {"lock": None, "counter": 0}

    def tname():
        _, me = ds.current()
        return me.name if me else "env"

    def proj():
        lk = state["lock"]
        return {"q": len(lk._waiters), "b": bool(lk._is_broken)}

    def emit(ev, t=None, c=None, v=0, o=""):
        d = {"ev": ev, "t": t or tname(), "c": c or ["", 0], "v": v, "o": o}
        d.update(proj())
        evs.append(d)

    class LLock(ds.Lock):
        def acquire(self, blocking=True, timeout=-1):
            ok = super().acquire(blocking, timeout)
            if ok and state["lock"] is not None and self is state["lock"]._lock:
                emit("InnerAcq")
            return ok

        __enter__ = acquire

        def _hook(self, op, _self):
            if op == "release" and state["lock"] is not None and self is state["lock"]._lock:
                emit("InnerRel")

    class LEvent(ds.Event):
        def __init__(self):
            super().__init__()
            t = tname()
            ev_call[id(self)] = [t, cur_round.get(t, 0)]
            self._is_lock_event = state["lock"] is not None
            if self._is_lock_event:
                # created under _lock and appended to the deque before the next scheduling point:
                # log the append here (q is the length after the append)
                d = {"ev": "EvNew", "t": t, "c": ["", 0], "v": 0, "o": ""}
                d.update(proj())
                d["q"] += 1
                evs.append(d)

        def _hook(self, op, _self):
            if op == "set" and self._is_lock_event:
                emit("EvSet", c=ev_call[id(self)])

        def wait(self, timeout=None):
            r = super().wait(timeout)
            if self._is_lock_event:
                emit("EvWake")
            return r

    saved = (sdk_thr.Lock, sdk_thr.Event)
    sdk_thr.Lock, sdk_thr.Event = LLock, LEvent
    try:
        if counter_mode:
            ctr = sdk_thr.OrderedCounter()
            lock = ctr._lock
        else:
            ctr = None
            lock = sdk_thr.OrderedLock()
        state["lock"] = lock
        names = [f"t{i + 1}" for i in range(n_threads)]

        def worker(t):
            for r in range(1, rounds + 1):
                cur_round[t] = r
                had_new = [False]
                if counter_mode:
                    try:
                        v = ctr.increment()
                        outcomes[(t, r)] = "ok"
                        got[(t, r)] = v
                        emit("IncRet", t=t, c=[t, r], v=v)
                    except OrderedLockError:
                        outcomes[(t, r)] = "lock_error"
                    continue
                n_before = len(evs)
                try:
                    with lock:
                        emit("AcqRet", o="ok")
                        if breaker is not None and (t, r) == tuple(breaker):
                            emit("Body", v=0)
                            # the exception the holder leaves with: with a message, without any argument, or a BaseException
                            if exc_kind == "bare":
                                raise Boom
                            if exc_kind == "base":
                                raise BoomBase
                            raise Boom(f"boom {t} {r}")
                        state["counter"] += 1
                        got[(t, r)] = state["counter"]
                        emit("Body", v=state["counter"])
                    outcomes[(t, r)] = "ok"
                except (Boom, BoomBase):
                    outcomes[(t, r)] = "own_exception"
                except ds.Abort:
                    raise
                except OrderedLockError:
                    outcomes[(t, r)] = "lock_error"
                    # path A5 (woken, then saw broken) is logged; path A2-broken/A3x has no AcqRet in the spec
                    if any(e["ev"] == "EvWake" and e["t"] == t for e in evs[n_before:]):
                        emit("AcqRet", o="lock_error")
                except Exception as e:  # noqa: BLE001 - anything else is neither the holder's own exception nor an ordered-lock error
                    outcomes[(t, r)] = f"unexpected:{type(e).__name__}"

        reset_results: list = []

        def resetter():
            ok = 0
            for _ in range(resets):
                try:
                    lock.reset()
                    ok += 1
                    reset_results.append("ok")
                except OrderedLockError:
                    reset_results.append("refused")
                emit("ResetRet", t="rx", v=ok)

        def main():
            ths = [ds.Thread(target=worker, args=(n,), name=n) for n in names]
            if resets and not counter_mode:
                ths.append(ds.Thread(target=resetter, name="rx"))
            for th in ths:
                th.start()
            for th in ths:
                th.join()

        sched = ds.Scheduler(strategy, max_steps=max_steps, hang_after=30.0)
        sched.name_for_thread = lambda th: th._name
        sched.run(main, name="main")
    finally:
        sdk_thr.Lock, sdk_thr.Event = saved
    return {"evs": evs, "outcomes": {f"{k[0]}:{k[1]}": v for k, v in outcomes.items()},
            "got": {f"{k[0]}:{k[1]}": v for k, v in got.items()},
            "verdict": sched.verdict, "verdict_info": sched.verdict_info, "steps": sched.steps,
            "breaker": list(breaker) if breaker else ["NoCall", 0], "choices": sched.choices,
            "n_threads": n_threads, "rounds": rounds, "counter_mode": counter_mode, "resets": resets, "exc_kind": exc_kind,
            "reset_results": reset_results}
