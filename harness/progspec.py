"""Program -> TLA+: flatten a JSON program (the one harness/interp.py runs) into the instruction sequence
`Prog` of spec/Durable.tla, and emit the MC module + cfg for TLC."""
from __future__ import annotations

import os

ALWAYS = 99


def eff_large(node) -> bool:
    """Is the value a child context returns over the checkpoint size limit?  Its own flag, or - since the interpreter's child
    returns the list of what its body observed - any nested child whose (oversized) value it contains."""
    if node.get("k") != "child" or node.get("raises"):
        return False
    if node.get("large") or int(node.get("ser_size", 0)) > 256 * 1024 or 6 * int(node.get("uni", 0)) + 2 > 256 * 1024:
        return True
    return any(eff_large(n) for n in node.get("body", []))


def flatten(prog: dict, ext_default=("SUCCEEDED",)):
    """Return list of instruction dicts (1-based indices in fields)."""
    out: list[dict] = []

    def base(kind, path, parent, **kw):
        d = {"kind": kind, "path": path, "parent": parent, "sem": "", "failFirst": 0, "maxAtt": 1, "caught": False,
             "polls": 1, "failAt": 0, "large": False, "endIdx": 0, "begin": 0, "raises": False, "cb": 0,
             "ext": list(ext_default), "pt": "", "quiet": False}
        d.update(kw)
        out.append(d)
        return len(out)

    def walk(nodes, prefix, parent):
        i = 0
        for node in nodes:
            k = node["k"]
            if k == "log":
                base("LOG", prefix, parent, pt=f"{prefix}@{node['pt']}")
                continue
            i += 1
            path = f"{prefix}{i}"
            i += emit(node, path, parent)

    def emit(node, path, parent) -> int:
        """emit instructions for node; return the number of EXTRA counter values it consumed in its own context"""
        k = node["k"]
        if k == "step":
            f = node.get("fail", 0)
            base("STEP", path, parent, sem="AMO" if node.get("sem") == "AMO" else "ALO",
                 failFirst=ALWAYS if f == -1 else f, maxAtt=node.get("max", 1), caught=bool(node.get("caught")))
        elif k == "wait":
            base("WAIT", path, parent, caught=bool(node.get("caught")))
        elif k == "invoke":
            base("INVOKE", path, parent, caught=bool(node.get("caught")), ext=list(node.get("ext", ext_default)))
        elif k == "wfc":
            base("WFC", path, parent, polls=node.get("polls", 1), failAt=node.get("fail_at", 0), caught=bool(node.get("caught")))
        elif k == "cb":
            ci = base("CBCREATE", path, parent, ext=list(node.get("ext", ext_default)))
            comps = path.split("/")
            n0 = int(comps[-1])
            extra = 0
            for sub in node.get("between", []):
                if sub["k"] == "log":
                    base("LOG", "/".join(comps[:-1] + [""]) if len(comps) > 1 else "", parent, pt=f"{path}@{sub['pt']}")
                    continue
                extra += 1
                sp = "/".join(comps[:-1] + [str(n0 + extra)])
                extra += emit(sub, sp, parent)
            base("CBRESULT", path + "#r", parent, cb=ci, caught=bool(node.get("caught")))
            return extra
        elif k == "child":
            bi = base("CHILD_BEGIN", path, parent, caught=bool(node.get("caught")), large=eff_large(node),
                      raises=bool(node.get("raises")))
            walk(node.get("body", []), path + "/", bi)
            ei = base("CHILD_END", path + "#e", parent, begin=bi)
            out[bi - 1]["endIdx"] = ei
        elif k == "wfcb":
            bi = base("CHILD_BEGIN", path, parent, caught=bool(node.get("caught")))
            ci = base("CBCREATE", path + "/1", bi, ext=list(node.get("ext", ext_default)))
            f = node.get("fail", 0)
            base("STEP", path + "/2", bi, sem="ALO", failFirst=ALWAYS if f == -1 else f, maxAtt=node.get("max", 1))
            base("CBRESULT", path + "/1#r", bi, cb=ci)
            ei = base("CHILD_END", path + "#e", parent, begin=bi)
            out[bi - 1]["endIdx"] = ei
        else:
            raise ValueError(f"node kind {k} not supported by Durable.tla")
        return 0

    walk(prog["nodes"], "", 0)
    base("END", "", 0, large=bool(prog.get("final_large") or prog.get("final_raise_large")),
         raises=bool(prog.get("final_raise") or prog.get("final_raise_large") or prog.get("final_value")))
    return out


def tla_value(v):
    if isinstance(v, bool):
        return "TRUE" if v else "FALSE"
    if isinstance(v, int):
        return str(v)
    if isinstance(v, str):
        return '"' + v + '"'
    if isinstance(v, (list, tuple)):
        return "<<" + ", ".join(tla_value(x) for x in v) + ">>"
    raise TypeError(v)


def prog_tla(instrs) -> str:
    recs = []
    for d in instrs:
        recs.append("[" + ", ".join(f"{k} |-> {tla_value(v)}" for k, v in d.items()) + "]")
    return "<<\n  " + ",\n  ".join(recs) + "\n>>"


def write_mc(dirpath: str, name: str, instrs, *, module="Durable", spec="Spec", max_crashes=1, max_api_fails=0, max_inv=5,
             immediate_ext=False, amo_ready_start=False, with_paging=False, invariants=(), properties=(), deadlock=False, extra_defs="",
             constraint=None) -> tuple[str, str]:
    os.makedirs(dirpath, exist_ok=True)
    mod = f"MC_{name}"
    with open(os.path.join(dirpath, mod + ".tla"), "w") as f:
        f.write(f"---- MODULE {mod} ----\nEXTENDS {module}\nProgDef == {prog_tla(instrs)}\nMCInit == prog = ProgDef /\\ Init\n"
                f"MCSpec == MCInit /\\ [][NextP]_<<vars, prog>>\n"
                f"MCFairSpec == MCSpec /\\ WF_vars(UserStep) /\\ WF_vars(PipeStep) /\\ WF_vars(EnvStep) /\\ WF_vars(StartInvocation)\n"
                f"{extra_defs}\n====\n")
    cfg = [f"SPECIFICATION MC{spec}", "CONSTANTS", f"  MaxCrashes = {max_crashes}",
           f"  MaxApiFails = {max_api_fails}", f"  MaxInv = {max_inv}",
           f"  ImmediateExt = {'TRUE' if immediate_ext else 'FALSE'}",
           f"  AmoReadyStart = {'TRUE' if amo_ready_start else 'FALSE'}",
           f"  WithPaging = {'TRUE' if with_paging else 'FALSE'}"]
    cfg += [f"INVARIANT {i}" for i in invariants]
    cfg += [f"PROPERTY {p}" for p in properties]
    if constraint:
        cfg.append(f"CONSTRAINT {constraint}")
    cfg.append(f"CHECK_DEADLOCK {'TRUE' if deadlock else 'FALSE'}")
    cfgp = os.path.join(dirpath, mod + ".cfg")
    with open(cfgp, "w") as f:
        f.write("\n".join(cfg) + "\n")
    return os.path.join(dirpath, mod + ".tla"), cfgp
