"""C20 binding G: concretise the abstract instances enumerated by TLC on spec/Wire.tla, run the REAL codecs of
lambda_service.py / execution.py on them and compare (i) with the model's prediction, (ii) with the property.

Everything here is independent of the SDK's codecs except the calls to them:
  * SCH        one schema per model class: (attribute, leaf kind, wire key); drives building, flattening,
               the exact ("ideal") reference encoder and the abstraction of real wire dictionaries;
  * pools      concrete leaf values per abstract token (documented below);
  * ts_*       exact integer-microsecond arithmetic for timestamps (the oracle never uses floats);
  * classify   which abstract timestamp class a concrete datetime belongs to.  The classes "epoch0", "unlucky"
               and "drift" are DEFINED through the float formulas of the ORIGINAL TimestampConverter (transcribed
               here as code_ms / code_from_ms), because that is what the model's tokens mean: instants the original
               code altered.  They stay in the pools as regression inputs for the repaired code.  The oracle does
               not use these formulas.
"""
from __future__ import annotations

import datetime as D
import os
import sys

REPO = os.environ.get("VERIF_REPO", "/repo")
if os.path.join(REPO, "src") not in sys.path:
    sys.path.insert(0, os.path.join(REPO, "src"))

from aws_durable_execution_sdk_python import lambda_service as LS  # noqa: E402
from aws_durable_execution_sdk_python import execution as EX  # noqa: E402
from aws_durable_execution_sdk_python.identifier import OperationIdentifier  # noqa: E402

UTC = D.timezone.utc
EPOCH = D.datetime(1970, 1, 1, tzinfo=UTC)


class _Mark:
    def __init__(self, n):
        self.n = n

    def __repr__(self):
        return self.n


OBJ, NOOBJ, NOLEAF = _Mark("<obj>"), _Mark("<noobj>"), _Mark("<no-leaf>")


class Raw:
    """A value of the wrong type found where a nested model object (or None) belongs."""

    def __init__(self, v):
        self.v = v

    def __repr__(self):
        return f"<raw {type(self.v).__name__} {self.v!r}>"

CLASSES = {
    "ErrorObject": LS.ErrorObject, "ContextOptions": LS.ContextOptions, "StepOptions": LS.StepOptions,
    "WaitOptions": LS.WaitOptions, "CallbackOptions": LS.CallbackOptions, "ChainedInvokeOptions": LS.ChainedInvokeOptions,
    "OperationUpdate": LS.OperationUpdate, "Operation": LS.Operation, "ExecutionDetails": LS.ExecutionDetails,
    "ContextDetails": LS.ContextDetails, "StepDetails": LS.StepDetails, "WaitDetails": LS.WaitDetails,
    "CallbackDetails": LS.CallbackDetails, "ChainedInvokeDetails": LS.ChainedInvokeDetails,
    "InvocationOutput": EX.DurableExecutionInvocationOutput, "InvocationInput": EX.DurableExecutionInvocationInput,
    "InitialExecutionState": EX.InitialExecutionState, "StateOutput": LS.StateOutput,
    "CheckpointUpdatedExecutionState": LS.CheckpointUpdatedExecutionState, "CheckpointOutput": LS.CheckpointOutput,
}
ENUMS = {"OperationType": LS.OperationType, "OperationStatus": LS.OperationStatus, "OperationSubType": LS.OperationSubType,
         "OperationAction": LS.OperationAction, "InvocationStatus": EX.InvocationStatus}
# the enumerations as written in Wire.tla (checked against the real Enum classes by c20.py)
TLA_ENUMS = {
    "OperationType": {"EXECUTION", "CONTEXT", "STEP", "WAIT", "CALLBACK", "CHAINED_INVOKE"},
    "OperationStatus": {"STARTED", "PENDING", "READY", "SUCCEEDED", "FAILED", "CANCELLED", "TIMED_OUT", "STOPPED"},
    "OperationSubType": {"Step", "Wait", "Callback", "RunInChildContext", "Map", "MapIteration", "Parallel", "ParallelBranch",
                         "WaitForCallback", "WaitForCondition", "ChainedInvoke"},
    "OperationAction": {"START", "SUCCEED", "FAIL", "RETRY", "CANCEL"},
    "InvocationStatus": {"SUCCEEDED", "FAILED", "PENDING"},
}

# leaf kinds: ostr optional str | pstr optional payload str | mstr marker str (default "") | rstr required str | bool | int |
#             ts optional datetime | stack optional list[str] | enum:<E> | oenum:<E> (optional)
# nested:     obj:<C> optional object | robj:<C> required object | list:<C>
_ERR = ("error", "obj:ErrorObject", "Error")
SCH = {
    "ErrorObject": [("message", "ostr", "ErrorMessage"), ("type", "ostr", "ErrorType"), ("data", "ostr", "ErrorData"),
                    ("stack_trace", "stack", "StackTrace")],
    "ContextOptions": [("replay_children", "bool", "ReplayChildren")],
    "StepOptions": [("next_attempt_delay_seconds", "int", "NextAttemptDelaySeconds")],
    "WaitOptions": [("wait_seconds", "int", "WaitSeconds")],
    "CallbackOptions": [("timeout_seconds", "int", "TimeoutSeconds"), ("heartbeat_timeout_seconds", "int", "HeartbeatTimeoutSeconds")],
    "ChainedInvokeOptions": [("function_name", "rstr", "FunctionName"), ("tenant_id", "ostr", "TenantId")],
    "OperationUpdate": [("operation_id", "rstr", "Id"), ("operation_type", "enum:OperationType", "Type"),
                        ("action", "enum:OperationAction", "Action"), ("parent_id", "ostr", "ParentId"), ("name", "ostr", "Name"),
                        ("sub_type", "oenum:OperationSubType", "SubType"), ("payload", "pstr", "Payload"), _ERR,
                        ("context_options", "obj:ContextOptions", "ContextOptions"), ("step_options", "obj:StepOptions", "StepOptions"),
                        ("wait_options", "obj:WaitOptions", "WaitOptions"), ("callback_options", "obj:CallbackOptions", "CallbackOptions"),
                        ("chained_invoke_options", "obj:ChainedInvokeOptions", "ChainedInvokeOptions")],
    "ExecutionDetails": [("input_payload", "pstr", "InputPayload")],
    "ContextDetails": [("replay_children", "bool", "ReplayChildren"), ("result", "pstr", "Result"), _ERR],
    "StepDetails": [("attempt", "int", "Attempt"), ("next_attempt_timestamp", "ts", "NextAttemptTimestamp"), ("result", "pstr", "Result"), _ERR],
    "WaitDetails": [("scheduled_end_timestamp", "ts", "ScheduledEndTimestamp")],
    "CallbackDetails": [("callback_id", "rstr", "CallbackId"), ("result", "pstr", "Result"), _ERR],
    "ChainedInvokeDetails": [("result", "pstr", "Result"), _ERR],
    "Operation": [("operation_id", "rstr", "Id"), ("operation_type", "enum:OperationType", "Type"), ("status", "enum:OperationStatus", "Status"),
                  ("parent_id", "ostr", "ParentId"), ("name", "ostr", "Name"), ("start_timestamp", "ts", "StartTimestamp"),
                  ("end_timestamp", "ts", "EndTimestamp"), ("sub_type", "oenum:OperationSubType", "SubType"),
                  ("execution_details", "obj:ExecutionDetails", "ExecutionDetails"), ("context_details", "obj:ContextDetails", "ContextDetails"),
                  ("step_details", "obj:StepDetails", "StepDetails"), ("wait_details", "obj:WaitDetails", "WaitDetails"),
                  ("callback_details", "obj:CallbackDetails", "CallbackDetails"),
                  ("chained_invoke_details", "obj:ChainedInvokeDetails", "ChainedInvokeDetails")],
    "InvocationOutput": [("status", "enum:InvocationStatus", "Status"), ("result", "pstr", "Result"), _ERR],
    "InitialExecutionState": [("operations", "list:Operation", "Operations"), ("next_marker", "mstr", "NextMarker")],
    "InvocationInput": [("durable_execution_arn", "rstr", "DurableExecutionArn"), ("checkpoint_token", "rstr", "CheckpointToken"),
                        ("initial_execution_state", "robj:InitialExecutionState", "InitialExecutionState")],
    "StateOutput": [("operations", "list:Operation", "Operations"), ("next_marker", "ostr", "NextMarker")],
    "CheckpointUpdatedExecutionState": [("operations", "list:Operation", "Operations"), ("next_marker", "ostr", "NextMarker")],
    "CheckpointOutput": [("checkpoint_token", "rstr", "CheckpointToken"),
                         ("new_execution_state", "robj:CheckpointUpdatedExecutionState", "NewExecutionState")],
}


def _compile():
    out = {}
    for c, sch in SCH.items():
        rows = []
        for attr, kind, w in sch:
            tag, sub = "leaf", None
            for t in ("obj", "robj", "list"):
                if kind.startswith(t + ":"):
                    tag, sub = t, kind.split(":")[1]
            rows.append((attr, kind, w, tag, sub))
        out[c] = rows
    return out


HAS_JSON = {"Operation", "InvocationInput", "InitialExecutionState"}
HAS_TO_DICT = {"ErrorObject", "ContextOptions", "StepOptions", "WaitOptions", "CallbackOptions", "ChainedInvokeOptions", "OperationUpdate",
               "Operation", "InvocationOutput", "InvocationInput", "InitialExecutionState"}


SCHC = _compile()


def recompile():
    SCHC.clear()
    SCHC.update(_compile())


# ------------------------------------------------------------------------------------------------ timestamps
def ts_us(dt: D.datetime) -> int:
    """Exact instant in integer microseconds since the epoch (aware datetimes only)."""
    td = dt - EPOCH
    return (td.days * 86400 + td.seconds) * 10 ** 6 + td.microseconds


def floor_ms(us: int) -> int:
    return us // 1000


def trunc0_ms(us: int) -> int:
    return -((-us) // 1000) if us < 0 else us // 1000


def code_ms(dt):
    """Transcription of the ORIGINAL TimestampConverter.to_unix_millis (before 23d37db)."""
    return int(dt.timestamp() * 1000)


def code_from_ms(ms):
    """Transcription of the ORIGINAL TimestampConverter.from_unix_millis (before 23d37db)."""
    return D.datetime.fromtimestamp(ms / 1000, tz=UTC)


def ms_equiv(o_us: int, b_us: int) -> bool:
    """b is o, or o truncated to the millisecond (floor, or toward zero for pre-epoch instants) - nothing else."""
    return b_us in (o_us, floor_ms(o_us) * 1000, trunc0_ms(o_us) * 1000)


def ts_same(o, b) -> bool:
    """The property's equality on timestamps: the same instant up to millisecond truncation; tzinfo may differ."""
    if o is None or o is NOLEAF:
        return b is None or b is NOLEAF
    if not isinstance(b, D.datetime) or b.tzinfo is None or not isinstance(o, D.datetime):
        return False
    return ms_equiv(ts_us(o), ts_us(b))


def classify(dt) -> str:
    if dt is None:
        return "absent"
    us = ts_us(dt)
    ms = code_ms(dt)
    if ms == 0:
        return "epoch0" if floor_ms(us) == 0 else "other"      # (-1 ms, 0): code-ms is 0 but the exact ms is -1
    if ms not in (floor_ms(us), trunc0_ms(us)):
        # int() truncates toward zero after the float product fell short of the integer: 1 ms early (1 ms late before 1970)
        return "unlucky" if (us % 1000 == 0 and ms == us // 1000 + (1 if us < 0 else -1)) else "other"
    if ts_us(code_from_ms(ms)) != ms * 1000 or ts_us(code_from_ms(floor_ms(us))) != floor_ms(us) * 1000:
        return "drift"
    if dt.utcoffset() != D.timedelta(0):
        return "tzoff"
    return "subms" if us % 1000 else "aligned"


def _tz(h, m=0):
    return D.timezone(D.timedelta(hours=h, minutes=m))


_CAND = [
    # epoch 0 (tz-aware UTC), the same instant in +02:00, and instants whose code-ms is 0
    D.datetime(1970, 1, 1, tzinfo=UTC), D.datetime(1970, 1, 1, 2, 0, tzinfo=_tz(2)), D.datetime(1970, 1, 1, 0, 0, 0, 400, tzinfo=UTC),
    D.datetime(1969, 12, 31, 23, 59, 59, 999600, tzinfo=UTC),
    # ms-aligned
    D.datetime(2025, 6, 1, 12, 34, 56, 789000, tzinfo=UTC), D.datetime(2026, 9, 26, tzinfo=UTC), D.datetime(2040, 2, 29, 23, 59, 59, 999000, tzinfo=UTC),
    D.datetime(1969, 7, 20, 20, 17, 40, tzinfo=UTC), D.datetime(1971, 1, 1, 0, 0, 0, 1000, tzinfo=UTC), D.datetime(2262, 4, 11, 23, 47, 16, 854000, tzinfo=UTC),
    D.datetime(2100, 1, 1, 0, 0, 0, 5000, tzinfo=UTC),
    # sub-millisecond (microsecond=123456 must come back truncated to .123)
    D.datetime(2025, 6, 1, 12, 34, 56, 123456, tzinfo=UTC), D.datetime(2026, 1, 1, 0, 0, 0, 1, tzinfo=UTC), D.datetime(2027, 3, 4, 5, 6, 7, 999999, tzinfo=UTC),
    D.datetime(1969, 12, 31, 23, 59, 58, 499600, tzinfo=UTC), D.datetime(2262, 1, 1, 0, 0, 7, 123456, tzinfo=UTC),
    # tz-aware, non-UTC offset
    D.datetime(2025, 6, 1, 14, 34, 56, 789000, tzinfo=_tz(2)), D.datetime(2025, 6, 1, 5, 34, 56, 789000, tzinfo=_tz(-7)),
    D.datetime(2025, 12, 31, 23, 59, 59, 123456, tzinfo=_tz(5, 30)), D.datetime(2026, 3, 29, 2, 30, 0, 500000, tzinfo=_tz(-7)),
    D.datetime(1969, 12, 31, 17, 0, 1, tzinfo=_tz(-7)),
    # ms-aligned instants for which int(dt.timestamp()*1000) is 1 ms early
    D.datetime(2038, 6, 1, 0, 0, 0, 2000, tzinfo=UTC), D.datetime(1970, 1, 1, 0, 0, 1, 1000, tzinfo=UTC), D.datetime(2004, 3, 1, 0, 0, 0, 1000, tzinfo=UTC),
    D.datetime(2038, 6, 1, 2, 0, 0, 9000, tzinfo=_tz(2)), D.datetime(2039, 1, 1, 0, 0, 0, 3000, tzinfo=UTC),
    D.datetime(1969, 6, 20, 4, 20, 58, 236000, tzinfo=UTC),        # pre-epoch: comes back 1 ms LATE (toward zero)
    # far future: fromtimestamp(ms/1000) is 1 us early
    D.datetime(2262, 1, 1, 0, 0, 15, 838000, tzinfo=UTC),
]
for _k in range(400):      # search a few more unlucky / drift representatives deterministically
    _CAND.append(D.datetime(2038, 9, 1, tzinfo=UTC) + D.timedelta(milliseconds=7919 * _k))
    _CAND.append(D.datetime(2262, 2, 1, tzinfo=UTC) + D.timedelta(milliseconds=7919 * _k))
TS_POOL: dict = {}
for _dt in _CAND:
    _c = classify(_dt)
    if _c != "other" and len(TS_POOL.setdefault(_c, [])) < 9:
        TS_POOL[_c].append(_dt)
assert all(TS_POOL.get(_c) for _c in ("epoch0", "aligned", "unlucky", "drift", "subms", "tzoff")), "empty timestamp pool"
NAIVE = [D.datetime(2025, 6, 1, 12, 34, 56, 789000), D.datetime(1970, 1, 1)]

# ------------------------------------------------------------------------------------------------ leaf pools
LONG = "L" * 3000
POOL = {
    ("ostr", "val"): ["x", "ünï", LONG, "0", " ", "null", "False"],
    ("pstr", "val"): ["0", '{"a":1}', "x", '""', "ünï", LONG, "null", "[]"],
    ("mstr", "val"): ["marker-1", "ünï", "0"],
    ("rstr", "val"): ["op-1", "ünï-id", "0", "9" * 200],
    ("int", "pos"): [1, 2, 2 ** 40, 7],
    ("stack", "val"): [["a"], ["File x, line 1", "ünï"], [""], ["l"] * 50],
}


def conc(kind: str, tok: str, rot: int):
    """Concrete value of abstract token `tok` for a leaf of kind `kind`; `rot` rotates through the pool."""
    if tok in ("absent", "none"):
        return None
    if kind in ("ostr", "pstr", "mstr", "rstr"):
        if tok in ("empty", "rempty"):
            return ""
        p = POOL[(kind, "val")]
        return p[rot % len(p)]
    if kind == "bool":
        return tok == "T"
    if kind == "int":
        return 0 if tok == "zero" else POOL[("int", "pos")][rot % 4]
    if kind == "stack":
        return [] if tok == "emptylist" else list(POOL[("stack", "val")][rot % 4])
    if kind == "ts":
        p = TS_POOL[tok]
        return p[rot % len(p)]
    if kind.startswith(("enum:", "oenum:")):
        return ENUMS[kind.split(":")[1]](tok)
    raise ValueError((kind, tok))


# ------------------------------------------------------------------------------------------------ build / flatten
def build(cls: str, leaves: dict, pf: str = ""):
    """Real object of class `cls` from a concrete leaf dictionary path -> value (OBJ / NOOBJ for nested objects)."""
    kw = {}
    for attr, kind, _w in SCH[cls]:
        p = pf + attr
        if kind.startswith("obj:"):
            kw[attr] = build(kind[4:], leaves, p + ".") if leaves.get(p) is OBJ else None
        elif kind.startswith("robj:"):
            kw[attr] = build(kind[5:], leaves, p + ".")
        elif kind.startswith("list:"):
            n = int(leaves.get(p + ".len", 0))
            kw[attr] = [build(kind[5:], leaves, f"{p}.{i}.") for i in range(n)]
        else:
            kw[attr] = leaves.get(p)
    return CLASSES[cls](**kw)


def flatten(obj, cls: str, pf: str = "", out=None, meta=None):
    """path -> concrete leaf (NOLEAF under an absent object); nested-object paths map to OBJ / NOOBJ (or Raw)."""
    if out is None:
        out = {}
    sch = SCHC.get(cls) or _compile().get(cls)
    for attr, kind, _w, tag, sub_cls in sch:
        p = pf + attr
        v = NOLEAF if obj is None else getattr(obj, attr)
        if tag == "leaf":
            out[p] = v
            if meta is not None:
                meta[p] = (cls, attr, kind)
        elif tag == "obj":
            sub = None if v is NOLEAF else v
            if sub is not None and not isinstance(sub, CLASSES[sub_cls]):
                out[p], sub = Raw(sub), None
            else:
                out[p] = OBJ if sub is not None else NOOBJ
            if meta is not None:
                meta[p] = (cls, attr, "obj")
            flatten(sub, sub_cls, p + ".", out, meta)
        elif tag == "robj":
            flatten(None if v is NOLEAF else v, sub_cls, p + ".", out, meta)
        else:
            items = [] if (v is NOLEAF or v is None) else list(v)
            out[p + ".len"] = len(items)
            if meta is not None:
                meta[p + ".len"] = (cls, attr, "len")
            for i, it in enumerate(items):
                flatten(it, sub_cls, f"{p}.{i}.", out, meta)
    return out


def leaf_same(kind: str, o, b) -> bool:
    """The property's ~ on one leaf: equality modulo ms truncation and empty-optional-string == absent."""
    if kind == "ts":
        return ts_same(o, b)
    if kind == "obj":          # presence itself is not compared (carve-out 3); a non-object is never acceptable
        return not isinstance(b, Raw) and not isinstance(o, Raw)
    if kind in ("ostr", "pstr", "mstr"):
        o = None if (o is NOLEAF or o == "") else o
        b = None if (b is NOLEAF or (isinstance(b, str) and b == "")) else b
        return type(o) is type(b) and o == b
    if kind.startswith("oenum:") or kind == "stack":
        o = None if o is NOLEAF else o
        b = None if b is NOLEAF else b
    if kind == "len":
        return o == b
    return type(o) is type(b) and o == b


def lost_leaves(cls: str, orig, back, fo=None, meta=None):
    """Leaf paths of `orig` that `back` does not reproduce (modulo the carve-outs) -> (owner, attr, kind, o, b)."""
    if fo is None:
        meta = {}
        fo = flatten(orig, cls, "", None, meta)
    fb = flatten(back, cls)
    lost = {}
    for p, (owner, attr, kind) in meta.items():
        o, b = fo[p], fb.get(p, NOLEAF)
        if o is b:
            continue
        if not leaf_same(kind, o, b):
            lost[p] = (owner, attr, kind, o, b)
    return lost


def carve_free(cls: str, obj) -> bool:
    """No carve-out applies to this instance: then a lossless round trip must give an == object."""
    meta: dict = {}
    fl = flatten(obj, cls, "", None, meta)
    for p, v in fl.items():
        kind = meta.get(p, (None, None, None))[2]
        if kind in ("ostr", "pstr", "mstr") and v == "":
            return False
        if isinstance(v, D.datetime) and (v.tzinfo is None or ts_us(v) % 1000):
            return False
    for p, v in fl.items():
        if v is OBJ and all((w is None or w is NOLEAF or w is NOOBJ) for q, w in fl.items() if q.startswith(p + ".")):
            return False
    return True


# ------------------------------------------------------------------------------------------------ exact encoder
def ideal(cls: str, obj, json_mode: bool = False) -> dict:
    """What an exact encoder (the backend) sends: every member that is not None; timestamps as exact floor milliseconds in
    JSON mode.  Independent of the SDK's to_dict."""
    d = {}
    for attr, kind, w in SCH[cls]:
        v = getattr(obj, attr)
        if v is None:
            continue
        if kind.startswith(("obj:", "robj:")):
            d[w] = ideal(kind.split(":")[1], v, json_mode)
        elif kind.startswith("list:"):
            d[w] = [ideal(kind[5:], it, json_mode) for it in v]
        elif kind == "ts":
            d[w] = floor_ms(ts_us(v)) if json_mode else v
        elif kind.startswith(("enum:", "oenum:")):
            d[w] = v.value
        elif kind == "stack":
            d[w] = list(v)
        else:
            d[w] = v
    return d


# ------------------------------------------------------------------------------------------------ wire abstraction
_MS_TOK = {"aligned": "msA", "drift": "msD", "subms": "msS", "tzoff": "msZ", "unlucky": "msU"}


def wtok(kind: str, present: bool, v, orig=None) -> str:
    """Abstract token (as in Wire.tla) of one value found in a real wire dictionary."""
    if not present:
        return "nokey"
    if v is None:
        return "none"
    if kind in ("ostr", "pstr", "mstr"):
        return ("empty" if v == "" else "val") if isinstance(v, str) else f"?{type(v).__name__}"
    if kind == "rstr":
        return ("rempty" if v == "" else "val") if isinstance(v, str) else f"?{type(v).__name__}"
    if kind == "bool":
        return {True: "T", False: "F"}.get(v, "?") if isinstance(v, bool) else f"?{type(v).__name__}"
    if kind == "int":
        return ("zero" if v == 0 else "pos") if type(v) is int else f"?{type(v).__name__}"
    if kind == "stack":
        return ("emptylist" if v == [] else "val") if isinstance(v, list) else f"?{type(v).__name__}"
    if kind.startswith(("enum:", "oenum:")):
        return v if isinstance(v, str) else f"?{type(v).__name__}"
    if kind == "ts":
        c = classify(orig) if isinstance(orig, D.datetime) else "absent"
        if isinstance(v, D.datetime):
            return c if (v == orig and v.utcoffset() == orig.utcoffset()) else "?dt"
        if type(v) is int and isinstance(orig, D.datetime):
            us = ts_us(orig)
            if v == 0:
                return "ms0"
            if c == "unlucky" and v == us // 1000 + (1 if us < 0 else -1):
                return "msU1"
            if v in (floor_ms(us), trunc0_ms(us)):
                return _MS_TOK.get(c, "ms?")
            return f"ms?{v - floor_ms(us):+d}"
        return f"?{type(v).__name__}"
    raise ValueError(kind)


def wflat(cls: str, d, orig, pf: str, out: dict):
    """Flatten a real wire dictionary the way Wire.tla flattens its wire records (entries equal to "nokey" are omitted)."""
    known = set()
    for attr, kind, w in SCH[cls]:
        known.add(w)
        present = isinstance(d, dict) and w in d
        v = d[w] if present else None
        o = getattr(orig, attr, None) if orig is not None else None
        if kind.startswith(("obj:", "robj:")):
            if present and isinstance(v, dict):
                out[pf + w] = "dict"
                wflat(kind.split(":")[1], v, o, pf + w + ".", out)
            elif present:
                out[pf + w] = "none" if v is None else f"?{type(v).__name__}"
        elif kind.startswith("list:"):
            if present and isinstance(v, list):
                out[pf + w] = "list"
                out[pf + w + ".len"] = str(len(v))
                for i, it in enumerate(v):
                    oo = o[i] if (isinstance(o, list) and i < len(o)) else None
                    wflat(kind[5:], it, oo, f"{pf}{w}.{i}.", out)
            else:
                out[pf + w + ".len"] = "0"
                if present:
                    out[pf + w] = "none" if v is None else f"?{type(v).__name__}"
        else:
            t = wtok(kind, present, v, o)
            if t != "nokey":
                out[pf + w] = t
    if isinstance(d, dict):
        for k in d:
            if k not in known:
                out[pf + k] = "?extra-key"
    return out


def wire_tokens(cls: str, d, orig) -> dict:
    if cls in ("ErrorObject", "ContextOptions", "StepOptions", "WaitOptions", "CallbackOptions", "ChainedInvokeOptions"):
        out = {"": "dict"}
        return wflat(cls, d, orig, ".", out)
    return drop_len0(wflat(cls, d, orig, "", {}))


def drop_len0(t: dict) -> dict:
    """An empty / missing list flattens to '<path>.len' = '0' on one side and to nothing on the other: same thing."""
    return {k: v for k, v in t.items() if not (v == "0" and k.endswith(".len"))}


# ------------------------------------------------------------------------------------------------ rows -> concrete
def row_leaves(cls: str, xpairs, rot: int) -> dict:
    """Concrete leaf dictionary for an abstract instance (list of [path, token]) of model class `cls`."""
    toks = dict(xpairs)
    leaves: dict = {}
    _fill(cls, toks, "", leaves, rot)
    return leaves


def _fill(cls, toks, pf, leaves, rot):
    for idx, (attr, kind, _w) in enumerate(SCH[cls]):
        p = pf + attr
        if kind.startswith("obj:"):
            if toks.get(p) == "obj":
                leaves[p] = OBJ
                _fill(kind[4:], toks, p + ".", leaves, rot + 3 * idx + 1)
            else:
                leaves[p] = NOOBJ
        elif kind.startswith("robj:"):
            _fill(kind[5:], toks, p + ".", leaves, rot + idx)
        elif kind.startswith("list:"):
            n = int(toks.get(p + ".len", "0"))
            leaves[p + ".len"] = n
            for i in range(n):
                _fill(kind[5:], toks, f"{p}.{i}.", leaves, rot + 5 * i + idx)
        else:
            leaves[p] = conc(kind, toks.get(p, "absent"), rot + idx)


# JSON-able encoding of concrete leaf dictionaries (for replay files)
def enc_leaves(leaves: dict) -> dict:
    def e(v):
        if v is OBJ:
            return {"$": "obj"}
        if v is NOOBJ:
            return {"$": "noobj"}
        if isinstance(v, D.datetime):
            return {"$dt": v.isoformat()}
        if hasattr(v, "value") and type(v).__name__ in ENUMS:
            return {"$enum": type(v).__name__, "v": v.value}
        return v
    return {k: e(v) for k, v in leaves.items() if v is not NOLEAF}


def dec_leaves(d: dict) -> dict:
    def f(v):
        if isinstance(v, dict):
            if v.get("$") == "obj":
                return OBJ
            if v.get("$") == "noobj":
                return NOOBJ
            if "$dt" in v:
                return D.datetime.fromisoformat(v["$dt"])
            if "$enum" in v:
                return ENUMS[v["$enum"]](v["v"])
        return v
    return {k: f(v) for k, v in d.items()}


def identifier(leaves):
    return OperationIdentifier(operation_id=leaves.get("operation_id"), parent_id=leaves.get("parent_id"), name=leaves.get("name"))
