"""Install detsched shims into the SDK under test (attribute rebinding only; /repo is not edited).

 * builds shim `threading`, `queue`, `time`, `datetime` module objects,
 * re-executes CPython's own concurrent/futures/_base.py and thread.py over the shim modules, so that
   Future / ThreadPoolExecutor semantics (done-callbacks, cancellation, exception propagation) are CPython's,
 * rebinds the module-level names the SDK modules use,
 * audits that the SDK imports no synchronisation/clock module the shims do not cover.
"""
from __future__ import annotations

import ast
import builtins
import datetime as _real_datetime
import importlib
import importlib.util
import logging
import os
import queue as _real_queue
import sys
import threading as _real_threading
import time as _real_time
import types

from . import detsched as ds

REPO = os.environ.get("VERIF_REPO", "/repo")
SDK = "aws_durable_execution_sdk_python"


class InstallError(Exception):
    pass


def _ensure_repo_on_path():
    src = os.path.join(REPO, "src")
    if sys.path[0] != src:
        if src in sys.path:
            sys.path.remove(src)
        sys.path.insert(0, src)
    os.environ.setdefault("AWS_DEFAULT_REGION", "us-east-1")


# ---- shim modules --------------------------------------------------------------------------------

def _mk_threading():
    m = types.ModuleType("shim_threading")
    for n in ("Lock", "RLock", "Condition", "Event", "Semaphore", "BoundedSemaphore", "Thread",
              "current_thread", "main_thread", "get_ident"):
        setattr(m, n, getattr(ds, n))
    m.local = _real_threading.local
    m.TIMEOUT_MAX = _real_threading.TIMEOUT_MAX
    m._register_atexit = lambda *a, **k: None
    m.active_count = lambda: 1
    return m


def _mk_queue():
    m = types.ModuleType("shim_queue")
    m.Queue = ds.Queue
    m.SimpleQueue = ds.SimpleQueue
    m.Empty = _real_queue.Empty
    m.Full = _real_queue.Full
    return m


class _TimeMod(types.ModuleType):
    def __getattr__(self, name):
        return getattr(_real_time, name)


def _mk_time():
    m = _TimeMod("shim_time")
    m.time = ds.vtime
    m.monotonic = ds.vmonotonic
    m.perf_counter = ds.vmonotonic
    m.sleep = ds.vsleep
    return m


class vdatetime(_real_datetime.datetime):
    """datetime whose now()/utcnow() read the virtual clock."""

    @classmethod
    def now(cls, tz=None):
        return _real_datetime.datetime.fromtimestamp(ds.vtime(), tz=tz)

    @classmethod
    def utcnow(cls):
        return _real_datetime.datetime.fromtimestamp(ds.vtime(), tz=_real_datetime.UTC).replace(tzinfo=None)


class _DatetimeMod(types.ModuleType):
    def __getattr__(self, name):
        return getattr(_real_datetime, name)


def _mk_datetime():
    m = _DatetimeMod("shim_datetime")
    m.datetime = vdatetime
    return m


SHIM_THREADING = _mk_threading()
SHIM_QUEUE = _mk_queue()
SHIM_TIME = _mk_time()
SHIM_DATETIME = _mk_datetime()


class _FakeOS(types.ModuleType):
    def __getattr__(self, name):
        return getattr(os, name)


_FAKE_OS = _FakeOS("shim_os")
_FAKE_OS.register_at_fork = lambda **k: None
_FAKE_OS.cpu_count = lambda: 4

_SHIM_FUTURES = {}


def _exec_stdlib(modname: str, as_name: str, overrides: dict) -> types.ModuleType:
    spec = importlib.util.find_spec(modname)
    src = spec.loader.get_source(modname)
    mod = types.ModuleType(as_name)
    mod.__file__ = spec.origin
    real_import = builtins.__import__

    def shim_import(name, globals=None, locals=None, fromlist=(), level=0):
        if level == 0 and name in overrides:
            return overrides[name]
        if level == 0 and name == "concurrent.futures" and fromlist and "_base" in fromlist and "_base" in _SHIM_FUTURES:
            pkg = types.ModuleType("shim_concurrent_futures")
            pkg._base = _SHIM_FUTURES["_base"]
            return pkg
        return real_import(name, globals, locals, fromlist, level)

    b = dict(vars(builtins))
    b["__import__"] = shim_import
    mod.__dict__["__builtins__"] = b
    exec(compile(src, spec.origin, "exec"), mod.__dict__)
    return mod


def build_futures():
    if "thread" in _SHIM_FUTURES:
        return _SHIM_FUTURES
    ov = {"threading": SHIM_THREADING, "time": SHIM_TIME, "queue": SHIM_QUEUE, "os": _FAKE_OS}
    base = _exec_stdlib("concurrent.futures._base", "shim_futures_base", ov)
    base.LOGGER.disabled = True
    _SHIM_FUTURES["_base"] = base
    thread = _exec_stdlib("concurrent.futures.thread", "shim_futures_thread", ov)
    _SHIM_FUTURES["thread"] = thread

    def reset():
        thread._global_shutdown_lock._at_fork_reinit()
        thread._shutdown = False
    ds.RESET_HOOKS.append(reset)
    return _SHIM_FUTURES


# ---- what is rebound where -------------------------------------------------------------------------

REBIND = {
    "state": {"threading": "threading", "queue": "queue", "time": "time", "Lock": "Lock"},
    "threading": {"Event": "Event", "Lock": "Lock"},
    "concurrency.executor": {"threading": "threading", "time": "time", "ThreadPoolExecutor": "TPE", "Future": "Future"},
    "concurrency.models": {"threading": "threading", "time": "time"},
    "execution": {"ThreadPoolExecutor": "TPE"},
    "exceptions": {"time": "time"},
    "suspend": {"datetime": "datetime"},
    "lambda_service": {"datetime": "datetime"},
}

# modules a SDK source file may import without being covered by a shim (pure / irrelevant to scheduling)
_SYNC_MODULES = {"threading", "_thread", "queue", "time", "datetime", "concurrent", "concurrent.futures", "asyncio",
                 "multiprocessing", "selectors", "socket", "signal", "sched", "subprocess"}

_installed = False
_orig = {}


def audit():
    """AST-scan the SDK sources: every import of a synchronisation/clock module must be covered by REBIND."""
    root = os.path.join(REPO, "src", SDK)
    problems = []
    for dirpath, _, files in os.walk(root):
        for fn in files:
            if not fn.endswith(".py"):
                continue
            path = os.path.join(dirpath, fn)
            rel = os.path.relpath(path, root)[:-3].replace(os.sep, ".")
            tree = ast.parse(open(path).read())
            in_tc = set()
            for node in ast.walk(tree):
                if isinstance(node, ast.If) and getattr(node.test, "id", None) == "TYPE_CHECKING":
                    for sub in ast.walk(node):
                        in_tc.add(id(sub))
            for node in ast.walk(tree):
                if id(node) in in_tc:
                    continue
                names = []
                if isinstance(node, ast.Import):
                    for a in node.names:
                        if a.name.split(".")[0] in _SYNC_MODULES or a.name in _SYNC_MODULES:
                            names.append(a.asname or a.name.split(".")[0])
                elif isinstance(node, ast.ImportFrom) and node.level == 0 and node.module:
                    if node.module in _SYNC_MODULES or node.module.split(".")[0] in _SYNC_MODULES:
                        if node.module.startswith(SDK):
                            continue
                        for a in node.names:
                            names.append(a.asname or a.name)
                for n in names:
                    cov = REBIND.get(rel, {})
                    if n not in cov:
                        # datetime imported for types/values only is harmless when it never calls now(); flag anyway
                        problems.append(f"{rel}: imports '{n}' not covered by shims")
    # known-harmless: serdes uses datetime/date classes for isinstance and parsing only
    harmless = {"serdes: imports 'date' not covered by shims", "serdes: imports 'datetime' not covered by shims",
                "config: imports 'Future' not covered by shims"}
    problems = [p for p in problems if p not in harmless]
    return problems


def install(check_audit=True):
    """Idempotent. Returns the dict of SDK modules."""
    global _installed
    _ensure_repo_on_path()
    mods = {}
    for rel in list(REBIND) + ["context", "logger", "serdes", "config", "retries", "waits", "operation.step",
                               "operation.child", "operation.wait", "operation.invoke", "operation.callback",
                               "operation.wait_for_condition", "operation.map", "operation.parallel", "identifier",
                               "types"]:
        mods[rel] = importlib.import_module(f"{SDK}.{rel}")
    if _installed:
        return mods
    src_file = mods["state"].__file__
    if not os.path.abspath(src_file).startswith(os.path.abspath(os.path.join(REPO, "src"))):
        raise InstallError(f"SDK imported from {src_file}, expected under {REPO}/src")
    if check_audit:
        probs = audit()
        if probs:
            raise InstallError("shim audit failed: " + "; ".join(probs))
    fut = build_futures()
    shim = {"threading": SHIM_THREADING, "queue": SHIM_QUEUE, "time": SHIM_TIME, "datetime": SHIM_DATETIME,
            "Lock": ds.Lock, "Event": ds.Event, "TPE": fut["thread"].ThreadPoolExecutor, "Future": fut["_base"].Future}
    for rel, names in REBIND.items():
        m = mods[rel]
        for attr, key in names.items():
            if not hasattr(m, attr):
                raise InstallError(f"{SDK}.{rel} has no attribute {attr} (SDK layout changed; update REBIND)")
            _orig[(rel, attr)] = getattr(m, attr)
            setattr(m, attr, shim[key])
    logging.disable(logging.CRITICAL)
    _installed = True
    return mods


def uninstall():
    global _installed
    if not _installed:
        return
    for (rel, attr), v in _orig.items():
        setattr(sys.modules[f"{SDK}.{rel}"], attr, v)
    logging.disable(logging.NOTSET)
    _installed = False
