"""Install detsched shims into the SDK under test (attribute rebinding only; /repo is not edited).

 * builds shim `threading`, `queue`, `time`, `datetime` module objects,
 * re-executes CPython's own concurrent/futures/_base.py and thread.py over the shim modules, so that
   Future / ThreadPoolExecutor semantics (done-callbacks, cancellation, exception propagation) are CPython's,
 * rebinds the module-level names the SDK modules use,
 * audits that the SDK imports no synchronisation/clock module the shims do not cover.
"""
from __future__ import annotations

import ast
import builtins
import datetime as _real_datetime
import importlib
import importlib.util
import logging
import os
import queue as _real_queue
import sys
import threading as _real_threading
import time as _real_time
import types

from . import detsched as ds

REPO = os.environ.get("VERIF_REPO", "/repo")
SDK = "aws_durable_execution_sdk_python"


class InstallError(Exception):
    pass


def _ensure_repo_on_path():
    src = os.path.join(REPO, "src")
    if sys.path[0] != src:
        if src in sys.path:
            sys.path.remove(src)
        sys.path.insert(0, src)
    os.environ.setdefault("AWS_DEFAULT_REGION", "us-east-1")


# ---- shim modules --------------------------------------------------------------------------------

def _mk_threading():
    m = types.ModuleType("shim_threading")
    for n in ("Lock", "RLock", "Condition", "Event", "Semaphore", "BoundedSemaphore", "Thread",
              "current_thread", "main_thread", "get_ident"):
        setattr(m, n, getattr(ds, n))
    m.local = _real_threading.local
    m.TIMEOUT_MAX = _real_threading.TIMEOUT_MAX
    m._register_atexit = lambda *a, **k: None
    m.active_count = lambda: 1
    return m


def _mk_queue():
    m = types.ModuleType("shim_queue")
    m.Queue = ds.Queue
    m.SimpleQueue = ds.SimpleQueue
    m.Empty = _real_queue.Empty
    m.Full = _real_queue.Full
    return m


class _TimeMod(types.ModuleType):
    def __getattr__(self, name):
        return getattr(_real_time, name)


def _mk_time():
    m = _TimeMod("shim_time")
    m.time = ds.vtime
    m.monotonic = ds.vmonotonic
    m.perf_counter = ds.vmonotonic
    m.sleep = ds.vsleep
    return m


class _VDatetimeMeta(type):
    """isinstance / issubclass against the shim class accept every real datetime (the shim only replaces the clock access)"""

    def __instancecheck__(cls, obj):
        return isinstance(obj, _real_datetime.datetime)

    def __subclasscheck__(cls, sub):
        return issubclass(sub, _real_datetime.datetime)


class vdatetime(_real_datetime.datetime, metaclass=_VDatetimeMeta):
    """datetime whose now()/utcnow() read the virtual clock."""

    @classmethod
    def now(cls, tz=None):
        return _real_datetime.datetime.fromtimestamp(ds.vtime(), tz=tz)

    @classmethod
    def utcnow(cls):
        return _real_datetime.datetime.fromtimestamp(ds.vtime(), tz=_real_datetime.UTC).replace(tzinfo=None)


class _DatetimeMod(types.ModuleType):
    def __getattr__(self, name):
        return getattr(_real_datetime, name)


def _mk_datetime():
    m = _DatetimeMod("shim_datetime")
    m.datetime = vdatetime
    return m


SHIM_THREADING = _mk_threading()
SHIM_QUEUE = _mk_queue()
SHIM_TIME = _mk_time()
SHIM_DATETIME = _mk_datetime()


class _FakeOS(types.ModuleType):
    def __getattr__(self, name):
        return getattr(os, name)


_FAKE_OS = _FakeOS("shim_os")
_FAKE_OS.register_at_fork = lambda **k: None
_FAKE_OS.cpu_count = lambda: 4

_SHIM_FUTURES = {}


def _exec_stdlib(modname: str, as_name: str, overrides: dict) -> types.ModuleType:
    spec = importlib.util.find_spec(modname)
    src = spec.loader.get_source(modname)
    mod = types.ModuleType(as_name)
    mod.__file__ = spec.origin
    real_import = builtins.__import__

    def shim_import(name, globals=None, locals=None, fromlist=(), level=0):
        if level == 0 and name in overrides:
            return overrides[name]
        if level == 0 and name == "concurrent.futures" and fromlist and "_base" in fromlist and "_base" in _SHIM_FUTURES:
            pkg = types.ModuleType("shim_concurrent_futures")
            pkg._base = _SHIM_FUTURES["_base"]
            return pkg
        return real_import(name, globals, locals, fromlist, level)

    b = dict(vars(builtins))
    b["__import__"] = shim_import
    mod.__dict__["__builtins__"] = b
    exec(compile(src, spec.origin, "exec"), mod.__dict__)
    return mod


def build_futures():
    if "thread" in _SHIM_FUTURES:
        return _SHIM_FUTURES
    ov = {"threading": SHIM_THREADING, "time": SHIM_TIME, "queue": SHIM_QUEUE, "os": _FAKE_OS}
    base = _exec_stdlib("concurrent.futures._base", "shim_futures_base", ov)
    base.LOGGER.disabled = True
    _SHIM_FUTURES["_base"] = base
    thread = _exec_stdlib("concurrent.futures.thread", "shim_futures_thread", ov)
    _SHIM_FUTURES["thread"] = thread

    def reset():
        import itertools
        thread._global_shutdown_lock._at_fork_reinit()
        thread._shutdown = False
        # pool names ("ThreadPoolExecutor-N_k") restart with every run, so that recorded choice sequences replay exactly
        thread.ThreadPoolExecutor._counter = itertools.count().__next__
    ds.RESET_HOOKS.append(reset)
    return _SHIM_FUTURES


# ---- what is rebound where -------------------------------------------------------------------------

REBIND = {
    "state": {"threading": "threading", "queue": "queue", "time": "time", "Lock": "Lock"},
    "threading": {"Event": "Event", "Lock": "Lock"},
    "concurrency.executor": {"threading": "threading", "time": "time", "ThreadPoolExecutor": "TPE", "Future": "Future"},
    "concurrency.models": {"threading": "threading", "time": "time"},
    "execution": {"ThreadPoolExecutor": "TPE"},
    "exceptions": {"time": "time"},
    "suspend": {"datetime": "datetime"},
    "lambda_service": {"datetime": "datetime"},
}

# modules a SDK source file may import without being covered by a shim (pure / irrelevant to scheduling)
_SYNC_MODULES = {"threading", "_thread", "queue", "time", "datetime", "concurrent", "concurrent.futures", "asyncio",
                 "multiprocessing", "selectors", "socket", "signal", "sched", "subprocess"}

_installed = False
_orig = {}


def _sdk_modules():
    """import every module of the SDK package (so that a primitive imported by any of them is seen)"""
    root = os.path.join(REPO, "src", SDK)
    mods = {}
    for dirpath, _, files in os.walk(root):
        for fn in sorted(files):
            if not fn.endswith(".py"):
                continue
            rel = os.path.relpath(os.path.join(dirpath, fn), root)[:-3].replace(os.sep, ".")
            if rel.endswith("__init__"):
                rel = rel[:-len(".__init__")] if rel != "__init__" else ""
            name = SDK + ("." + rel if rel else "")
            try:
                mods[rel] = importlib.import_module(name)
            except Exception as e:  # noqa: BLE001
                raise InstallError(f"cannot import {name}: {e!r}") from e
    return mods


def _generic_map(fut):
    """real synchronisation / clock object -> shim, by identity: a module of the SDK that imports one of these under any
    name is rebound without having to be listed in REBIND"""
    import concurrent.futures as cf
    m = {
        id(_real_threading): SHIM_THREADING, id(_real_queue): SHIM_QUEUE, id(_real_time): SHIM_TIME,
        id(_real_datetime): SHIM_DATETIME, id(_real_datetime.datetime): vdatetime,
        id(_real_threading.Lock): ds.Lock, id(_real_threading.RLock): ds.RLock, id(_real_threading.Event): ds.Event,
        id(_real_threading.Condition): ds.Condition, id(_real_threading.Semaphore): ds.Semaphore,
        id(_real_threading.BoundedSemaphore): ds.BoundedSemaphore, id(_real_threading.Thread): ds.Thread,
        id(_real_threading.current_thread): ds.current_thread, id(_real_threading.get_ident): ds.get_ident,
        id(_real_queue.Queue): ds.Queue, id(_real_queue.SimpleQueue): ds.SimpleQueue,
        id(_real_time.time): ds.vtime, id(_real_time.monotonic): ds.vmonotonic, id(_real_time.perf_counter): ds.vmonotonic,
        id(_real_time.sleep): ds.vsleep,
        id(cf.ThreadPoolExecutor): fut["thread"].ThreadPoolExecutor, id(cf.Future): fut["_base"].Future,
        id(cf.wait): fut["_base"].wait, id(cf.as_completed): fut["_base"].as_completed,
    }
    return m


def _shim_values(fut):
    vals = [SHIM_THREADING, SHIM_QUEUE, SHIM_TIME, SHIM_DATETIME, vdatetime, _real_queue.Empty, _real_queue.Full]
    vals += list(_generic_map(fut).values())
    return {id(v) for v in vals}


# imports of clock / synchronisation modules that are harmless without a shim: (module, name)
_HARMLESS = {("serdes", "date"), ("serdes", "datetime"), ("config", "Future")}
# names of the datetime module that are pure values / types (no clock access)
_PURE_DATETIME = {"timedelta", "timezone", "UTC", "date", "tzinfo"}


def audit(mods=None, shim_ids=None):
    """AST-scan the SDK sources: every import of a synchronisation / clock module must, after rebinding, resolve to a shim
    object (or be listed as harmless).  Without `mods` only the static REBIND table is consulted."""
    root = os.path.join(REPO, "src", SDK)
    problems = []
    for dirpath, _, files in os.walk(root):
        for fn in files:
            if not fn.endswith(".py"):
                continue
            path = os.path.join(dirpath, fn)
            rel = os.path.relpath(path, root)[:-3].replace(os.sep, ".")
            if rel.endswith("__init__"):
                rel = rel[:-len(".__init__")] if rel != "__init__" else ""
            tree = ast.parse(open(path).read())
            in_tc = set()
            for node in ast.walk(tree):
                if isinstance(node, ast.If) and getattr(node.test, "id", None) == "TYPE_CHECKING":
                    for sub in ast.walk(node):
                        in_tc.add(id(sub))
            for node in ast.walk(tree):
                if id(node) in in_tc:
                    continue
                names = []
                if isinstance(node, ast.Import):
                    for a in node.names:
                        if a.name.split(".")[0] in _SYNC_MODULES or a.name in _SYNC_MODULES:
                            names.append((a.asname or a.name.split(".")[0], a.name))
                elif isinstance(node, ast.ImportFrom) and node.level == 0 and node.module:
                    if node.module in _SYNC_MODULES or node.module.split(".")[0] in _SYNC_MODULES:
                        for a in node.names:
                            if node.module == "datetime" and a.name in _PURE_DATETIME:
                                continue
                            if node.module == "threading" and a.name == "local":
                                continue        # per-thread storage: managed threads are real threads, nothing to schedule
                            names.append((a.asname or a.name, node.module + "." + a.name))
                for n, what in names:
                    if (rel, n) in _HARMLESS:
                        continue
                    if mods is not None and rel in mods and shim_ids is not None:
                        if id(getattr(mods[rel], n, None)) in shim_ids:
                            continue
                    elif n in REBIND.get(rel, {}):
                        continue
                    problems.append(f"{rel}: imports '{n}' ({what}) not covered by shims")
    return problems


def install(check_audit=True):
    """Idempotent. Returns the dict of SDK modules."""
    global _installed
    _ensure_repo_on_path()
    mods = _sdk_modules()
    if _installed:
        return mods
    src_file = mods["state"].__file__
    if not os.path.abspath(src_file).startswith(os.path.abspath(os.path.join(REPO, "src"))):
        raise InstallError(f"SDK imported from {src_file}, expected under {REPO}/src")
    fut = build_futures()
    shim = {"threading": SHIM_THREADING, "queue": SHIM_QUEUE, "time": SHIM_TIME, "datetime": SHIM_DATETIME,
            "Lock": ds.Lock, "Event": ds.Event, "TPE": fut["thread"].ThreadPoolExecutor, "Future": fut["_base"].Future}
    # (1) the explicit table (includes the datetime rebinding, which is done nowhere else: replacing the datetime class in a
    #     module that uses it for isinstance checks would change behaviour)
    for rel, names in REBIND.items():
        m = mods[rel]
        for attr, key in names.items():
            if not hasattr(m, attr):
                raise InstallError(f"{SDK}.{rel} has no attribute {attr} (SDK layout changed; update REBIND)")
            _orig[(rel, attr)] = getattr(m, attr)
            setattr(m, attr, shim[key])
    # (2) generic pass: any module attribute that IS a real primitive / clock function / executor class
    gmap = _generic_map(fut)
    for rel, m in mods.items():
        for attr, val in list(vars(m).items()):
            if attr.startswith("__"):
                continue
            rep = gmap.get(id(val))
            if rep is not None and (rel, attr) not in _HARMLESS:
                _orig.setdefault((rel, attr), val)
                setattr(m, attr, rep)
    if check_audit:
        probs = audit(mods, _shim_values(fut))
        if probs:
            # undo: a half-shimmed SDK must not be used
            for (rel, attr), v in _orig.items():
                setattr(mods[rel], attr, v)
            raise InstallError("shim audit failed: " + "; ".join(probs))
    logging.disable(logging.CRITICAL)
    _installed = True
    return mods


def uninstall():
    global _installed
    if not _installed:
        return
    for (rel, attr), v in _orig.items():
        setattr(sys.modules[f"{SDK}.{rel}" if rel else SDK], attr, v)
    logging.disable(logging.NOTSET)
    _installed = False
