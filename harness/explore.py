"""Systematic schedule exploration for detsched: preemption-bounded depth-first search (stateless)."""
from __future__ import annotations

from . import detsched as ds


class DFSStrategy(ds.Strategy):
    """Follow `prefix` (thread names), then run non-preemptively (keep the current thread while enabled,
    else lowest index).  Records (chosen, enabled names, previous) for every decision."""

    def __init__(self, prefix):
        self.prefix = list(prefix)
        self.trace = []
        self.prev = None
        self.bad_prefix = False

    def choose(self, sched, cands, can_time):
        if not cands:
            return "TIME"
        names = [c.name for c in cands]
        i = len(self.trace)
        pick = None
        if i < len(self.prefix):
            want = self.prefix[i]
            for c in cands:
                if c.name == want:
                    pick = c
            if pick is None:
                self.bad_prefix = True
        if pick is None:
            for c in cands:
                if c.name == self.prev:
                    pick = c
            if pick is None:
                pick = cands[0]
        self.trace.append((pick.name, names, self.prev))
        self.prev = pick.name
        return pick


def _preemptions(trace_prefix):
    n = 0
    for chosen, enabled, prev in trace_prefix:
        if prev is not None and chosen != prev and prev in enabled:
            n += 1
    return n


def explore(run_fn, max_preempt=2, max_runs=2000):
    """run_fn(strategy) -> result.  Yields (result, strategy) for every explored schedule."""
    stack = [[]]
    runs = 0
    while stack and runs < max_runs:
        prefix = stack.pop()
        st = DFSStrategy(prefix)
        res = run_fn(st)
        runs += 1
        if not st.bad_prefix:
            base = len(prefix)
            for i in range(len(st.trace) - 1, base - 1, -1):
                chosen, enabled, prev = st.trace[i]
                for alt in enabled:
                    if alt == chosen:
                        continue
                    cand = st.trace[:i] + [(alt, enabled, prev)]
                    if _preemptions(cand) <= max_preempt:
                        stack.append([c for c, _, _ in cand])
        yield res, st
