"""Drive the real ExecutionState checkpoint pipeline under detsched and record BatcherTrace events."""
from __future__ import annotations

import random

from . import detsched as ds
from . import install


class ApiBoom(Exception):
    pass


def wire_size(update) -> int:
    """Size of an update as the request body carries it (default JSON encoding, non-ASCII escaped) - measured by the harness,
    not by the SDK's own estimator."""
    import json
    return 0 if update is None else len(json.dumps(update.to_dict()).encode("utf-8"))


def make_update(n: int, target_size: int, unicode_text: bool = False):
    """A STEP SUCCEED update whose serialized size is target_size (exactly for ASCII payloads; the nearest size not above it that
    6-byte escapes allow for non-ASCII ones)."""
    from aws_durable_execution_sdk_python.lambda_service import OperationAction, OperationSubType, OperationType, OperationUpdate

    def mk(pad, tail=0):
        text = ("\u00e9" * pad + "x" * tail) if unicode_text else "x" * pad
        return OperationUpdate(operation_id=f"op-{n:03d}", operation_type=OperationType.STEP, action=OperationAction.SUCCEED,
                               sub_type=OperationSubType.STEP, payload=text)
    if unicode_text:
        base = wire_size(mk(0, 1)) - 1
        room = max(1, target_size - base)
        u = mk(max(1, room // 6), room % 6 if room >= 6 else 0)
    else:
        base = wire_size(mk(1)) - 1
        u = mk(max(1, target_size - base))
    return u, wire_size(u)


def run_batcher(plan: dict, strategy, max_steps=40000):
    """plan: {producers: [[ [size, sync] | ["empty", sync] ...] ...], maxops, maxbytes, window, fail_at (call number or None),
              stagger: [virtual seconds each producer sleeps before each call] (optional)}"""
    mods = install.install()
    sdk_thr = mods["threading"]
    st_mod = mods["state"]
    from aws_durable_execution_sdk_python.exceptions import BackgroundThreadError
    from aws_durable_execution_sdk_python.lambda_service import CheckpointOutput, CheckpointUpdatedExecutionState

    evs: list = []
    if hasattr(strategy, "bind"):
        strategy.bind(evs)
    item_of_qop: dict = {}      # id(QueuedOperation) -> item id
    item_of_event: dict = {}    # id(shim Event) -> item id
    sizes: dict = {}
    syncs: dict = {}
    handed: list = []
    calls: list = []
    outcomes: dict = {}
    st = {"state": None, "n": 0, "calls": 0, "flag_event": None, "cur": {}, "last_put": {}}

    def tname():
        _, me = ds.current()
        return me.name if me else "env"

    def emit(ev, **kw):
        d = {"ev": ev, "p": "", "i": 0, "size": 0, "sync": False, "o": "", "tok": 0, "items": [], "ok": False, "seen": False}
        d.update(kw)
        evs.append(d)

    class LEvent(ds.Event):
        def _hook(self, op, _self):
            if op != "set":
                return
            if self is st["flag_event"]:
                emit("FlagSet")
            elif id(self) in item_of_event:
                i = item_of_event[id(self)]
                ce = st["ce_of_item"].get(i)
                emit("EvSet", i=i, o="err" if (ce is not None and ce._error is not None) else "ok")

        def is_set(self):
            r = super().is_set()
            if self is st["flag_event"]:
                t = tname()
                if t.startswith("p"):
                    if st["cur"].get(t) == "put_done":
                        emit("PRecheck", p=t, seen=bool(r))
                    else:
                        emit("PCheck", p=t, seen=bool(r))
            return r

    st["ce_of_item"] = {}

    def main_hook(op, q, item=None):
        if op == "put":
            st["n"] += 1
            i = st["n"]
            item_of_qop[id(item)] = i
            sz = wire_size(item.operation_update)        # independent of the SDK's own size estimate
            sizes[i] = sz
            syncs[i] = item.completion_event is not None
            if item.completion_event is not None:
                item_of_event[id(item.completion_event._event)] = i
                st["ce_of_item"][i] = item.completion_event
            handed.append(i)
            t = tname()
            st["cur"][t] = "put_done"
            st["last_put"][t] = i
            emit("Put", p=t, i=i, size=sz, sync=syncs[i])
        elif op == "get":
            emit("MainGet", i=item_of_qop[id(item)])

    def ov_hook(op, q, item=None):
        if op == "put":
            emit("OvPut", i=item_of_qop[id(item)])
        elif op == "get":
            emit("OvGet", i=item_of_qop[id(item)])

    class Client:
        def checkpoint(self, durable_execution_arn, checkpoint_token, updates, client_token):
            st["calls"] += 1
            n = st["calls"]
            s = ds._CURRENT_SCHED
            if s:
                s.progress()
            # identify the batch by operation ids; empty checkpoints carry no update: recover from the consumer's batch
            items = list(st["pending_batch"])
            emit("ApiCall", tok=int(checkpoint_token), items=items)
            sch, me = ds.current()
            if me is not None:
                sch.yield_point(me, "ApiCall")
            if plan.get("fail_at") == n:
                calls.append({"tok": int(checkpoint_token), "items": items, "ok": False})
                emit("ApiRet", ok=False)
                raise ApiBoom("checkpoint failed")
            calls.append({"tok": int(checkpoint_token), "items": items, "ok": True,
                          "bytes": sum(sizes[i] for i in items)})
            emit("ApiRet", ok=True)
            if plan.get("empty_pages_at") == n:
                return CheckpointOutput(checkpoint_token=str(n),
                                        new_execution_state=CheckpointUpdatedExecutionState(next_marker="empty-1"))
            if plan.get("page_fail_at") == n:
                # the answer is paginated; fetching the next page will fail
                return CheckpointOutput(checkpoint_token=str(n),
                                        new_execution_state=CheckpointUpdatedExecutionState(next_marker="page-2"))
            return CheckpointOutput(checkpoint_token=str(n), new_execution_state=CheckpointUpdatedExecutionState())

        def get_execution_state(self, *a, **kw):
            marker = kw.get("next_marker") or (a[2] if len(a) > 2 else "")
            if str(marker).startswith("empty-"):
                # the answer's listing continues with pages that hold no operations: one that still announces a further page, then
                # a last one without a marker
                from aws_durable_execution_sdk_python.lambda_service import StateOutput
                st["page_fetches"] = st.get("page_fetches", 0) + 1
                if st["page_fetches"] > 200:
                    st["page_spin"] = True
                    raise ApiBoom("the consumer keeps requesting pages")      # (breaks an endless loop so that the run can be judged)
                s_, me_ = ds.current()
                if me_ is not None:
                    s_.yield_point(me_, "GetState")
                return StateOutput(operations=[], next_marker="empty-2" if marker == "empty-1" else None)
            calls[-1]["page_failed"] = True
            emit("PageFail")
            raise ApiBoom("fetching the next page of the checkpoint response failed")

    saved = sdk_thr.Event
    sdk_thr.Event = LEvent
    try:
        cfg = st_mod.CheckpointBatcherConfig(max_batch_size_bytes=plan["maxbytes"], max_batch_time_seconds=plan.get("window", 1.0),
                                            max_batch_operations=plan["maxops"])
        state = st_mod.ExecutionState("arn:x", "0", {}, Client(), batcher_config=cfg)
        st["state"] = state
        st["flag_event"] = state._checkpointing_failed._event
        state._checkpointing_stopped._hook = lambda op, _e: emit("StopSet") if op == "set" else None
        state._checkpoint_queue._hook = main_hook
        state._overflow_queue._hook = ov_hook
        # observe the batch the consumer is about to send (collect returns it right before the API call)
        orig_collect = state._collect_checkpoint_batch

        def collect():
            b = orig_collect()
            st["pending_batch"] = [item_of_qop[id(q)] for q in b]
            return b
        state._collect_checkpoint_batch = collect
        st["pending_batch"] = []
        nprod = len(plan["producers"])
        names = [f"p{k + 1}" for k in range(nprod)]
        counter = [0]

        def producer(pname, items, stagger):
            for k, (size, sync) in enumerate(items):
                if stagger:
                    ds.vsleep(stagger[k % len(stagger)])
                st["cur"][pname] = "check"
                st["last_put"][pname] = 0
                counter[0] += 1
                if size == "empty":
                    upd = None
                else:
                    upd, _ = make_update(counter[0], size, unicode_text=bool(plan.get("unicode")) and counter[0] % 2 == 1)
                try:
                    if sync == "api" and not (plan.get("fail_at") or plan.get("page_fail_at")):
                        # the wrapper's entry point for a synchronous checkpoint (plans with an injected failure use the plain call:
                        # on failure this one stops the pipeline itself, which the trace specification does not describe)
                        state.create_checkpoint_sync(upd)
                    else:
                        state.create_checkpoint(upd, is_sync=bool(sync))
                    i = st["last_put"][pname]
                    outcomes[i] = "ok" if sync else "async"
                    emit("PRet", p=pname, i=i, o=outcomes[i])
                except (BackgroundThreadError, ApiBoom):
                    i = st["last_put"][pname]
                    if i:
                        outcomes[i] = "err"
                    emit("PRet", p=pname, i=i, o="err")
                s = ds._CURRENT_SCHED
                if s:
                    s.progress()

        def consumer():
            state.checkpoint_batches_forever()
            emit("CExit")

        def main():
            ct = ds.Thread(target=consumer, name="consumer")
            ct.start()
            staggers = plan.get("stagger") or [None] * nprod
            ps = [ds.Thread(target=producer, args=(names[k], plan["producers"][k], staggers[k]), name=names[k]) for k in range(nprod)]
            for p in ps:
                p.start()
            for p in ps:
                p.join()
            state.stop_checkpointing()          # StopSet is logged at the set itself (hook on the stop event)
            ct.join()

        sched = ds.Scheduler(strategy, max_steps=max_steps, hang_after=plan.get("hang_after", 6.0))
        sched.name_for_thread = lambda th: th._name
        sched.run(main, name="main")
    finally:
        sdk_thr.Event = saved
    if st.get("page_spin") and sched.verdict is None:
        sched.verdict, sched.verdict_info = "hang", "the consumer requested more than 200 pages of one checkpoint answer (it does not advance)"
    return {"evs": evs, "handed": handed, "calls": calls, "sizes": sizes, "syncs": syncs, "outcomes": outcomes,
            "verdict": sched.verdict, "verdict_info": sched.verdict_info, "steps": sched.steps, "choices": sched.choices,
            "plan": plan}


def random_plan(rng: random.Random, allow_oversize=True, allow_fail=True):
    maxbytes = rng.choice([600, 1000])
    small, med, over = maxbytes // 3 - 20, maxbytes // 2 + 40, maxbytes + 150
    pool = [small, small, small, med, med, "empty"] + ([over] if (allow_oversize and rng.random() < 0.3) else [])
    nprod = rng.choice([1, 2, 2, 3])
    producers = []
    for _ in range(nprod):
        k = rng.choice([1, 2, 3])
        producers.append([[rng.choice(pool), rng.random() < 0.6] for _ in range(k)])
    # make sure that the last call of every producer is synchronous (so that "handed before a sync returns" is meaningful)
    for p in producers:
        p[-1][1] = True
    plan = {"producers": producers, "maxops": rng.choice([2, 3, 250]), "maxbytes": maxbytes,
            "window": rng.choice([0.0, 0.05, 0.3, 1.0]),
            "fail_at": (rng.choice([1, 2, 3]) if (allow_fail and rng.random() < 0.35) else None),
            "page_fail_at": (rng.choice([1, 2, 3]) if (allow_fail and rng.random() < 0.2) else None),
            "empty_pages_at": (rng.choice([1, 2, 3]) if rng.random() < 0.25 else None),    # that answer continues with empty pages
            "unicode": rng.random() < 0.4,      # every other update carries non-ASCII text (6 wire bytes per character)
            "stagger": [[rng.choice([0.0, 0.0, 0.05, 0.2, 1.1])] for _ in range(nprod)]}
    if plan["fail_at"] is None and plan["page_fail_at"] is None and rng.random() < 0.4:
        # some synchronous calls go through create_checkpoint_sync (the entry point the wrapper uses)
        for p in producers:
            for it in p:
                if it[1] is True and rng.random() < 0.5:
                    it[1] = "api"
    return plan
