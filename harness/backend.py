"""ModelBackend: the Python twin of spec/Backend.tla.

It plays the durable backend for the SDK under test at the *boto3 client* level
(`checkpoint_durable_execution`, `get_durable_execution_state`) and builds invocation events.
It is a *monitor*: an update that Backend.tla's `Legal` rejects is still applied best-effort, but is
recorded in `self.illegal` so that the property checks (C11, C10) - not the environment - report it.

Time is read from `clock()` (virtual under detsched).
"""
from __future__ import annotations

import datetime
import json

TERMINAL = {"SUCCEEDED", "FAILED", "CANCELLED", "TIMED_OUT", "STOPPED"}


class ClientError(Exception):
    """botocore.exceptions.ClientError look-alike (the SDK only reads `.response`)."""

    def __init__(self, status: int, code: str, message: str):
        super().__init__(f"An error occurred ({code}) when calling the CheckpointDurableExecution operation: {message}")
        self.response = {
            "Error": {"Code": code, "Message": message},
            "ResponseMetadata": {"RequestId": "req-1", "HostId": None, "HTTPStatusCode": status,
                                 "HTTPHeaders": None, "RetryAttempts": "0"},
        }


FAULTS = {
    # name -> (http status, code, message, expected retriable per CheckpointError.from_exception)
    "throttle429": (429, "TooManyRequestsException", "Rate exceeded", False),
    "service500": (500, "ServiceException", "internal", False),
    "invalid_token": (400, "InvalidParameterValueException", "Invalid Checkpoint Token: stale", False),
    "invalid_param": (400, "InvalidParameterValueException", "bad update", True),
    "notfound404": (404, "ResourceNotFoundException", "no such execution", True),
    "conflict409": (409, "ResourceConflictException", "conflict", True),
}


class ModelBackend:
    def __init__(self, clock, arn="arn:aws:lambda:us-east-1:1:function:f:1/durable-execution/e1",
                 input_payload="{}", timer_lag=0.0):
        self.clock = clock
        self.arn = arn
        self.ops: dict[str, dict] = {}
        self.order: list[str] = []
        self.token_n = 0
        self.exec_result = None            # None | ("SUCCEED", payload) | ("FAIL", error)
        self.changed: set[str] = set()
        self.stream: list[dict] = []       # every accepted update, in order
        self.illegal: list[dict] = []
        self.timers: list[tuple] = []      # (due, id, kind)
        self.timer_lag = timer_lag
        self.empty_pages = set()           # numbers of the page fetches that return an empty page with a marker
        self.trailing_empty_page = False
        self.inv = 0
        self.api_calls = 0                 # checkpoint API calls (incl. failed ones)
        self.calls: list[dict] = []        # per checkpoint call: {n, inv, token, ids, ok, err}
        self.fail_at: dict[int, str] = {}  # call number (1-based, global) -> fault name
        self.fail_after_apply: set[int] = set()   # call numbers whose response is lost after applying
        self.resp_page = None              # page size for checkpoint responses (None = all in one)
        self.state_pages: dict[str, list] = {}
        self.cb_seq = 0
        self.on_call = None                # hook(kind, info) for trace logging
        self.on_env = None                 # hook(kind, oid, outcome) for environment steps (timer fired / external completion)
        self.first_terminal: dict[str, int] = {}   # id -> stream index at which it became terminal
        self.get_state_calls = 0
        self.woke = False                  # a wake event (timer / external completion) happened since the invocation started
        self.fail_get_state_at = None
        self._add_op({"Id": "exec-op", "Type": "EXECUTION", "Status": "STARTED", "Name": "exec",
                      "ExecutionDetails": {"InputPayload": input_payload}})

    # ---- helpers --------------------------------------------------------------------------------
    def token(self):
        return f"tok-{self.token_n}"

    def _add_op(self, rec):
        self.ops[rec["Id"]] = rec
        self.order.append(rec["Id"])
        self.changed.add(rec["Id"])

    def status(self, oid):
        r = self.ops.get(oid)
        return r["Status"] if r else None

    def _dt(self, t):
        return datetime.datetime.fromtimestamp(t, tz=datetime.UTC)

    def _flag(self, upd, reason):
        self.illegal.append({"inv": self.inv, "pos": len(self.stream), "id": upd.get("Id"), "type": upd.get("Type"),
                             "action": upd.get("Action"), "reason": reason,
                             "status_before": self.status(upd.get("Id"))})

    # ---- the lifecycle automaton (mirror of Backend.tla Legal/Apply) ------------------------------
    def legal(self, u) -> str | None:
        """Return None when the update is legal, else the reason."""
        oid, typ, act = u["Id"], u["Type"], u["Action"]
        if self.exec_result is not None:
            return "update after execution-level result"
        if typ == "EXECUTION":
            return None if act in ("SUCCEED", "FAIL") else "bad action for EXECUTION"
        rec = self.ops.get(oid)
        st = rec["Status"] if rec else None
        if rec is not None and rec["Type"] != typ:
            return f"type changed {rec['Type']}->{typ}"
        if st in TERMINAL:
            return f"update on terminal operation ({st})"
        if rec is None:
            parent = u.get("ParentId")
            if parent:
                prec = self.ops.get(parent)
                if prec is None:
                    return "first update precedes parent context start"
                if prec["Type"] != "CONTEXT":
                    return "parent is not a context"
        if typ == "STEP":
            if act == "START":
                return None if st in (None, "READY") else f"START on {st}"
            if act == "RETRY":
                if st not in ("STARTED", "READY"):
                    return f"RETRY on {st}"
                d = (u.get("StepOptions") or {}).get("NextAttemptDelaySeconds", 0)
                return None if isinstance(d, int) and d >= 1 else f"RETRY delay {d!r} < 1"
            if act in ("SUCCEED", "FAIL"):
                return None if st in ("STARTED", "READY") else f"{act} on {st}"
            return "bad action for STEP"
        if typ == "WAIT":
            if act != "START":
                return "bad action for WAIT"
            if st is not None:
                return f"START on {st}"
            s = (u.get("WaitOptions") or {}).get("WaitSeconds", 1)
            return None if isinstance(s, int) and s >= 1 else f"wait seconds {s!r} < 1"
        if typ in ("CALLBACK", "CHAINED_INVOKE"):
            if act != "START":
                return f"bad action for {typ}"
            return None if st is None else f"START on {st}"
        if typ == "CONTEXT":
            if act == "START":
                return None if st is None else f"START on {st}"
            if act in ("SUCCEED", "FAIL"):
                return None if st == "STARTED" else f"{act} on {st}"
            return "bad action for CONTEXT"
        return "unknown type"

    def apply(self, u):
        why = self.legal(u)
        if why:
            self._flag(u, why)
        now = self.clock()
        oid, typ, act = u["Id"], u["Type"], u["Action"]
        self.stream.append({"inv": self.inv, "call": self.api_calls, "id": oid, "type": typ, "action": act,
                            "parent": u.get("ParentId"), "name": u.get("Name"), "subtype": u.get("SubType"),
                            "payload_len": len(u.get("Payload") or ""), "t": now, "legal": why is None,
                            "invoke": ((u.get("Payload"), (u.get("ChainedInvokeOptions") or {}).get("FunctionName"))
                                       if typ == "CHAINED_INVOKE" else None),
                            "delay": (u.get("StepOptions") or {}).get("NextAttemptDelaySeconds"),
                            "status_before": self.status(oid)})
        if typ == "EXECUTION":
            if self.exec_result is None:
                self.exec_result = (act, u.get("Payload") if act == "SUCCEED" else u.get("Error"))
            return
        rec = self.ops.get(oid)
        if rec is None:
            rec = {"Id": oid, "Type": typ, "Status": "STARTED", "ParentId": u.get("ParentId"), "Name": u.get("Name"),
                   "SubType": u.get("SubType"), "StartTimestamp": now, "_attempt": 0}
            self._add_op(rec)
        elif rec["Status"] in TERMINAL:
            return  # flagged above; terminal records are immutable
        self.changed.add(oid)
        if typ == "STEP":
            if act == "START":
                rec["Status"] = "STARTED"
            elif act == "RETRY":
                rec["Status"] = "PENDING"
                rec["_attempt"] = rec.get("_attempt", 0) + 1
                d = (u.get("StepOptions") or {}).get("NextAttemptDelaySeconds", 1) or 1
                rec["_next"] = now + d
                rec["_result"] = u.get("Payload")
                rec["_error"] = u.get("Error")
                self.timers.append((now + d, oid, "retry"))
            elif act == "SUCCEED":
                rec["Status"] = "SUCCEEDED"
                rec["_result"] = u.get("Payload")
                rec["EndTimestamp"] = now
            elif act == "FAIL":
                rec["Status"] = "FAILED"
                rec["_error"] = u.get("Error")
                rec["EndTimestamp"] = now
        elif typ == "WAIT":
            s = (u.get("WaitOptions") or {}).get("WaitSeconds", 1) or 1
            rec["Status"] = "STARTED"
            rec["_end"] = now + s
            self.timers.append((now + s, oid, "wait"))
        elif typ == "CALLBACK":
            if "_cbid" not in rec:
                self.cb_seq += 1
                rec["_cbid"] = f"cb-{self.cb_seq}-{oid[:8]}"
                rec["_options"] = u.get("CallbackOptions")
        elif typ == "CHAINED_INVOKE":
            rec["_input"] = u.get("Payload")
            rec["_options"] = u.get("ChainedInvokeOptions")
        elif typ == "CONTEXT":
            if act == "START":
                rec["Status"] = "STARTED"
            elif act == "SUCCEED":
                rec["Status"] = "SUCCEEDED"
                rec["_result"] = u.get("Payload")
                rec["_replay_children"] = bool((u.get("ContextOptions") or {}).get("ReplayChildren", False))
                rec["EndTimestamp"] = now
            elif act == "FAIL":
                rec["Status"] = "FAILED"
                rec["_error"] = u.get("Error")
                rec["EndTimestamp"] = now
        if rec["Status"] in TERMINAL and oid not in self.first_terminal:
            self.first_terminal[oid] = len(self.stream) - 1

    # ---- environment -----------------------------------------------------------------------------
    def due_timers(self, now=None):
        now = self.clock() if now is None else now
        return sorted(t for t in self.timers if t[0] + self.timer_lag <= now)

    def fire(self, timer):
        due, oid, kind = timer
        if timer in self.timers:
            self.timers.remove(timer)
        rec = self.ops.get(oid)
        if rec is None:
            return
        if kind == "retry" and rec["Status"] == "PENDING":
            rec["Status"] = "READY"
            self.changed.add(oid)
            self.woke = True
            if self.on_env:
                self.on_env("timer", oid, "READY")
        elif kind == "wait" and rec["Status"] == "STARTED":
            rec["Status"] = "SUCCEEDED"
            rec["EndTimestamp"] = due
            self.changed.add(oid)
            self.woke = True
            self.first_terminal.setdefault(oid, len(self.stream))
            if self.on_env:
                self.on_env("timer", oid, "SUCCEEDED")

    def tick(self):
        for t in self.due_timers():
            self.fire(t)

    def pending_externals(self):
        return [oid for oid in self.order
                if self.ops[oid]["Type"] in ("CALLBACK", "CHAINED_INVOKE") and self.ops[oid]["Status"] == "STARTED"]

    def complete_external(self, oid, outcome, payload=None, error=None):
        rec = self.ops[oid]
        if rec["Status"] != "STARTED":
            return False
        rec["Status"] = outcome
        if outcome == "SUCCEEDED":
            rec["_result"] = payload
        else:
            rec["_error"] = error
        rec["EndTimestamp"] = self.clock()
        self.changed.add(oid)
        self.woke = True
        self.first_terminal.setdefault(oid, len(self.stream))
        if self.on_env:
            self.on_env("ext", oid, outcome)
        return True

    def callback_id(self, oid):
        return self.ops[oid].get("_cbid")

    # ---- wire form --------------------------------------------------------------------------------
    def wire(self, oid, json_mode=False):
        r = self.ops[oid]

        def ts(t):
            if t is None:
                return None
            return int(t * 1000) if json_mode else self._dt(t)

        d = {"Id": r["Id"], "Type": r["Type"], "Status": r["Status"]}
        for k in ("ParentId", "Name", "SubType"):
            if r.get(k):
                d[k] = r[k]
        for k in ("StartTimestamp", "EndTimestamp"):
            if r.get(k) is not None:
                d[k] = ts(r[k])
        typ = r["Type"]
        if typ == "EXECUTION":
            d["ExecutionDetails"] = dict(r["ExecutionDetails"])
        elif typ == "STEP":
            sd = {"Attempt": r.get("_attempt", 0)}
            if r.get("_next") is not None and r["Status"] in ("PENDING",):
                sd["NextAttemptTimestamp"] = ts(r["_next"])
            if r.get("_result") is not None:
                sd["Result"] = r["_result"]
            if r.get("_error") is not None:
                sd["Error"] = r["_error"]
            d["StepDetails"] = sd
        elif typ == "WAIT":
            d["WaitDetails"] = {"ScheduledEndTimestamp": ts(r.get("_end"))} if r.get("_end") is not None else {}
        elif typ == "CALLBACK":
            cd = {"CallbackId": r.get("_cbid", "")}
            if r.get("_result") is not None:
                cd["Result"] = r["_result"]
            if r.get("_error") is not None:
                cd["Error"] = r["_error"]
            d["CallbackDetails"] = cd
        elif typ == "CHAINED_INVOKE":
            cd = {}
            if r.get("_result") is not None:
                cd["Result"] = r["_result"]
            if r.get("_error") is not None:
                cd["Error"] = r["_error"]
            d["ChainedInvokeDetails"] = cd
        elif typ == "CONTEXT":
            cd = {"ReplayChildren": bool(r.get("_replay_children", False))}
            if r.get("_result") is not None:
                cd["Result"] = r["_result"]
            if r.get("_error") is not None:
                cd["Error"] = r["_error"]
            d["ContextDetails"] = cd
        return d

    # ---- boto3-level API ----------------------------------------------------------------------------
    def checkpoint_durable_execution(self, DurableExecutionArn, CheckpointToken, Updates, **kw):
        self.api_calls += 1
        n = self.api_calls
        ids = [(u["Id"], u["Action"]) for u in Updates]
        call = {"n": n, "inv": self.inv, "token": CheckpointToken, "updates": ids, "ok": None, "err": None,
                "sizes": [len(json.dumps(u)) for u in Updates], "t": self.clock()}
        self.calls.append(call)
        if self.on_call:
            self.on_call("ApiCall", call)
        fault = self.fail_at.get(n)
        if fault and n not in self.fail_after_apply:
            call["ok"], call["err"] = False, fault
            if self.on_call:
                self.on_call("ApiReturn", call)
            st, code, msg, _ = FAULTS[fault]
            raise ClientError(st, code, msg)
        if CheckpointToken != self.token():
            call["stale_token"] = True
            self.illegal.append({"inv": self.inv, "pos": len(self.stream), "id": None, "type": None, "action": None,
                                 "reason": f"stale checkpoint token {CheckpointToken} (current {self.token()})",
                                 "status_before": None})
        self.tick()
        for u in Updates:
            self.apply(u)
        self.token_n += 1
        call["applied"] = True
        if self.on_call:
            self.on_call("ApiApplied", call)
        if fault:
            call["ok"], call["err"] = False, fault + "-after-apply"
            if self.on_call:
                self.on_call("ApiReturn", call)
            st, code, msg, _ = FAULTS[fault]
            raise ClientError(st, code, msg)
        changed = [oid for oid in self.order if oid in self.changed]
        self.changed = set()
        ops = [self.wire(oid) for oid in changed]
        call["ok"] = True
        call["changed"] = changed
        call["new_token"] = self.token()
        out = {"CheckpointToken": self.token(), "NewExecutionState": {"Operations": ops}}
        if self.resp_page is not None and len(ops) > self.resp_page:       # (0 = an empty inline page with a NextMarker)
            out["NewExecutionState"]["Operations"] = ops[:self.resp_page]
            out["NewExecutionState"]["NextMarker"] = self._park(ops[self.resp_page:], max(1, self.resp_page))
        if self.on_call:
            self.on_call("ApiReturn", call)
        return out

    def _park(self, ops, page):
        key = f"mk-{len(self.state_pages) + 1}"
        self.state_pages[key] = (ops, page)
        return key

    def get_durable_execution_state(self, DurableExecutionArn, CheckpointToken, Marker, MaxItems=1000, **kw):
        self.get_state_calls += 1
        if self.fail_get_state_at is not None and self.get_state_calls == self.fail_get_state_at:
            if self.on_call:
                self.on_call("GetStateFail", {"marker": Marker, "n": self.get_state_calls})
            raise ClientError(500, "ServiceException", "get state failed")
        ops, page = self.state_pages.pop(Marker)
        if self.get_state_calls in self.empty_pages:
            # a page without operations that still announces a further page (a listing is only over when no marker comes back)
            out = {"Operations": [], "NextMarker": self._park(ops, page)}
            if self.on_call:
                self.on_call("GetState", {"marker": Marker, "n": 0})
            return out
        out = {"Operations": ops[:page]}
        if len(ops) > page:
            out["NextMarker"] = self._park(ops[page:], page)
        elif self.trailing_empty_page and ops:
            out["NextMarker"] = self._park([], page)       # the last operations are followed by one more, empty, page
        if self.on_call:
            self.on_call("GetState", {"marker": Marker, "n": len(out["Operations"])})
        return out

    # ---- invocation event ---------------------------------------------------------------------------
    def start_invocation(self, first_page=None, page=None):
        """Build the (JSON) invocation event for the next invocation. `first_page` = number of operations in the
        payload (None = all), `page` = size of later pages."""
        self.inv += 1
        self.tick()
        self.woke = False
        self.token_n += 1
        self.changed = set()
        ops = [self.wire(oid, json_mode=True) for oid in self.order]
        ev = {"DurableExecutionArn": self.arn, "CheckpointToken": self.token(),
              "InitialExecutionState": {"Operations": ops, "NextMarker": ""}}
        split = None
        if first_page is not None and first_page < len(ops):
            # later pages are served by get_durable_execution_state in boto form (datetime objects)
            rest = [self.wire(oid) for oid in self.order[first_page:]]
            ev["InitialExecutionState"]["Operations"] = ops[:first_page]
            ev["InitialExecutionState"]["NextMarker"] = self._park(rest, page or len(rest))
            split = (first_page, page or len(rest))
        return ev, split

    def snapshot(self):
        """Small projected state: id -> (type, status, attempt)."""
        return {oid: (r["Type"], r["Status"], r.get("_attempt", 0)) for oid, r in self.ops.items()}
