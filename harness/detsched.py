"""detsched: deterministic cooperative scheduling of real Python threads over shim primitives.

Exactly one managed thread runs at any instant (token passing over real semaphores).  Every shim
primitive operation is a scheduling point.  Time is virtual.  A *crash* aborts every managed thread
at its next scheduling point.  A *hang* is "nobody can ever run" or "no progress event for
`hang_after` virtual seconds".

Only the standard library is used.
"""
from __future__ import annotations

import collections
import heapq
import random as _random
import threading as _rt          # the REAL threading module
import time as _rtime
import queue as _rqueue

EPOCH0 = 1_700_000_000.0  # virtual clock origin (seconds)


class Abort(BaseException):
    """Raised inside managed threads when the execution is being torn down (crash / hang / limit)."""


class SchedulerError(Exception):
    pass


class MThread:
    __slots__ = ("name", "sched", "real", "gate", "state", "pred", "deadline", "timed_out", "target",
                 "args", "kwargs", "daemon", "shim", "idx", "started_target", "waiting_on", "ops")

    def __init__(self, sched, name, target, args, kwargs, daemon, shim=None):
        self.sched = sched
        self.name = name
        self.target, self.args, self.kwargs = target, args, kwargs or {}
        self.daemon = daemon
        self.shim = shim
        self.gate = _rt.Semaphore(0)
        self.state = "new"          # new | ready | blocked | done
        self.pred = None
        self.deadline = None
        self.timed_out = False
        self.real = None
        self.idx = 0
        self.started_target = False
        self.waiting_on = None
        self.ops = 0

    def __repr__(self):
        return f"<MThread {self.name} {self.state}>"


RESET_HOOKS: list = []     # callables run at the start of every Scheduler.run (reset module-level shim state)
_tls = _rt.local()
_CURRENT_SCHED = None  # type: Scheduler | None


def current():
    """(scheduler, mthread) of the calling real thread, or (None, None) when it is not managed."""
    mt = getattr(_tls, "mt", None)
    if mt is None:
        return None, None
    return mt.sched, mt


class Strategy:
    """Base strategy: choose the next thread to run.  `cands` is a list of MThread (enabled); `can_time`
    says that advancing the virtual clock to the next deadline is an alternative.  Return an MThread or "TIME"."""

    def choose(self, sched, cands, can_time):
        return cands[0] if cands else "TIME"

    def on_step(self, sched):
        pass


class RandomStrategy(Strategy):
    def __init__(self, seed, p_time=0.03, crash_at=None, stick=0.0):
        self.rng = _random.Random(seed)
        self.p_time = p_time
        self.burst = 0
        self.crash_at = crash_at     # step number at which to crash (None = never)
        self.stick = stick           # probability of continuing the current thread when possible
        self.last = None

    def on_step(self, sched):
        if self.crash_at is not None and sched.steps >= self.crash_at and not sched.aborting and not sched.main_done:
            sched.crash("crash@%d" % sched.steps)

    def choose(self, sched, cands, can_time):
        if not cands:
            return "TIME"
        if can_time:
            if self.burst > 0:
                self.burst -= 1
                return "TIME"
            if self.rng.random() < self.p_time:
                self.burst = self.rng.choice([0, 0, 2, 11, 24])
                return "TIME"
        if self.stick and self.last in cands and self.rng.random() < self.stick:
            return self.last
        c = self.rng.choice(cands)
        self.last = c
        return c


class PCTStrategy(Strategy):
    """PCT-style: random thread priorities, d priority-change points; highest priority enabled thread runs."""

    def __init__(self, seed, depth=3, est_steps=400, p_time=0.02, crash_at=None):
        self.rng = _random.Random(seed)
        self.prio = {}
        self.change = sorted(self.rng.randrange(1, est_steps) for _ in range(depth))
        self.p_time = p_time
        self.low = 0
        self.crash_at = crash_at
        self.burst = 0

    def on_step(self, sched):
        if self.crash_at is not None and sched.steps >= self.crash_at and not sched.aborting and not sched.main_done:
            sched.crash("crash@%d" % sched.steps)

    def choose(self, sched, cands, can_time):
        if not cands:
            return "TIME"
        if can_time:
            if self.burst > 0:
                self.burst -= 1
                return "TIME"
            if self.rng.random() < self.p_time:
                self.burst = self.rng.choice([0, 2, 11])
                return "TIME"
        for c in cands:
            if c.name not in self.prio:
                self.prio[c.name] = self.rng.random() + 1.0
        best = max(cands, key=lambda c: self.prio[c.name])
        while self.change and sched.steps >= self.change[0]:
            self.change.pop(0)
            self.low -= 1
            self.prio[best.name] = self.low
            best = max(cands, key=lambda c: self.prio[c.name])
        return best


class SlowHolderStrategy(Strategy):
    """Adversarial schedule family: whichever thread holds the SDK lock created at `site` is slow - at every scheduling point it is
    passed over while any other thread can run (for at most `budget` consecutive decisions; virtual time is never advanced on its
    behalf).  Everything that piles up around a long critical section (lock-order inversions, callbacks running inline in the
    holder, waiters overtaking) is reached; a hang or deadlock found this way is a real one."""

    def __init__(self, base, site, budget=600, stall=0.5):
        self.base, self.site, self.budget, self.spent = base, site, budget, 0
        self.stall, self.stalled = stall, 0.0      # total virtual time the holder may be descheduled while runnable (a CPU stall)
        self.crash_at = getattr(base, "crash_at", None)

    def on_step(self, sched):
        self.base.on_step(sched)

    def _holds(self, sched, t):
        for lk in sched.sdk_locks:
            if lk._owner is t and lk._site == self.site:
                return True
        return False

    def choose(self, sched, cands, can_time):
        slow = [t for t in cands if self._holds(sched, t)]
        if slow and len(slow) < len(cands) and self.spent < self.budget:
            self.spent += 1
            return self.base.choose(sched, [t for t in cands if t not in slow], False)
        if slow and len(slow) == len(cands) and can_time and self.spent < self.budget:
            # only the holder is runnable: let it stall while the others' timed waits expire (bounded: a descheduled thread)
            dl = sched._next_deadline()
            delta = max(0.0, dl.deadline - sched.now) if dl is not None else None
            if delta is not None and self.stalled + delta <= self.stall:
                self.stalled += delta
                self.spent += 1
                return "TIME"
        if not slow:
            self.spent = 0
        return self.base.choose(sched, cands, can_time)


class SlowAfterEventStrategy(Strategy):
    """Adversarial schedule family: the thread that logs the `nth` event matching `start` (a dict of required fields) is slow from
    then on - passed over while anybody else can run, stalled for at most `stall` virtual seconds - until it logs an event whose name
    is in `until` (or the budget is used up).  Reaches "this thread is descheduled right after X" windows deterministically."""

    def __init__(self, base, start, nth=1, until=("FnEnter", "BodyEnd"), budget=800, stall=0.5):
        self.base, self.start, self.nth, self.until = base, dict(start), nth, set(until)
        self.budget, self.spent, self.stall, self.stalled = budget, 0, stall, 0.0
        self.seen, self.pos, self.slow = 0, 0, None
        self.crash_at = getattr(base, "crash_at", None)

    def on_step(self, sched):
        self.base.on_step(sched)

    def _scan(self, sched):
        evs = sched.events
        while self.pos < len(evs):
            x = evs[self.pos]
            self.pos += 1
            if self.slow is None and all(x.get(k) == v for k, v in self.start.items()):
                self.seen += 1
                if self.seen == self.nth:
                    self.slow = x.get("th")
            elif self.slow is not None and x.get("th") == self.slow and x.get("ev") in self.until:
                self.slow = "-done-"

    def choose(self, sched, cands, can_time):
        self._scan(sched)
        slow = [t for t in cands if t.name == self.slow]
        if slow and self.spent < self.budget:
            if len(slow) < len(cands):
                self.spent += 1
                return self.base.choose(sched, [t for t in cands if t not in slow], False)
            if can_time:
                dl = sched._next_deadline()
                delta = max(0.0, dl.deadline - sched.now) if dl is not None else None
                if delta is not None and self.stalled + delta <= self.stall:
                    self.stalled += delta
                    self.spent += 1
                    return "TIME"
        return self.base.choose(sched, cands, can_time)


class ScriptedStrategy(Strategy):
    """Follow a recorded list of choices (thread names or "TIME"); fall back to `fallback` afterwards/if impossible."""

    def __init__(self, script, fallback=None, strict=False):
        self.script = list(script)
        self.pos = 0
        self.fallback = fallback or RandomStrategy(0)
        self.strict = strict
        self.diverged_at = None

    def on_step(self, sched):
        if self.pos < len(self.script) and self.script[self.pos] == "CRASH":
            self.pos += 1
            sched.crash("scripted")
        self.fallback.on_step(sched)

    def choose(self, sched, cands, can_time):
        if self.pos < len(self.script):
            want = self.script[self.pos]
            if want == "TIME" and (can_time or not cands):
                self.pos += 1
                return "TIME"
            for c in cands:
                if c.name == want:
                    self.pos += 1
                    return c
            if self.diverged_at is None:
                self.diverged_at = self.pos
            if self.strict:
                raise SchedulerError(f"script diverged at {self.pos}: want {want}, enabled {[c.name for c in cands]}")
            self.pos = len(self.script)
        return self.fallback.choose(sched, cands, can_time)


class Scheduler:
    def __init__(self, strategy=None, max_steps=200_000, hang_after=120.0, wall_limit=60.0, record_choices=True):
        self.strategy = strategy or Strategy()
        self.now = EPOCH0
        self.threads: list[MThread] = []
        self.steps = 0
        self.max_steps = max_steps
        self.hang_after = hang_after
        self.wall_limit = wall_limit
        self.aborting = False
        self.verdict = None          # None | "crash" | "hang" | "steps" | "deadlock"
        self.verdict_info = None
        self.events: list[dict] = []
        self.choices: list[str] = [] if record_choices else None
        self.last_progress = self.now
        self.last_progress_step = 0
        self.main_done = False
        self.main_result = None
        self.main_exc = None
        self._done_evt = _rt.Event()
        self._names = collections.Counter()
        self.after_main_steps = 3000   # budget for orphans after main returned
        self._main_done_step = None
        self.trace_ops = False
        self.post_yield = True
        self.on_event = None

    # ---- logging ------------------------------------------------------------------------------
    @property
    def sdk_locks(self):
        return _SDK_LOCKS

    def log(self, ev: str, **kw):
        _, me = current()
        d = {"seq": len(self.events), "t": round(self.now - EPOCH0, 3), "th": me.name if me else "env", "ev": ev}
        d.update(kw)
        self.events.append(d)
        if self.on_event:
            self.on_event(d)
        return d

    def progress(self):
        self.last_progress = self.now
        self.last_progress_step = self.steps

    # ---- thread management --------------------------------------------------------------------
    def _mkname(self, base):
        self._names[base] += 1
        n = self._names[base]
        return base if n == 1 else f"{base}#{n}"

    def spawn(self, target, args=(), kwargs=None, name="t", daemon=True, shim=None) -> MThread:
        mt = MThread(self, self._mkname(name), target, args, kwargs, daemon, shim)
        mt.idx = len(self.threads)
        self.threads.append(mt)
        mt.real = _rt.Thread(target=self._bootstrap, args=(mt,), daemon=True, name="det-" + mt.name)
        mt.state = "ready"
        mt.real.start()
        return mt

    def _bootstrap(self, mt: MThread):
        _tls.mt = mt
        mt.gate.acquire()
        try:
            if not self.aborting:
                mt.started_target = True
                try:
                    mt.target(*mt.args, **mt.kwargs)
                except Abort:
                    pass
                except BaseException as e:  # noqa: BLE001 - thread died with an exception
                    if not self.aborting:
                        self.log("ThreadDied", name=mt.name, exc=type(e).__name__, msg=str(e)[:200])
        finally:
            mt.state = "done"
            self.progress()
            _tls.mt = None
            try:
                self._switch_final(mt)
            except BaseException:  # noqa: BLE001
                self._finish()

    # ---- the core -----------------------------------------------------------------------------
    def _enabled(self):
        out = []
        for t in self.threads:
            if t.state == "ready":
                out.append(t)
            elif t.state == "blocked" and t.pred is not None and t.pred():
                out.append(t)
        return out

    def _next_deadline(self):
        best = None
        for t in self.threads:
            if t.state == "blocked" and t.deadline is not None:
                if best is None or t.deadline < best.deadline:
                    best = t
        return best

    def _pick(self):
        """Return the MThread that runs next, or None when the execution is over."""
        while True:
            if self.aborting:
                for t in self.threads:
                    if t.state != "done":
                        return t
                return None
            self.steps += 1
            try:
                self.strategy.on_step(self)
            except SchedulerError:
                raise
            if self.aborting:
                continue
            if self.steps > self.max_steps:
                self._abort("steps", f"more than {self.max_steps} scheduling steps")
                continue
            if self.main_done:
                if self._main_done_step is None:
                    self._main_done_step = self.steps
                if self.steps - self._main_done_step > self.after_main_steps:
                    self._abort("leftover", "threads still running long after the main thread returned")
                    continue
            if self.now - self.last_progress > self.hang_after:
                self._abort("hang", f"no progress event for {self.hang_after} virtual seconds "
                                    f"(since step {self.last_progress_step})")
                continue
            cands = self._enabled()
            dl = self._next_deadline()
            if not cands and dl is None:
                live = [t for t in self.threads if t.state != "done"]
                if not live:
                    return None
                if self.main_done:
                    # only parked leftovers remain (e.g. orphaned workers blocked forever): stop here
                    self._abort("leftover-blocked", "threads blocked forever after main returned: "
                                + ",".join(t.name for t in live))
                    continue
                self._abort("deadlock", "no thread can ever run: " + ", ".join(
                    f"{t.name} waits on {t.waiting_on}" for t in live))
                continue
            choice = self.strategy.choose(self, cands, dl is not None)
            if choice == "TIME" or not cands:
                if dl is None:
                    continue
                if dl.deadline > self.now:
                    self.now = dl.deadline
                dl.timed_out = True
                dl.pred = None
                dl.state = "ready"
                if self.choices is not None:
                    self.choices.append("TIME")
                continue
            if self.choices is not None:
                self.choices.append(choice.name)
            return choice

    def _abort(self, verdict, info):
        if not self.aborting:
            self.aborting = True
            self.verdict = self.verdict or verdict
            self.verdict_info = self.verdict_info or info
            self.log("Abort", verdict=verdict, info=info)

    def crash(self, info="crash"):
        self._abort("crash", info)

    def _resume(self, t: MThread):
        if t.state == "blocked":
            t.state = "ready"
        t.pred = None
        t.deadline = None
        t.gate.release()

    def _switch(self, me: MThread):
        nxt = self._pick()
        if nxt is me:
            if me.state == "blocked":
                me.state = "ready"
            me.pred = None
            me.deadline = None
        else:
            if nxt is None:
                # cannot happen while `me` is alive
                raise SchedulerError("no thread to run while current thread alive")
            self._resume(nxt)
            me.gate.acquire()
        if self.aborting:
            raise Abort()

    def _switch_final(self, me: MThread):
        nxt = self._pick()
        if nxt is None:
            self._finish()
        else:
            self._resume(nxt)

    def _finish(self):
        self._done_evt.set()

    # ---- API used by shims ----------------------------------------------------------------------
    def yield_point(self, me: MThread, what=None):
        if self.aborting:
            raise Abort()
        me.ops += 1
        me.state = "ready"
        self._switch(me)

    def yield_soft(self, me: MThread, what=None):
        """Scheduling point of a release-type operation: never raises Abort (a dying thread must still be able
        to release what it holds while unwinding), it simply does not switch once the execution is being torn down."""
        if self.aborting:
            return
        me.ops += 1
        me.state = "ready"
        try:
            self._switch(me)
        except Abort:
            return

    def block(self, me: MThread, pred, deadline=None, what=None) -> bool:
        """Block until pred() holds (checked at scheduling time) or the deadline passes. Returns True on timeout."""
        if self.aborting:
            raise Abort()
        me.state = "blocked"
        me.pred = pred
        me.deadline = deadline
        me.timed_out = False
        me.waiting_on = what
        self._switch(me)
        me.waiting_on = None
        to = me.timed_out
        me.timed_out = False
        return to

    # ---- running ----------------------------------------------------------------------------------
    def run(self, fn, *args, name="main", **kwargs):
        """Run fn in a managed thread called `name`; returns when every managed thread is done or aborted."""
        global _CURRENT_SCHED
        _CURRENT_SCHED = self
        for h in RESET_HOOKS:
            h()
        del _SDK_LOCKS[:]
        Thread._counter = 0        # default thread names ("Thread-N") restart with every run: recorded choice sequences replay exactly

        def main_wrapper():
            try:
                self.main_result = fn(*args, **kwargs)
            except Abort:
                raise
            except BaseException as e:  # noqa: BLE001
                self.main_exc = e
            finally:
                self.main_done = True
                self.progress()

        self.spawn(main_wrapper, name=name)
        first = self._pick()
        if first is None:
            self._finish()
        else:
            self._resume(first)
        if not self._done_evt.wait(self.wall_limit):
            raise SchedulerError("wall-clock watchdog: a managed thread is blocked in a real primitive "
                                 f"(threads: {self.threads})")
        for t in self.threads:
            t.real.join(1.0)
        _CURRENT_SCHED = None
        return self


# ================================================================================================
# shim primitives
# ================================================================================================

def _sdk_site():
    """'<module>.<function>' of the SDK frame that creates a lock (None for locks created elsewhere): a name for the lock that is
    stable across executions (used by the slow-holder schedules)"""
    import sys as _sys
    f = _sys._getframe(2)
    for _ in range(8):
        if f is None:
            return None
        fn = f.f_code.co_filename
        if "aws_durable_execution_sdk_python" in fn:
            return fn.rsplit("/", 1)[-1][:-3] + "." + f.f_code.co_name + ":" + str(f.f_lineno)
        f = f.f_back
    return None


_SDK_LOCKS: list = []          # SDK-created shim locks of the current run (cleared at the start of every Scheduler.run)
LOCK_SITES: set = set()        # every SDK lock site seen in this process (informational; used to enumerate slow-holder schedules)


class Lock:
    _kind = "Lock"
    _hook = None

    def __init__(self):
        self._owner = None
        self._uid = None
        self._site = _sdk_site()
        if self._site:
            LOCK_SITES.add(self._site)
            _SDK_LOCKS.append(self)

    def acquire(self, blocking=True, timeout=-1):
        s, me = current()
        if me is None:
            if self._owner is None:
                self._owner = "ext"
                return True
            if not blocking:
                return False
            raise SchedulerError("unmanaged thread would block on shim Lock")
        s.yield_point(me, "Lock.acquire")
        if self._owner is None:
            self._owner = me
            return True
        if not blocking:
            return False
        dl = None if (timeout is None or timeout < 0) else s.now + timeout
        s.block(me, lambda: self._owner is None, dl, what=self)
        if self._owner is None:
            self._owner = me
            return True
        return False

    def release(self):
        s, me = current()
        if me is not None:
            s.yield_soft(me, "Lock.release")
        if self._owner is None:
            raise RuntimeError("release unlocked lock")
        self._owner = None
        if self._hook is not None:
            self._hook("release", self)
        if me is not None and s.post_yield:
            s.yield_soft(me, "Lock.released")

    def locked(self):
        return self._owner is not None

    def _at_fork_reinit(self):
        self._owner = None

    __enter__ = acquire

    def __exit__(self, *a):
        self.release()

    def __repr__(self):
        return f"<shim {self._kind} owner={getattr(self._owner, 'name', self._owner)}>"


class RLock:
    def __init__(self):
        self._owner = None
        self._count = 0

    def acquire(self, blocking=True, timeout=-1):
        s, me = current()
        who = me if me is not None else "ext"
        if self._owner is who:
            self._count += 1
            return True
        if me is None:
            if self._owner is None:
                self._owner, self._count = who, 1
                return True
            raise SchedulerError("unmanaged thread would block on shim RLock")
        s.yield_point(me, "RLock.acquire")
        if self._owner is None:
            self._owner, self._count = me, 1
            return True
        if not blocking:
            return False
        dl = None if (timeout is None or timeout < 0) else s.now + timeout
        s.block(me, lambda: self._owner is None, dl, what=self)
        if self._owner is None:
            self._owner, self._count = me, 1
            return True
        return False

    def release(self):
        s, me = current()
        who = me if me is not None else "ext"
        if self._owner is not who:
            raise RuntimeError("cannot release un-acquired lock")
        self._count -= 1
        if self._count == 0:
            if me is not None:
                s.yield_soft(me, "RLock.release")
            self._owner = None

    __enter__ = acquire

    def __exit__(self, *a):
        self.release()

    # Condition support
    def _release_save(self):
        st = (self._owner, self._count)
        self._owner, self._count = None, 0
        return st

    def _acquire_restore(self, st):
        s, me = current()
        if self._owner is not None:
            s.block(me, lambda: self._owner is None, None, what=self)
        self._owner, self._count = st

    def _is_owned(self):
        _, me = current()
        return self._owner is (me if me is not None else "ext")


class Condition:
    def __init__(self, lock=None):
        self._lock = lock if lock is not None else RLock()
        self.acquire = self._lock.acquire
        self.release = self._lock.release
        self._waiters = []

    def __enter__(self):
        return self._lock.__enter__()

    def __exit__(self, *a):
        return self._lock.__exit__(*a)

    def _is_owned(self):
        if hasattr(self._lock, "_is_owned"):
            return self._lock._is_owned()
        return self._lock.locked()

    def wait(self, timeout=None):
        s, me = current()
        if me is None:
            raise SchedulerError("unmanaged thread would wait on shim Condition")
        if not self._is_owned():
            raise RuntimeError("cannot wait on un-acquired lock")
        tok = [False]
        self._waiters.append(tok)
        if isinstance(self._lock, RLock):
            st = self._lock._release_save()
        else:
            self._lock._owner = None
            st = None
        dl = None if timeout is None else s.now + max(0.0, timeout)
        try:
            s.block(me, lambda: tok[0], dl, what=self)
        finally:
            if tok in self._waiters:
                self._waiters.remove(tok)
            if not s.aborting:
                if st is not None:
                    self._lock._acquire_restore(st)
                else:
                    if self._lock._owner is not None:
                        s.block(me, lambda: self._lock._owner is None, None, what=self._lock)
                    self._lock._owner = me
        return tok[0]

    def wait_for(self, predicate, timeout=None):
        s, me = current()
        end = None if timeout is None else s.now + timeout
        result = predicate()
        while not result:
            if end is not None:
                rem = end - s.now
                if rem <= 0:
                    break
                self.wait(rem)
            else:
                self.wait(None)
            result = predicate()
        return result

    def notify(self, n=1):
        if not self._is_owned():
            raise RuntimeError("cannot notify on un-acquired lock")
        k = 0
        for tok in list(self._waiters):
            if k >= n:
                break
            if not tok[0]:
                tok[0] = True
                self._waiters.remove(tok)
                k += 1

    def notify_all(self):
        self.notify(len(self._waiters))


class Event:
    _hook = None

    def __init__(self):
        self._flag = False

    def is_set(self):
        s, me = current()
        if me is not None:
            s.yield_point(me, "Event.is_set")
        return self._flag

    isSet = is_set

    def set(self):
        s, me = current()
        if me is not None:
            s.yield_soft(me, "Event.set")
        self._flag = True
        if self._hook is not None:
            self._hook("set", self)
        if me is not None and s.post_yield:
            s.yield_soft(me, "Event.was_set")

    def clear(self):
        s, me = current()
        if me is not None:
            s.yield_point(me, "Event.clear")
        self._flag = False

    def wait(self, timeout=None):
        s, me = current()
        if me is None:
            if self._flag:
                return True
            raise SchedulerError("unmanaged thread would block on shim Event")
        s.yield_point(me, "Event.wait")
        if self._flag:
            return True
        dl = None if timeout is None else s.now + max(0.0, timeout)
        s.block(me, lambda: self._flag, dl, what=self)
        return self._flag

    def _at_fork_reinit(self):
        pass


class Semaphore:
    def __init__(self, value=1):
        self._value = value

    def acquire(self, blocking=True, timeout=None):
        s, me = current()
        if me is None:
            if self._value > 0:
                self._value -= 1
                return True
            if not blocking:
                return False
            raise SchedulerError("unmanaged thread would block on shim Semaphore")
        s.yield_point(me, "Semaphore.acquire")
        if self._value > 0:
            self._value -= 1
            return True
        if not blocking:
            return False
        dl = None if timeout is None else s.now + max(0.0, timeout)
        s.block(me, lambda: self._value > 0, dl, what=self)
        if self._value > 0:
            self._value -= 1
            return True
        return False

    def release(self, n=1):
        s, me = current()
        if me is not None:
            s.yield_soft(me, "Semaphore.release")
        self._value += n
        if me is not None and s.post_yield:
            s.yield_soft(me, "Semaphore.released")

    __enter__ = acquire

    def __exit__(self, *a):
        self.release()


BoundedSemaphore = Semaphore


class Thread:
    _counter = 0

    def __init__(self, group=None, target=None, name=None, args=(), kwargs=None, *, daemon=None):
        Thread._counter += 1
        self._target, self._args, self._kwargs = target, args, kwargs or {}
        self._name = name or f"Thread-{Thread._counter}"
        self.daemon = bool(daemon)
        self._mt = None
        self._started = False

    @property
    def name(self):
        return self._name

    @name.setter
    def name(self, v):
        self._name = v

    @property
    def ident(self):
        return id(self) if self._started else None

    def run(self):
        if self._target is not None:
            self._target(*self._args, **self._kwargs)

    def start(self):
        s, me = current()
        if me is None:
            raise SchedulerError("shim Thread started from an unmanaged thread")
        if self._started:
            raise RuntimeError("threads can only be started once")
        s.yield_point(me, "Thread.start")
        self._started = True
        self._mt = s.spawn(self.run, name=s.name_for_thread(self) if hasattr(s, "name_for_thread") else self._name,
                           daemon=self.daemon, shim=self)

    def join(self, timeout=None):
        s, me = current()
        if not self._started:
            raise RuntimeError("cannot join thread before it is started")
        if me is None:
            raise SchedulerError("unmanaged join")
        s.yield_point(me, "Thread.join")
        if self._mt.state == "done":
            return
        dl = None if timeout is None else s.now + max(0.0, timeout)
        s.block(me, lambda: self._mt.state == "done", dl, what=self)

    def is_alive(self):
        return self._started and self._mt is not None and self._mt.state != "done"

    def setDaemon(self, v):
        self.daemon = v

    def isDaemon(self):
        return self.daemon


class _MainThreadObj:
    name = "MainThread"
    daemon = False
    ident = 1

    def is_alive(self):
        return True


_MAIN_OBJ = _MainThreadObj()


def current_thread():
    _, me = current()
    if me is None:
        return _MAIN_OBJ
    if me.shim is None:
        me.shim = Thread(name=me.name)
        me.shim._started = True
        me.shim._mt = me
    return me.shim


def main_thread():
    return _MAIN_OBJ


def get_ident():
    return _rt.get_ident()


class Queue:
    """FIFO queue shim (unbounded only). Each method is one primitive operation."""
    _hook = None

    def __init__(self, maxsize=0):
        if maxsize and maxsize > 0:
            raise SchedulerError("bounded shim Queue not supported")
        self._q = collections.deque()
        self._unfinished = 0
        self.label = None

    def qsize(self):
        s, me = current()
        if me is not None:
            s.yield_point(me, "Queue.qsize")
        return len(self._q)

    def empty(self):
        s, me = current()
        if me is not None:
            s.yield_point(me, "Queue.empty")
        return not self._q

    def full(self):
        return False

    def put(self, item, block=True, timeout=None):
        s, me = current()
        if me is not None:
            s.yield_soft(me, "Queue.put")
        self._q.append(item)
        self._unfinished += 1
        if self._hook is not None:
            self._hook("put", self, item)
        if me is not None and s.post_yield:
            s.yield_soft(me, "Queue.was_put")

    def put_nowait(self, item):
        return self.put(item, block=False)

    def get(self, block=True, timeout=None):
        s, me = current()
        if me is None:
            if self._q:
                return self._q.popleft()
            raise _rqueue.Empty
        s.yield_point(me, "Queue.get")
        if not self._q:
            if not block:
                if self._hook is not None:
                    self._hook("get_empty", self, None)
                raise _rqueue.Empty
            if timeout is not None and timeout < 0:
                raise ValueError("'timeout' must be a non-negative number")
            dl = None if timeout is None else s.now + timeout
            s.block(me, lambda: bool(self._q), dl, what=self)
        if self._q:
            item = self._q.popleft()
            if self._hook is not None:
                self._hook("get", self, item)
            return item
        if self._hook is not None:
            self._hook("get_timeout", self, None)
        raise _rqueue.Empty

    def get_nowait(self):
        return self.get(block=False)

    def task_done(self):
        if self._unfinished <= 0:
            raise ValueError("task_done() called too many times")
        self._unfinished -= 1

    def join(self):
        s, me = current()
        s.yield_point(me, "Queue.join")
        if self._unfinished:
            s.block(me, lambda: self._unfinished == 0, None, what=self)


class SimpleQueue:
    def __init__(self):
        self._q = collections.deque()

    def qsize(self):
        return len(self._q)

    def empty(self):
        return not self._q

    def put(self, item, block=True, timeout=None):
        s, me = current()
        if me is not None:
            s.yield_soft(me, "SimpleQueue.put")
        self._q.append(item)

    put_nowait = put

    def get(self, block=True, timeout=None):
        s, me = current()
        if me is None:
            if self._q:
                return self._q.popleft()
            raise _rqueue.Empty
        s.yield_point(me, "SimpleQueue.get")
        if self._q:
            return self._q.popleft()
        if not block:
            raise _rqueue.Empty
        dl = None if timeout is None else s.now + max(0.0, timeout)
        s.block(me, lambda: bool(self._q), dl, what=self)
        if self._q:
            return self._q.popleft()
        raise _rqueue.Empty

    def get_nowait(self):
        return self.get(block=False)


# ---- time ------------------------------------------------------------------------------------------

def vtime():
    s = _CURRENT_SCHED
    if s is None:
        return _rtime.time()
    return s.now


def vmonotonic():
    s = _CURRENT_SCHED
    if s is None:
        return _rtime.monotonic()
    return s.now - EPOCH0 + 1000.0


def vsleep(secs):
    s, me = current()
    if me is None:
        return
    s.yield_point(me, "sleep")
    if secs > 0:
        s.block(me, lambda: False, s.now + secs, what="sleep")
