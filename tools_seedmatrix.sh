#!/bin/sh
# for every seeded change: apply to /repo, run the check of the property it breaks (quick), undo; print the verdict
cd /verif
for d in seeded/C*-*; do
  id=$(basename $d); prop=$(echo $id | cut -d- -f1)
  [ -n "$1" ] && [ "$1" != "$id" ] && continue
  git -C /repo apply /verif/$d/patch.diff 2>/dev/null || { echo "$id APPLY-FAILED"; continue; }
  out=$(./vcheck $prop --tier quick 2>&1); rc=$?
  git -C /repo checkout -- .
  sigs=$(echo "$out" | grep "signature=" | sed 's/.*signature=\([^:]*\):.*/\1/' | sort | uniq -c | sort -rn | head -4 | awk '{printf "%s(x%s) ", $2, $1}')
  echo "$id -> $prop rc=$rc $sigs"
done
