#!/bin/sh
# For every seeded change: apply it to a scratch worktree of /repo (under /tmp; /repo itself and the evidence files are
# not touched), run the check(s) of the property it breaks against that worktree, print the verdict, remove the worktree.
#   usage: tools_seedmatrix.sh [seed-id] [tier] [extra property ids to run as well]
cd "$(dirname "$0")"
V=$(pwd)
only=$1; tier=${2:-quick}; shift; shift
WT=/tmp/seedwt.$$
trap 'git -C /repo worktree remove --force $WT 2>/dev/null; git -C /repo worktree prune; rm -rf /tmp/seedout.$$' EXIT
git -C /repo worktree add --detach $WT HEAD >/dev/null 2>&1 || exit 2
for d in seeded/C*-${SEEDSUFFIX:-*}; do
  id=$(basename $d); prop=$(echo $id | cut -d- -f1)
  [ -n "$only" ] && [ "$only" != "all" ] && [ "$only" != "$id" ] && continue
  git -C $WT apply $V/$d/patch.diff 2>/dev/null || { echo "$id APPLY-FAILED"; continue; }
  for p in $prop "$@"; do
    out=$(VERIF_REPO=$WT VERIF_WORK=/tmp/seedout.$$/work VERIF_EVIDENCE_DIR=/tmp/seedout.$$/ev VERIF_REPLAY_DIR=/tmp/seedout.$$/rp ./vcheck $p --tier $tier 2>&1); rc=$?
    sigs=$(echo "$out" | grep "signature=" | sed 's/.*signature=\([^:]*\):.*/\1/' | sort | uniq -c | sort -rn | head -4 | awk '{printf "%s(x%s) ", $2, $1}')
    echo "$id -> $p rc=$rc $sigs"
  done
  git -C $WT apply -R $V/$d/patch.diff
done
