#!/bin/sh
# false-alarm sweep: every check, quick tier, for several seeds, on the unchanged tree; evidence/replays redirected to /tmp
cd "$(dirname "$0")"
for s in ${@:-1 2 3}; do
  for c in $(/venv/bin/python -c "import json;print(' '.join(x['property_id'] for x in json.load(open('MANIFEST.json'))['checks']))" 2>/dev/null); do
    out=$(VERIF_SEED=$s VERIF_WORK=/tmp/ms/work VERIF_EVIDENCE_DIR=/tmp/ms/ev VERIF_REPLAY_DIR=/tmp/ms/rp$s ./vcheck $c --tier quick 2>&1); rc=$?
    echo "seed=$s $c rc=$rc $(echo "$out" | grep -E '^\[C' | tail -1 | cut -c1-160)"
    echo "$out" | grep -E "VIOLATION|MACHINERY|signature=" | head -4 | cut -c1-400
  done
done
