#!/bin/sh
# run every claimed quick check (sequentially) and summarise
cd "$(dirname "$0")"
for c in $(/venv/bin/python -c "import json;print(' '.join(x['property_id'] for x in json.load(open('MANIFEST.json'))['checks']))" 2>/dev/null); do
  s=$(date +%s)
  out=$(./vcheck $c --tier ${1:-quick} 2>&1); rc=$?
  e=$(date +%s)
  echo "$c rc=$rc $((e-s))s $(echo "$out" | grep -E '^\[C' | tail -1)"
  echo "$out" | grep -E "VIOLATION|MACHINERY" | head -3
done
