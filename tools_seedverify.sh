#!/bin/sh
# usage: tools_seedverify.sh <dir with patch.diff demo_test.py meta.json> <seed id>
# confirm a seeded change in a fresh scratch worktree (suite passes with it, demo fails with it and passes without it);
# only then copy it to seeded/<id>/
cd "$(dirname "$0")"; V=$(pwd); src=$1; id=$2
WT=/tmp/sverify.$$
trap 'git -C /repo worktree remove --force $WT 2>/dev/null; git -C /repo worktree prune' EXIT
git -C /repo worktree add --detach $WT HEAD >/dev/null 2>&1 || exit 2
cd $WT
git apply $src/patch.diff || { echo "$id APPLY-FAILED"; exit 1; }
suite=$(PYTHONPATH=$WT/src /venv/bin/python -m pytest -q -p no:cacheprovider --timeout=900 2>&1 | tail -1)
mkdir -p /tmp/sverify_demo.$$; cp $src/demo_test.py /tmp/sverify_demo.$$/demo_test.py
sed -i "s#/tmp/seed[0-9]*/[A-Z0-9]*/wt#$WT#g" /tmp/sverify_demo.$$/demo_test.py
with=$(PYTHONPATH=$WT/src timeout 600 /venv/bin/python -m pytest -q -p no:cacheprovider --timeout=300 /tmp/sverify_demo.$$/demo_test.py 2>&1 | tail -1)
git apply -R $src/patch.diff
without=$(PYTHONPATH=$WT/src timeout 600 /venv/bin/python -m pytest -q -p no:cacheprovider --timeout=300 /tmp/sverify_demo.$$/demo_test.py 2>&1 | tail -1)
rm -rf /tmp/sverify_demo.$$
echo "$id suite: $suite | demo with: $with | demo without: $without"
case "$suite" in *"1080 passed"*) ;; *) echo "$id REJECTED (suite)"; exit 1;; esac
case "$with" in *failed*|*error*) ;; *) echo "$id REJECTED (demo does not fail with patch)"; exit 1;; esac
case "$without" in *failed*|*error*) echo "$id REJECTED (demo fails without patch)"; exit 1;; esac
mkdir -p $V/seeded/$id; cp $src/patch.diff $src/demo_test.py $src/meta.json $V/seeded/$id/
echo "$id ACCEPTED"
