#!/bin/sh
# usage: tools_seedrun.sh <seeded dir name> <Cxx> [tier]  : apply seeded patch to /repo, run check, undo
d=/verif/seeded/$1
git -C /repo apply $d/patch.diff || exit 3
cd /verif && ./vcheck $2 --tier ${3:-quick} 2>&1 | grep -v "^WARNING" | tail -${4:-6} | cut -c1-600
echo "exit=$?"
git -C /repo checkout -- . 
git -C /repo status --porcelain | head -3
