#!/venv/bin/python
"""Regenerate MANIFEST.json from the table below (keeps the manifest valid as checks are added)."""
import json
import os

HERE = os.path.dirname(os.path.abspath(__file__))

TRUST = ("Trusted base: TLC 1.8 and the TLA+ specs' reading of the code; the backend contract in spec/Backend.tla "
         "(the real service is not available offline); the detsched shims standing in for CPython's threading/queue/time "
         "(concurrent.futures is CPython's own source re-executed over the shims); blake2b collision-freeness. "
         "Bounded: results hold for the stated constants and for the executions actually generated (counted in evidence).")

DUR = '''TLA+ spec Durable.tla (replay engine across invocations: every handler's check_result_status/execute case split, sync/async checkpoints, FIFO+Flush(k) pipeline abstraction, crash at every point, suspension, timers, external completions, API failures, backend lifecycle Legal/Apply) model-checked exhaustively with TLC on a curated program family; real SDK (real wrapper, handlers, batcher thread) run over many invocations against a stateful ModelBackend under a deterministic scheduler; every execution checked by direct oracles and validated as a behaviour of the spec by TLC trace validation (DurableTrace.tla); the environment model includes calls that are applied but whose answer is lost, paginated answers and histories, failing page fetches, slow calls; the FIFO+Flush(k) abstraction is discharged by the refinement Batcher.tla => Pipe.tla'''

EXE = '''TLA+ spec Executor.tla (map/parallel branch machine: submission, worker pool bound, done-callback split into status write / policy decision / one-status-per-step suspend scan, timer resubmission, cancellation, result construction, orphan marking; completion policy and reason classifier transcribed) model-checked exhaustively with TLC over a sweep of branch scripts x max_concurrency x completion configs; real SDK programs with map/parallel (nested, early completion, failures, waits/retries/callbacks inside branches) executed over many invocations against ModelBackend under a deterministic scheduler with function durations, API latency and crashes; direct oracles on the delivered BatchResult, the backend's update stream and the observed concurrency; recorded executions (first and later invocations of a call, crashed prefixes) validated as behaviours of the spec by TLC trace validation (ExecutorTrace.tla); the timer thread, the scheduler lock and inline done-callbacks are modelled, and every SDK lock gets slow-holder schedules on the real code'''

CHECKS = {
    "C15": dict(technique="TLA+ transcription Codec.tla of the default serializer's dispatch (is_primitive fast path vs tagged envelope, per-node wrapping, _unwrap rule, JSON's treatment of tuples and dict keys, BatchResult/BatchItem/ErrorObject dict forms) over an abstract value grammar; TLC enumerates every value shape up to depth 2-3 (one state per value) and checks RoundTrip / LookAlikeSafe / NoSilentAlteration; every enumerated shape is concretised from boundary leaf pools and run through the real ExtendedTypeSerDes and serialize()/deserialize() (table generation), comparing path, wire token tree, decoded shape and typed-exact equality; seeded random deeper values on top", text="The structural half of the property (dispatch, wrapping, look-alike unambiguity, key handling) is decided exhaustively by TLC on the transcription and bound to the code shape by shape; leaf-level fidelity (floats, Decimal text, isoformat, surrogates) is only sampled through pools and random values - the evidence says which is which.", design_ref="DESIGN.md 3.6, 5 (C15)", note="Trusted base: TLC; the transcription is bound to the code by comparing the model's predicted path / wire tree / decoded shape with the real serializer for every enumerated shape. Leaf bit patterns are sampled, not exhaustive."),
    "C20": dict(technique="TLA+ transcription Wire.tla of every to_dict / from_dict / to_json_dict / from_json_dict and create_* factory, field by field including truthiness tests, over abstract leaf domains (absent / empty / values; every enum member; timestamp classes); TLC enumerates all presence vectors (one state per abstract instance) and checks Lossless and UpdateCarriesOptions; every enumerated instance is concretised from leaf pools and run through the real codecs and an exact reference encoder (table generation) with an exact integer-microsecond timestamp oracle; seeded random instances on top", text="Field presence / emptiness / enum structure is decided exhaustively by TLC on the transcription and bound to the code instance by instance (wire form token by token, lost-leaf set); concrete leaf values incl. float arithmetic of timestamps are sampled.", design_ref="DESIGN.md 3.7, 5 (C20)", note="Trusted base: TLC; the transcription is checked against the real code for every enumerated instance; enum members, factory names and dataclass fields are compared with the code at run time."),
    "C16": dict(technique=DUR + "; map/parallel parts by campaigns of the real executor with direct oracles", text="TLC model checking of large child contexts (summary + ReplayChildren, body re-traversed on replay, no re-execution, large final result / error recorded first) + real executions with sizes limit-1/limit/limit+1, nested large contexts, summary generators, oversized map/parallel results and items, oversized final result and error, replay and crash after the summary: recorded payload <= limit, rebuilt value typed-equal, no new records, no function re-entry. Two genuine defects are recorded as known findings.", design_ref="DESIGN.md 3.4, 5 (C16)"),
    "C17": dict(technique=DUR + "; the replay-aware logger (first-page replay status, track_replay after returned operations, visited set) is part of Durable.tla with LOG instructions and the LoggerExact monitor", text="Exhaustive TLC model checking of programs with log calls between operations under every suspension/crash prefix and the first-page split + conformance: per invocation a log call is emitted iff no operation completed before the invocation began lies ahead of it; records carry the execution ARN. Four genuine deviations are recorded as known findings (named causes in the spec).", design_ref="DESIGN.md 3.4, 5 (C17)"),
    "C08": dict(technique="operation ids recomputed independently (blake2b of '<parent>-<n>' along the structural path encoded in operation names) and checked on every update of every invocation under schedules permuting branch start/completion order, in-process resubmission and re-invocation; structural ids are paths in Durable.tla/Executor.tla; gap-free per-context counters by OrderedLock.tla (C19)", text="Conformance campaign over nested sequential and map/parallel programs (ids, parent links, uniqueness, stability across invocations) with the TLA+ models using structural paths as identities; blake2b collision-freeness assumed.", design_ref="DESIGN.md 5 (C08)"),
    "C09": dict(technique=EXE, text="Exhaustive TLC sweep of the executor (ConcurrencyBound, ReturnsOnlyWhenDecided, ItemsFaithful, ReasonConsistent) + real executions: one item per input in order, reported items carry the branch's own result/error (ground truth recorded in the branch body), policy decided at return, reason consistent, concurrency limit, replayed BatchResult equal.", design_ref="DESIGN.md 3.5, 5 (C09)"),
    "C10": dict(technique=EXE, text="Exhaustive TLC sweep (NoDescendantAfterParentDone for known and never-seen operations, un-started branches, nested executors) + real early-completion executions with surviving branches at every kind of position; oracle on the backend stream: no update under a context after its completion record.", design_ref="DESIGN.md 3.5, 5 (C10)"),
    "C01": dict(technique=DUR, text="Exhaustive TLC model checking of the engine on curated programs (all crash points / flush splits / timer and completion orders / failure positions within budgets) + conformance of the real SDK: no function entry while the backend holds a terminal record; later calls yield the recorded outcome; crash sweep at every scheduling step, random pagination incl. empty first page.", design_ref="DESIGN.md 3.4, 5 (C01)"),
    "C02": dict(technique=DUR, text="Exhaustive TLC model checking of the engine on curated programs (all crash points / flush splits / timer and completion orders / failure positions within budgets) + conformance of the real SDK: all deliveries at one call position equal across invocations (typed repr / class|message); final outcome independent of the interruption pattern.", design_ref="DESIGN.md 3.4, 5 (C02)"),
    "C03": dict(technique=DUR, text="Exhaustive TLC model checking of the engine on curated programs (all crash points / flush splits / timer and completion orders / failure positions within budgets) + conformance of the real SDK: every delivery / PENDING / SUCCEEDED happens after the backend accepted the record, under schedules that starve the consumer and API faults; a thread that decided to retry parks only after handing over its RETRY record (in-process retries in branches).", design_ref="DESIGN.md 3.4, 5 (C03)"),
    "C04": dict(technique=DUR, text="Exhaustive TLC model checking of the engine on curated programs (all crash points / flush splits / timer and completion orders / failure positions within budgets) + conformance of the real SDK: at most one entry per (at-most-once step, attempt), START recorded first; every invocation killed at every scheduling step.", design_ref="DESIGN.md 3.4, 5 (C04)"),
    "C06": dict(technique=DUR, text="Exhaustive TLC model checking of the engine on curated programs (all crash points / flush splits / timer and completion orders / failure positions within budgets) + conformance of the real SDK: fault enumeration: every program x API call index x error class: no call / unrecorded outcome / SUCCEEDED / PENDING / hang after the failure, raise vs FAILED by classification.", design_ref="DESIGN.md 3.2, 3.4, 5 (C06)"),
    "C07": dict(technique=DUR, text="Exhaustive TLC model checking of the engine on curated programs (all crash points / flush splits / timer and completion orders / failure positions within budgets) + conformance of the real SDK: executions driven to a terminal status; PENDING only when wakeable, no hang, no user function running at PENDING; liveness under WF in TLC; the checkpoint pipeline after a failed call releases every producer (Batcher.tla NoStuckWaiter / EveryProducerReturns + the real pipeline under systematic schedules, trace-validated).", design_ref="DESIGN.md 3.2, 3.4, 3.5, 5 (C07)"),
    "C11": dict(technique=DUR, text="Exhaustive TLC model checking of the engine on curated programs (all crash points / flush splits / timer and completion orders / failure positions within budgets) + conformance of the real SDK: ModelBackend (twin of Legal) validates the concatenated update stream of every execution incl. histories cut by crashes.", design_ref="DESIGN.md 3.3, 5 (C11)"),
    "C12": dict(technique=DUR, text="Exhaustive TLC model checking of the engine on curated programs (all crash points / flush splits / timer and completion orders / failure positions within budgets) + conformance of the real SDK: strategy attempt numbers, RETRY count/delay, re-attempt only after accepted RETRY, exact run counts.", design_ref="DESIGN.md 3.4, 3.8, 5 (C12)"),
    "C13": dict(technique=DUR, text="Exhaustive TLC model checking of the engine on curated programs (all crash points / flush splits / timer and completion orders / failure positions within budgets) + conformance of the real SDK: state threading incl. falsy states, poll numbering across invocations and crashes, stop point, delays, no poll after terminal.", design_ref="DESIGN.md 3.4, 5 (C13)"),
    "C14": dict(technique=DUR, text="Exhaustive TLC model checking of the engine on curated programs (all crash points / flush splits / timer and completion orders / failure positions within budgets) + conformance of the real SDK: callback id stability, deferred errors, faithful outcomes for every terminal status and completion order, single START.", design_ref="DESIGN.md 3.4, 5 (C14)"),
    "C18": dict(technique=DUR, text="Exhaustive TLC model checking of the engine on curated programs (all crash points / flush splits / timer and completion orders / failure positions within budgets) + conformance of the real SDK: well-formed output per status, raise only for retriable/invocation errors, checkpoint thread stopped, handlers catching Exception, checkpoint faults; no response above the Lambda limit in UTF-8 bytes (large non-ASCII results).", design_ref="DESIGN.md 3.8, 5 (C18)"),
    "C05": dict(
        technique="TLA+ spec Batcher.tla (producers' check/put/wait and the consumer's overflow drain, batching window, API call, "
                  "merge, release and failure path, one action per queue/event/API operation) model-checked exhaustively with TLC "
                  "(safety + liveness under WF); the real ExecutionState pipeline executed under a deterministic scheduler with real "
                  "serialized sizes around the limits and adversarial window timing; every recorded execution validated against "
                  "the spec by TLC trace validation (BatcherTrace.tla) plus direct oracles on order, tokens, limits and release; "
                  "refinement of the FIFO/Flush abstraction (Pipe.tla) checked by TLC; spec -> code: behaviours sampled by TLC from "
                  "BatcherGen.tla are forced onto the real pipeline by a guided scheduler and must be followed event by event",
        text="Exhaustive model checking of the checkpoint pipeline for 2-3 producers, every arrival interleaving, every window "
             "closing, sizes incl. oversize, every sync pattern and an API failure at any call; bound to the code by trace "
             "validation of hundreds to thousands of real schedules (DFS + random/PCT). Two genuine defects found this way were "
             "repaired (fix: commits) and the spec models the repaired code; the pinned-original variant is kept as a probe.",
        design_ref="DESIGN.md 3.2, 5 (C05)"),
    "C19": dict(
        technique="TLA+ spec OrderedLock.tla model-checked exhaustively with TLC (safety + liveness under WF); real "
                  "OrderedLock/OrderedCounter executed under a deterministic scheduler (preemption-bounded DFS + random/PCT "
                  "schedules, exception injected in any one critical section) and every recorded execution validated as a "
                  "behaviour of the spec by TLC trace validation (OrderedLockTrace.tla); reset() at any moment by one more caller; "
                  "spec -> code: every complete behaviour of OrderedLockGen.tla (enumerated by TLC for small constants, simulated for "
                  "larger ones) is forced onto the real lock by a guided scheduler and must be followed event by event",
        text="Exhaustive model checking of the lock protocol at primitive-operation granularity for 3 threads x 2 rounds and "
             "any single raising critical section (mutual exclusion, FIFO, break semantics, gap-free counter, termination), "
             "bound to the code by validating hundreds to thousands of real interleavings (explored systematically, not by "
             "sleeps) against the same spec with all invariants evaluated at every step.",
        design_ref="DESIGN.md 3.1, 5 (C19)"),
}

NOT_YET = "check not built yet in this round (specification and conformance harness in progress); not claimed"


def main():
    props = [json.loads(l) for l in open(os.path.join(HERE, "properties.jsonl"))]
    checks, na = [], []
    for p in props:
        pid = p["id"]
        c = CHECKS.get(pid)
        if c is None:
            na.append({"property_id": pid, "reason": NA.get(pid, NOT_YET)})
            continue
        checks.append({
            "property_id": pid,
            "quick_cmd": f"./vcheck {pid} --tier quick",
            "thorough_cmd": f"./vcheck {pid} --tier thorough",
            "evidence_file": f"/verif/evidence/{pid}.json",
            "replay_cmd_template": "./vcheck replay {path}",
            "engine": "tlc+detsched",
            "level_claimed": {"category": "model_checking", "text": c["text"], "design_ref": c["design_ref"]},
            "level_note": c.get("note", TRUST),
            "technique": c["technique"],
        })
    m = {
        "version": 1,
        "setup_cmd": "./vsetup",
        "hooks": {
            "guard": "DEX_VERIF",
            "enable": "no source hooks are needed: observation is by rebinding module attributes from the harness (harness/install.py); "
                      "DEX_VERIF is reserved and currently unused",
            "baseline_off_cmd": "cd /repo && /venv/bin/python -m pytest -q -p no:cacheprovider --timeout=900",
            "source_commits": [],
            "add_only": True,
        },
        "engines": [
            {"name": "tlc+detsched", "path": "/verif/vcheck",
             "serves_properties": [c["property_id"] for c in checks],
             "kind_free_text": "TLA+ specifications (spec/*.tla) checked with TLC; conformance of the real SDK by trace validation "
                               "(code -> spec), behaviour replay (spec -> code) and table generation, over a deterministic "
                               "cooperative scheduler for the unmodified threaded code (harness/)"},
        ],
        "checks": checks,
        "not_applicable": na,
        "notes": "See DESIGN.md. Exit codes: 0 held / 1 VIOLATION / 2 machinery failure. known_findings.txt lists genuine defects "
                 "that are recorded rather than repaired; they print KNOWN-FINDING lines and do not fail the check.",
    }
    with open(os.path.join(HERE, "MANIFEST.json"), "w") as f:
        json.dump(m, f, indent=1)
    print("claimed:", [c["property_id"] for c in checks])


NA = {}

if __name__ == "__main__":
    main()
